import DracoProofs.EbMDIso
import DracoProofs.EbEncCM
import DracoProofs.EbEncTex
import DracoProofs.CornerTableOrbit
/-
  The prediction schemes of the Edgebreaker attribute ENCODER are equivariant: run on two isomorphic mesh
  data (`MDIso d e φ ψ`, DracoProofs/EbMDIso.lean: the decoder's view `d`, the encoder's view `e`) they write
  the same value block.
-/
namespace Draco.EbEnc
open Draco
open Draco.Eb hiding iabs nextC prevC

theorem bind_left_congr {α β : Type} {x y : R α} (f : α → R β) (h : x = y) : (x >>= f) = (y >>= f) := by rw [h]

/-! ### (1) table navigation under the isomorphism -/

theorem ext_next {φ : Nat → Nat} {d e : TView} {ψ : Nat → Nat} (h : TVIso d e φ ψ) (o : Nat)
    (ho : o = inv ∨ o < 3 * d.numFaces) : Eb.nextC (ext φ o) = ext φ (Eb.nextC o) := by
  rcases ho with rfl | ho
  · simp [Eb.nextC]
  · rw [ext_of_ne φ (h.ne_inv o ho), ext_of_ne φ (h.ne_inv _ (TVIso.nextC_lt ho)), h.phi_next o ho]

theorem ext_prev {φ : Nat → Nat} {d e : TView} {ψ : Nat → Nat} (h : TVIso d e φ ψ) (o : Nat)
    (ho : o = inv ∨ o < 3 * d.numFaces) : Eb.prevC (ext φ o) = ext φ (Eb.prevC o) := by
  rcases ho with rfl | ho
  · simp [Eb.prevC]
  · rw [ext_of_ne φ (h.ne_inv o ho), ext_of_ne φ (h.ne_inv _ (TVIso.prevC_lt ho h.fits.1)), h.phi_prev o ho]

theorem next_ok {n o : Nat} (ho : o = inv ∨ o < 3 * n) : Eb.nextC o = inv ∨ Eb.nextC o < 3 * n := by
  rcases ho with rfl | ho
  · left; simp [Eb.nextC]
  · right; exact TVIso.nextC_lt ho

theorem prev_ok {n o : Nat} (hn : 3 * n ≤ inv) (ho : o = inv ∨ o < 3 * n) : Eb.prevC o = inv ∨ Eb.prevC o < 3 * n := by
  rcases ho with rfl | ho
  · left; simp [Eb.prevC]
  · right; exact TVIso.prevC_lt ho hn

namespace TVIso
variable {d e : TView} {φ ψ : Nat → Nat}

/-- `Opposite` commutes with the corner map (as an equation in `R`) -/
theorem opposite_eq (h : TVIso d e φ ψ) (c : Nat) (hc : c < 3 * d.numFaces) :
    e.opposite (φ c) = (d.opposite c).map (ext φ) := by
  obtain ⟨o, h1, _, h2⟩ := h.opposite c hc
  rw [h1, h2]; rfl

/-- `SwingLeft` on a valid corner of `d` succeeds, and `e` returns the image -/
theorem swingLeft_ok (h : TVIso d e φ ψ) (c : Nat) (hc : c < 3 * d.numFaces) :
    ∃ o, d.swingLeft c = .ok o ∧ (o = inv ∨ o < 3 * d.numFaces) ∧ e.swingLeft (φ c) = .ok (ext φ o) := by
  obtain ⟨o, h1, ho, h2⟩ := h.opposite (Eb.nextC c) (nextC_lt hc)
  refine ⟨Eb.nextC o, ?_, next_ok ho, ?_⟩
  · unfold TView.swingLeft; rw [h1]; rfl
  · unfold TView.swingLeft; rw [← h.phi_next c hc, h2, ← ext_next h o ho]; rfl

/-- `SwingRight` on a valid corner of `d` succeeds, and `e` returns the image -/
theorem swingRight_ok (h : TVIso d e φ ψ) (c : Nat) (hc : c < 3 * d.numFaces) :
    ∃ o, d.swingRight c = .ok o ∧ (o = inv ∨ o < 3 * d.numFaces) ∧ e.swingRight (φ c) = .ok (ext φ o) := by
  obtain ⟨o, h1, ho, h2⟩ := h.opposite (Eb.prevC c) (prevC_lt hc h.fits.1)
  refine ⟨Eb.prevC o, ?_, prev_ok h.fits.1 ho, ?_⟩
  · unfold TView.swingRight; rw [h1]; rfl
  · unfold TView.swingRight; rw [← h.phi_prev c hc, h2, ← ext_prev h o ho]; rfl

/-- `SwingLeft` commutes with the corner map (as an equation in `R`) -/
theorem swingLeft_eq (h : TVIso d e φ ψ) (c : Nat) (hc : c < 3 * d.numFaces) :
    e.swingLeft (φ c) = (d.swingLeft c).map (ext φ) := by
  obtain ⟨o, h1, _, h2⟩ := h.swingLeft_ok c hc
  rw [h1, h2]; rfl

/-- `SwingRight` commutes with the corner map (as an equation in `R`) -/
theorem swingRight_eq (h : TVIso d e φ ψ) (c : Nat) (hc : c < 3 * d.numFaces) :
    e.swingRight (φ c) = (d.swingRight c).map (ext φ) := by
  obtain ⟨o, h1, _, h2⟩ := h.swingRight_ok c hc
  rw [h1, h2]; rfl

/-- `Vertex` commutes with the corner / vertex maps (as an equation in `R`) -/
theorem vertex_eq (h : TVIso d e φ ψ) (c : Nat) (hc : c < 3 * d.numFaces) :
    e.vertex (φ c) = (d.vertex c).map ψ := by
  obtain ⟨v, h1, _, h2, _⟩ := h.vertex c hc
  rw [h1, h2]; rfl

end TVIso

namespace MDIso
variable {d e : MeshData} {φ ψ : Nat → Nat}

/-- the `vertex_to_data_map` lookup of the vertex of a corner: the same entry on both sides -/
theorem vertexData (h : MDIso d e φ ψ) (c : Nat) (hc : c < 3 * d.t.numFaces) :
    ∃ v x, d.t.vertex c = .ok v ∧ e.t.vertex (φ c) = .ok (ψ v) ∧
      (∀ site, rd site d.v2d v = .ok x) ∧ (∀ site, rd site e.v2d (ψ v) = .ok x) := by
  obtain ⟨v, h1, _, h2, _⟩ := h.view.vertex c hc
  obtain ⟨x, h3, h4⟩ := h.v2d c v hc h1
  exact ⟨v, x, h1, h2, h3, h4⟩

/-- … as an equation in `R` -/
theorem vertexData_eq (h : MDIso d e φ ψ) (site : String) (c : Nat) (hc : c < 3 * d.t.numFaces) :
    (e.t.vertex (φ c) >>= rd site e.v2d) = (d.t.vertex c >>= rd site d.v2d) := by
  obtain ⟨v, x, h1, h2, h3, h4⟩ := h.vertexData c hc
  rw [h1, h2, ok_bind, ok_bind, h3, h4]

/-- the `vertex_to_data_map` lookup commutes with the vertex map on the vertices of corners -/
theorem rd_v2d_eq (h : MDIso d e φ ψ) (site : String) (c v : Nat) (hc : c < 3 * d.t.numFaces)
    (hv : d.t.vertex c = .ok v) : rd site e.v2d (ψ v) = rd site d.v2d v := by
  obtain ⟨x, h3, h4⟩ := h.v2d c v hc hv
  rw [h3, h4]

/-- entry `p` of `data_to_corner_map` on both sides -/
theorem d2c_get (h : MDIso d e φ ψ) (p : Nat) (hp : p < d.d2c.size) :
    d.d2c[p]! < 3 * d.t.numFaces ∧ e.d2c[p]! = φ d.d2c[p]! := by
  have := h.d2c p hp
  simp only [getElem!_pos d.d2c p hp]
  exact this

end MDIso

/-! ### (2) the parallelogram predictor -/

/-- the `-1` check of the encoder is the same on both sides -/
theorem checkParallelogramEntries_iso {d e : MeshData} {φ ψ : Nat → Nat} (h : MDIso d e φ ψ) (ci : Nat)
    (hci : ci < 3 * d.t.numFaces) : checkParallelogramEntries e (φ ci) = checkParallelogramEntries d ci := by
  unfold checkParallelogramEntries
  obtain ⟨o, hdo, hov, heo⟩ := h.view.opposite ci hci
  rw [hdo, heo]
  simp only [ok_bind]
  rcases hov with rfl | hov
  · simp
  · have hne := h.view.ne_inv o hov
    have hne' := h.view.phi_ne_inv o hov
    rw [ext_of_ne φ hne]
    obtain ⟨v1, x1, a1, b1, c1, d1⟩ := h.vertexData o hov
    obtain ⟨v2, x2, a2, b2, c2, d2⟩ := h.vertexData (Eb.nextC o) (TVIso.nextC_lt hov)
    obtain ⟨v3, x3, a3, b3, c3, d3⟩ := h.vertexData (Eb.prevC o) (TVIso.prevC_lt hov h.view.fits.1)
    rw [← h.view.phi_next o hov, ← h.view.phi_prev o hov]
    simp only [a1, b1, a2, b2, a3, b3, c1, d1, c2, d2, c3, d3, ok_bind, hne, hne', beq_iff_eq, if_false]

/-- `ComputeParallelogramPrediction` is the same on both sides -/
theorem parallelogramPrediction_iso {d e : MeshData} {φ ψ : Nat → Nat} (h : MDIso d e φ ψ) (p ci : Nat)
    (data : Array Int) (nc : Nat) (hci : ci < 3 * d.t.numFaces) :
    parallelogramPrediction e p (φ ci) data nc = parallelogramPrediction d p ci data nc := by
  unfold parallelogramPrediction
  obtain ⟨o, hdo, hov, heo⟩ := h.view.opposite ci hci
  rw [hdo, heo]
  simp only [ok_bind]
  rcases hov with rfl | hov
  · simp
  · have hne := h.view.ne_inv o hov
    have hne' := h.view.phi_ne_inv o hov
    rw [ext_of_ne φ hne]
    obtain ⟨v1, x1, a1, b1, c1, d1⟩ := h.vertexData o hov
    obtain ⟨v2, x2, a2, b2, c2, d2⟩ := h.vertexData (Eb.nextC o) (TVIso.nextC_lt hov)
    obtain ⟨v3, x3, a3, b3, c3, d3⟩ := h.vertexData (Eb.prevC o) (TVIso.prevC_lt hov h.view.fits.1)
    rw [← h.view.phi_next o hov, ← h.view.phi_prev o hov]
    simp only [a1, b1, a2, b2, a3, b3, c1, d1, c2, d2, c3, d3, ok_bind, hne, hne', beq_iff_eq, if_false]

/-- the encoder-side call of the predictor is the same on both sides -/
theorem parallelogramPredictionE_iso {d e : MeshData} {φ ψ : Nat → Nat} (h : MDIso d e φ ψ) (p ci : Nat)
    (data : Array Int) (nc : Nat) (hci : ci < 3 * d.t.numFaces) :
    parallelogramPredictionE e p (φ ci) data nc = parallelogramPredictionE d p ci data nc := by
  unfold parallelogramPredictionE
  rw [checkParallelogramEntries_iso h ci hci, parallelogramPrediction_iso h p ci data nc hci]

/-! ### (3a) the parallelogram encoder -/

theorem encodeBackward_congr (n size : Nat) (f g : Nat → Array Int → R (Array Int))
    (h : ∀ p, (p = 0 ∨ p < n) → ∀ out, f p out = g p out) : encodeBackward n size f = encodeBackward n size g := by
  unfold encodeBackward
  simp only [Std.Legacy.Range.forIn_eq_forIn_range']
  rw [forIn_list_congr _ _ (fun k s => do let out ← g (n - 1 - k) s; pure (ForInStep.yield out)) ?_]
  · exact bind_congr (fun s => h 0 (Or.inl rfl) s)
  · intro k hk s
    have hk' : k < n - 1 := by
      have := List.mem_range'.mp hk
      simp [Std.Legacy.Range.size] at this
      omega
    rw [h (n - 1 - k) (Or.inr (by omega)) s]

/-- the parallelogram encoder writes the same corrections on both sides -/
theorem parallelogramEncode_iso {d e : MeshData} {φ ψ : Nat → Nat} (h : MDIso d e φ ψ) (wt : WrapT) (nc : Nat)
    (data : Array Int) : parallelogramEncode e wt nc data = parallelogramEncode d wt nc data := by
  unfold parallelogramEncode
  rw [h.d2c_size]
  apply encodeBackward_congr
  intro p hp out
  unfold parallelogramCorrAt
  by_cases hp0 : p = 0
  · simp [hp0]
  · have hpn : p < d.d2c.size := by omega
    obtain ⟨hlt, he⟩ := h.d2c_get p hpn
    have hb : (p == 0) = false := by simpa using hp0
    simp only [hb, Bool.false_eq_true, if_false, he]
    rw [parallelogramPredictionE_iso h p _ data nc hlt]

/-! ### (3c) the tex-coords encoder -/

/-- the tex-coord predictor of the encoder is the same on both sides -/
theorem texPredictEnc_iso {d e : MeshData} {φ ψ : Nat → Nat} (h : MDIso d e φ ψ) (ps : PosSource) (c : Nat)
    (data : Array Int) (p : Nat) (hc : c < 3 * d.t.numFaces) :
    texPredictEnc e ps (φ c) data p = texPredictEnc d ps c data p := by
  obtain ⟨v2, x2, a2, b2, c2, d2⟩ := h.vertexData (Eb.nextC c) (TVIso.nextC_lt hc)
  obtain ⟨v3, x3, a3, b3, c3, d3⟩ := h.vertexData (Eb.prevC c) (TVIso.prevC_lt hc h.view.fits.1)
  unfold texPredictEnc
  rw [← h.view.phi_next c hc, ← h.view.phi_prev c hc, a2, b2, a3, b3]
  simp only [ok_bind]
  rw [c2, d2, c3, d3]

/-- the tex-coords encoder writes the same corrections and orientations on both sides -/
theorem texCoordsEncode_iso {d e : MeshData} {φ ψ : Nat → Nat} (h : MDIso d e φ ψ) (ps : PosSource) (wt : WrapT)
    (nc : Nat) (data : Array Int) : texCoordsEncode e ps wt nc data = texCoordsEncode d ps wt nc data := by
  unfold texCoordsEncode
  simp only [Std.Legacy.Range.forIn_eq_forIn_range']
  rw [h.d2c_size]
  by_cases hnc : (nc != 2) = true
  · simp only [hnc, if_true]; rfl
  · simp only [hnc]
    apply bind_left_congr
    apply forIn_list_congr
    intro k hk s
    have hk' : k < d.d2c.size := by
      have := List.mem_range'.mp hk
      simp [Std.Legacy.Range.size] at this
      omega
    obtain ⟨hlt, he⟩ := h.d2c_get (d.d2c.size - 1 - k) (by omega)
    rw [he, texPredictEnc_iso h ps _ data _ hlt]

/-! ### loops that walk around a vertex: independence of the fuel

  The loops over the corners of a vertex (`constrainedMultiEncode`, `normalPredict`) are bounded by a fuel derived
  from `numFaces`, which differs on the two sides.  `StopsIn f n s r`: the loop with the (index independent)
  body `f`, started in `s`, leaves the loop — `done` or an error — within `n` iterations, with the outcome `r`. -/

inductive StopsIn {σ : Type} (f : σ → R (ForInStep σ)) : Nat → σ → R σ → Prop
  | err {n : Nat} {s : σ} {e : Err} : f s = .error e → StopsIn f (n + 1) s (.error e)
  | done {n : Nat} {s s' : σ} : f s = .ok (.done s') → StopsIn f (n + 1) s (.ok s')
  | yield {n : Nat} {s s' : σ} {r : R σ} : f s = .ok (.yield s') → StopsIn f n s' r → StopsIn f (n + 1) s r

/-- a loop that stops within `n` iterations returns its outcome on every list of at least `n` elements -/
theorem StopsIn.forIn_eq {σ : Type} {f : σ → R (ForInStep σ)} {n : Nat} {s : σ} {r : R σ} (h : StopsIn f n s r) :
    ∀ l : List Nat, n ≤ l.length → forIn l s (fun _ x => f x) = r := by
  induction h with
  | err he =>
    intro l hl
    cases l with
    | nil => simp at hl
    | cons a l => rw [List.forIn_cons, he]; rfl
  | done he =>
    intro l hl
    cases l with
    | nil => simp at hl
    | cons a l => rw [List.forIn_cons, he]; rfl
  | yield he _ ih =>
    intro l hl
    cases l with
    | nil => simp at hl
    | cons a l =>
      rw [List.forIn_cons, he]
      exact ih l (by simpa using hl)

/-- the image of a loop step under a map of the states -/
def stepMap {σ τ : Type} (ρ : σ → τ) : ForInStep σ → ForInStep τ
  | .done s => .done (ρ s)
  | .yield s => .yield (ρ s)

/-- simulation: when the body `g` on the image `ρ s` of a state (satisfying the invariant) does what `f` does on
    `s`, a loop over `f` that stops is mirrored by the loop over `g` -/
theorem StopsIn.map {σ τ : Type} {f : σ → R (ForInStep σ)} {g : τ → R (ForInStep τ)} (ρ : σ → τ) (Inv : σ → Prop)
    (hsim : ∀ s, Inv s → g (ρ s) = (f s).map (stepMap ρ))
    (hinv : ∀ s s', Inv s → (f s = .ok (.yield s') ∨ f s = .ok (.done s')) → Inv s')
    {n : Nat} {s : σ} {r : R σ} (h : StopsIn f n s r) (hs : Inv s) : StopsIn g n (ρ s) (r.map ρ) := by
  induction h with
  | err he => exact StopsIn.err (by rw [hsim _ hs, he]; rfl)
  | done he => exact StopsIn.done (by rw [hsim _ hs, he]; rfl)
  | yield he _ ih => exact StopsIn.yield (by rw [hsim _ hs, he]; rfl) (ih (hinv _ _ hs (Or.inl he)))

/-- a loop that fails, or that returns a state which cannot be reached by yielding only (`P`: the `fin` flag), has
    stopped -/
theorem StopsIn.of_forIn {σ : Type} (f : σ → R (ForInStep σ)) (P : σ → Prop)
    (hP : ∀ s s', ¬ P s → f s = .ok (.yield s') → ¬ P s') :
    ∀ (l : List Nat) (s : σ) (r : R σ), ¬ P s → forIn l s (fun _ x => f x) = r → (∀ g, r = .ok g → P g) →
      StopsIn f l.length s r := by
  intro l
  induction l with
  | nil =>
    intro s r hs hr hg
    simp only [List.forIn_nil] at hr
    exact absurd (hg s hr.symm) hs
  | cons a l ih =>
    intro s r hs hr hg
    rw [List.forIn_cons] at hr
    cases hf : f s with
    | error e => rw [hf] at hr; subst hr; exact StopsIn.err hf
    | ok st =>
      cases st with
      | done s' => rw [hf] at hr; subst hr; exact StopsIn.done hf
      | yield s' =>
        rw [hf] at hr
        exact StopsIn.yield hf (ih s' r (hP s s' hs hf) hr hg)

/-- a loop that does not stop within `n` iterations yields `n` times -/
theorem not_stops_trace {σ : Type} (f : σ → R (ForInStep σ)) :
    ∀ (n : Nat) (s : σ), (∀ r, ¬ StopsIn f n s r) →
      ∃ E : Nat → σ, E 0 = s ∧ ∀ i, i < n → f (E i) = .ok (.yield (E (i + 1))) := by
  intro n
  induction n with
  | zero => intro s _; exact ⟨fun _ => s, rfl, fun i hi => absurd hi (Nat.not_lt_zero _)⟩
  | succ n ih =>
    intro s hs
    cases hf : f s with
    | error e => exact absurd (StopsIn.err hf) (hs _)
    | ok st =>
      cases st with
      | done s' => exact absurd (StopsIn.done hf) (hs _)
      | yield s' =>
        obtain ⟨E, e0, e1⟩ := ih s' (fun r hr => hs r (StopsIn.yield hf hr))
        refine ⟨fun i => if i = 0 then s else E (i - 1), rfl, ?_⟩
        intro i hi
        cases i with
        | zero => simpa [e0] using hf
        | succ j => simpa using e1 j (by omega)

/-! ### (3b) the constrained multi-parallelogram encoder -/

theorem ext_beq_inv {d e : TView} {φ ψ : Nat → Nat} (h : TVIso d e φ ψ) (o : Nat)
    (ho : o = inv ∨ o < 3 * d.numFaces) : (ext φ o == inv) = (o == inv) := by
  rcases ho with rfl | ho
  · simp
  · rw [ext_of_ne φ (h.ne_inv o ho)]
    have h1 := h.ne_inv o ho
    have h2 := h.phi_ne_inv o ho
    simp [h1, h2]

theorem ext_beq_phi {d e : TView} {φ ψ : Nat → Nat} (h : TVIso d e φ ψ) (o c : Nat)
    (ho : o = inv ∨ o < 3 * d.numFaces) (hc : c < 3 * d.numFaces) : (ext φ o == φ c) = (o == c) := by
  rcases ho with rfl | ho
  · have h1 := h.ne_inv c hc
    have h2 := h.phi_ne_inv c hc
    simp [Ne.symm h1, Ne.symm h2]
  · rw [ext_of_ne φ (h.ne_inv o ho)]
    by_cases hoc : o = c
    · simp [hoc]
    · have : φ o ≠ φ c := fun he => hoc (h.phi_inj o c ho hc he)
      simp [hoc, this]

/-- the image of a state of the gather loop -/
def gMap (φ : Nat → Nat) (s : CMGatherSt) : CMGatherSt := (ext φ s.1, s.2.1, s.2.2.1, s.2.2.2)

theorem gStep_iso {d e : TView} {φ ψ : Nat → Nat} (h : TVIso d e φ ψ) (predD predE : Nat → R (Option (Array Int)))
    (hpred : ∀ c, c < 3 * d.numFaces → predE (φ c) = predD c) (start kMax : Nat) (hstart : start < 3 * d.numFaces)
    (s : CMGatherSt) (hs : s.1 = inv ∨ s.1 < 3 * d.numFaces) :
    gStep predE e (φ start) kMax (gMap φ s) = (gStep predD d start kMax s).map (stepMap (gMap φ)) := by
  obtain ⟨c, preds, fp, fin⟩ := s
  simp only at hs
  unfold gStep gMap
  simp only [ext_beq_inv h c hs]
  by_cases hc : (c == inv) = true
  · simp only [hc, if_true]; rfl
  · simp only [hc, Bool.false_eq_true, if_false]
    have hlt : c < 3 * d.numFaces := by
      rcases hs with hs | hs
      · simp [hs] at hc
      · exact hs
    have hcφ : ext φ c = φ c := ext_of_ne φ (h.ne_inv c hlt)
    rw [hcφ, hpred c hlt]
    obtain ⟨oL, hdL, hoL, heL⟩ := h.swingLeft_ok c hlt
    obtain ⟨oR, hdR, hoR, heR⟩ := h.swingRight_ok c hlt
    obtain ⟨oS, hdS, hoS, heS⟩ := h.swingRight_ok start hstart
    rw [hdL, heL, hdR, heR, hdS, heS]
    simp only [ok_bind, ext_beq_phi h _ _ hoL hstart, ext_beq_phi h _ _ hoR hstart, ext_beq_inv h _ hoL,
      ext_beq_inv h _ hoR]
    cases predD c with
    | error err => rfl
    | ok l =>
      cases l with
      | none => simp only [ok_bind]; split_ifs <;> rfl
      | some pv => simp only [ok_bind]; split_ifs <;> first | rfl | (rw [← hcφ]; rfl)

theorem gStep_inv {d e : TView} {φ ψ : Nat → Nat} (h : TVIso d e φ ψ) (predD : Nat → R (Option (Array Int)))
    (start kMax : Nat) (hstart : start < 3 * d.numFaces)
    (s s' : CMGatherSt) (hs : s.1 = inv ∨ s.1 < 3 * d.numFaces)
    (hstep : gStep predD d start kMax s = .ok (.yield s') ∨ gStep predD d start kMax s = .ok (.done s')) :
    s'.1 = inv ∨ s'.1 < 3 * d.numFaces := by
  obtain ⟨c, preds, fp, fin⟩ := s
  simp only at hs
  unfold gStep at hstep
  by_cases hc : (c == inv) = true
  · simp only [hc, if_true] at hstep
    rcases hstep with hstep | hstep <;> cases hstep
    exact hs
  · simp only [hc, Bool.false_eq_true, if_false] at hstep
    have hlt : c < 3 * d.numFaces := by
      rcases hs with hs | hs
      · simp [hs] at hc
      · exact hs
    obtain ⟨oL, hdL, hoL, heL⟩ := h.swingLeft_ok c hlt
    obtain ⟨oR, hdR, hoR, heR⟩ := h.swingRight_ok c hlt
    obtain ⟨oS, hdS, hoS, heS⟩ := h.swingRight_ok start hstart
    rw [hdL, hdR, hdS] at hstep
    cases hp : predD c with
    | error err => rw [hp] at hstep; rcases hstep with hstep | hstep <;> cases hstep
    | ok l =>
      rw [hp] at hstep
      cases l with
      | none =>
        simp only [ok_bind] at hstep
        split_ifs at hstep <;> rcases hstep with hstep | hstep <;> cases hstep <;>
          first | exact hs | exact hoL | exact hoR | exact hoS
      | some pv =>
        simp only [ok_bind] at hstep
        split_ifs at hstep <;> rcases hstep with hstep | hstep <;> cases hstep <;>
          first | exact hs | exact hoL | exact hoR | exact hoS

/-- the encoder's view has at least as many faces as the decoder's -/
theorem TVIso.numFaces_le {d e : TView} {φ ψ : Nat → Nat} (h : TVIso d e φ ψ) : d.numFaces ≤ e.numFaces := by
  have := pigeon φ (3 * d.numFaces) (3 * e.numFaces) h.phi_lt (fun i j hij hj he => by
    have := h.phi_inj i j (by omega) hj he
    omega)
  omega

theorem range_size_length (n : Nat) : (List.range' 0 [0:n].size).length = n := by
  simp [Std.Legacy.Range.size]

/-- the gather loop on both sides, when the walk on `d` stops within the fuel of `d` -/
theorem gather_iso_of_stops {d e : TView} {φ ψ : Nat → Nat} (h : TVIso d e φ ψ)
    (predD predE : Nat → R (Option (Array Int))) (hpred : ∀ c, c < 3 * d.numFaces → predE (φ c) = predD c)
    (start : Nat) (hstart : start < 3 * d.numFaces) (r : R CMGatherSt)
    (hst : StopsIn (gStep predD d start Generated.kMaxNumParallelograms.toNat) (2 * (3 * d.numFaces) + 4)
      (start, #[], true, false) r) :
    gather predD d start = r ∧ gather predE e (φ start) = r.map (gMap φ) := by
  have hle := h.numFaces_le
  constructor
  · unfold gather
    simp only [Std.Legacy.Range.forIn_eq_forIn_range']
    exact hst.forIn_eq _ (Nat.le_of_eq (range_size_length _).symm)
  · have hst' := StopsIn.map (g := gStep predE e (φ start) Generated.kMaxNumParallelograms.toNat) (gMap φ)
      (fun s => s.1 = inv ∨ s.1 < 3 * d.numFaces)
      (fun s hs => gStep_iso h predD predE hpred start _ hstart s hs)
      (fun s s' hs hstep => gStep_inv h predD start _ hstart s s' hs hstep) hst (Or.inr hstart)
    unfold gather
    simp only [Std.Legacy.Range.forIn_eq_forIn_range']
    have := hst'.forIn_eq (List.range' 0 [0:2 * (3 * e.numFaces) + 4].size) (by rw [range_size_length]; omega)
    rw [← this]
    simp [gMap, ext_of_ne φ (h.ne_inv start hstart)]

/-- the walk around the vertex of entry `p` stops within the fuel of `d` -/
def GatherStops (d : MeshData) (nc : Nat) (data : Array Int) (p : Nat) : Prop :=
  ∃ r, StopsIn (gStep (fun c => parallelogramPredictionE d p c data nc) d.t d.d2c[p]! Generated.kMaxNumParallelograms.toNat)
    (2 * (3 * d.t.numFaces) + 4) (d.d2c[p]!, #[], true, false) r

/-- the body of the encoder's loop is the same on both sides when the walk on `d` stops within the fuel of `d` -/
theorem encBody_iso {d e : MeshData} {φ ψ : Nat → Nat} (h : MDIso d e φ ψ) (wt : WrapT) (nc : Nat)
    (crease : Array (Array Bool)) (data : Array Int) (p : Nat) (hp : p < d.d2c.size)
    (hstops : GatherStops d nc data p) (s : CMEncSt) :
    encBody e wt nc crease data p s = encBody d wt nc crease data p s := by
  obtain ⟨hlt, he⟩ := h.d2c_get p hp
  obtain ⟨r, hr⟩ := hstops
  obtain ⟨h1, h2⟩ := gather_iso_of_stops h.view (fun c => parallelogramPredictionE d p c data nc)
    (fun c => parallelogramPredictionE e p c data nc) (fun c hc => parallelogramPredictionE_iso h p c data nc hc)
    d.d2c[p]! hlt r hr
  unfold encBody
  rw [he, h1, h2]
  cases r with
  | error err => rfl
  | ok g => rfl

/-- a yielding step of the gather loop keeps the `fin` flag -/
theorem gStep_yield_fin (pred : Nat → R (Option (Array Int))) (t : TView) (start kMax : Nat) (s s' : CMGatherSt)
    (hstep : gStep pred t start kMax s = .ok (.yield s')) : s'.2.2.2 = s.2.2.2 := by
  obtain ⟨c, preds, fp, fin⟩ := s
  unfold gStep at hstep
  by_cases hc : (c == inv) = true
  · simp only [hc, if_true] at hstep
    cases hstep
  · simp only [hc, Bool.false_eq_true, if_false] at hstep
    cases hL : t.swingLeft c <;> cases hR : t.swingRight c <;> cases hS : t.swingRight start <;>
      rw [hL, hR, hS] at hstep <;>
      (cases hp : pred c with
      | error err => rw [hp] at hstep; cases hstep
      | ok l =>
        rw [hp] at hstep
        cases l with
        | none =>
          simp only [ok_bind] at hstep
          split_ifs at hstep <;> cases hstep <;> rfl
        | some pv =>
          simp only [ok_bind] at hstep
          split_ifs at hstep <;> cases hstep <;> rfl)

/-- a successful run of the loop body on `d` made a walk that stopped -/
theorem gatherStops_of_ok (d : MeshData) (wt : WrapT) (nc : Nat) (crease : Array (Array Bool)) (data : Array Int)
    (p : Nat) (s : CMEncSt) (r : ForInStep CMEncSt) (hok : encBody d wt nc crease data p s = .ok r) :
    GatherStops d nc data p := by
  unfold encBody at hok
  rw [bind_ok_iff] at hok
  obtain ⟨g, hg, hpost⟩ := hok
  refine ⟨.ok g, ?_⟩
  unfold gather at hg
  simp only [Std.Legacy.Range.forIn_eq_forIn_range'] at hg
  have := StopsIn.of_forIn (gStep (fun c => parallelogramPredictionE d p c data nc) d.t d.d2c[p]!
    Generated.kMaxNumParallelograms.toNat) (fun s => s.2.2.2 = true)
    (fun s s' hs hstep => by rw [gStep_yield_fin _ _ _ _ s s' hstep]; exact hs) _ _ _ (by simp) hg
    (fun g' hg' => by
      cases hg'
      by_cases hfin : g.2.2.2 = true
      · exact hfin
      · unfold encPost at hpost
        simp [hfin] at hpost
        cases hpost)
  rw [range_size_length] at this
  exact this

theorem mem_range_size {k n : Nat} (hk : k ∈ List.range' 0 [0:n].size) : k < n := by
  have := List.mem_range'.mp hk
  simp [Std.Legacy.Range.size] at this
  omega

/-- the constrained multi-parallelogram encoder writes the same corrections and crease flags on both sides, when the
    walks on `d` stop within the fuel of `d` -/
theorem constrainedMultiEncode_iso_of_stops {d e : MeshData} {φ ψ : Nat → Nat} (h : MDIso d e φ ψ) (wt : WrapT)
    (nc : Nat) (crease : Array (Array Bool)) (data : Array Int)
    (hstops : ∀ p, p < d.d2c.size → GatherStops d nc data p) :
    constrainedMultiEncode e wt nc crease data = constrainedMultiEncode d wt nc crease data := by
  rw [constrainedMultiEncode_eq, constrainedMultiEncode_eq, h.d2c_size]
  simp only [Std.Legacy.Range.forIn_eq_forIn_range']
  apply bind_left_congr
  apply forIn_list_congr
  intro k hk s
  have hk' := mem_range_size hk
  exact encBody_iso h wt nc crease data _ (by omega) (hstops _ (by omega)) s

/-- **constrained multi-parallelogram, no extra hypothesis**: a successful run on the decoder's mesh data is
    reproduced on the encoder's -/
theorem constrainedMultiEncode_iso_of_ok {d e : MeshData} {φ ψ : Nat → Nat} (h : MDIso d e φ ψ) (wt : WrapT)
    (nc : Nat) (crease : Array (Array Bool)) (data : Array Int) (r : Array Int × Array (Array Bool))
    (hd : constrainedMultiEncode d wt nc crease data = .ok r) :
    constrainedMultiEncode e wt nc crease data = .ok r := by
  rw [constrainedMultiEncode_eq] at hd ⊢
  rw [h.d2c_size]
  simp only [Std.Legacy.Range.forIn_eq_forIn_range'] at hd ⊢
  rw [bind_ok_iff] at hd
  obtain ⟨st, hloop, hrest⟩ := hd
  rw [forIn_mono _ _ _ (fun k hk s r hr => by
    have hk' := mem_range_size hk
    rw [encBody_iso h wt nc crease data _ (by omega) (gatherStops_of_ok d wt nc crease data _ s r hr) s]
    exact hr) _ _ hloop]
  exact hrest

/-! ### (3d) the geometric normal encoder -/

/-- position of the entry of the vertex of a corner (`posOfCorner` inside `normalPredict`) -/
def posOfCorner (md : MeshData) (ps : PosSource) (c : Nat) : R (Int × Int × Int) := do
  let v ← md.t.vertex c
  let d ← rd "vertex_to_data_map()->at" md.v2d v
  ps.get d

abbrev NPSt := Nat × Nat × Nat × Nat × Bool × Bool

/-- the accumulated cross products after one more triangle -/
def npAcc (x x1 x2 : Int × Int × Int) (s : NPSt) : Nat × Nat × Nat :=
  ((s.1 + u64 ((x1.2.1 - x.2.1) * (x2.2.2 - x.2.2) - (x1.2.2 - x.2.2) * (x2.2.1 - x.2.1))) % 2 ^ 64,
   (s.2.1 + u64 ((x1.2.2 - x.2.2) * (x2.1 - x.1) - (x1.1 - x.1) * (x2.2.2 - x.2.2))) % 2 ^ 64,
   (s.2.2.1 + u64 ((x1.1 - x.1) * (x2.2.1 - x.2.1) - (x1.2.1 - x.2.1) * (x2.1 - x.1))) % 2 ^ 64)

/-- one iteration of the loop over the corners of a vertex of `normalPredict` -/
def npStep (md : MeshData) (ps : PosSource) (corner : Nat) (ot : Bool) (x : Int × Int × Int) (s : NPSt) :
    R (ForInStep NPSt) :=
  if (s.2.2.2.1 == inv) = true then
    pure (ForInStep.done (s.1, s.2.1, s.2.2.1, s.2.2.2.1, s.2.2.2.2.1, true))
  else do
    let x1 ← posOfCorner md ps (Eb.nextC (if ot = true then corner else s.2.2.2.1))
    let x2 ← posOfCorner md ps (Eb.prevC (if ot = true then corner else s.2.2.2.1))
    if s.2.2.2.2.1 = true then do
      let c ← md.t.swingLeft s.2.2.2.1
      if (c == inv) = true then do
        let c ← md.t.swingRight corner
        pure (ForInStep.yield ((npAcc x x1 x2 s).1, (npAcc x x1 x2 s).2.1, (npAcc x x1 x2 s).2.2, c, false, s.2.2.2.2.2))
      else if (c == corner) = true then
        pure (ForInStep.yield ((npAcc x x1 x2 s).1, (npAcc x x1 x2 s).2.1, (npAcc x x1 x2 s).2.2, inv, s.2.2.2.2.1, s.2.2.2.2.2))
      else
        pure (ForInStep.yield ((npAcc x x1 x2 s).1, (npAcc x x1 x2 s).2.1, (npAcc x x1 x2 s).2.2, c, s.2.2.2.2.1, s.2.2.2.2.2))
    else do
      let c ← md.t.swingRight s.2.2.2.1
      pure (ForInStep.yield ((npAcc x x1 x2 s).1, (npAcc x x1 x2 s).2.1, (npAcc x x1 x2 s).2.2, c, s.2.2.2.2.1, s.2.2.2.2.2))

/-- the walk of `normalPredict` -/
def npWalk (md : MeshData) (ps : PosSource) (corner : Nat) (ot : Bool) (x : Int × Int × Int) : R NPSt :=
  forIn [0:6 * md.t.numFaces + 4] ((0, 0, 0, corner, true, false) : NPSt) fun _ s => npStep md ps corner ot x s

/-- the part of `normalPredict` after the walk -/
def npFinish (oneTriangle : Bool) (s : NPSt) : R (Int × Int × Int) := do
  if !s.2.2.2.2.2 then throw (.fuel "geometric normal: corners of a vertex")
  let x := s64 s.1
  let y := s64 s.2.1
  let z := s64 s.2.2.1
  if x == -(2 ^ 63) || y == -(2 ^ 63) || z == -(2 ^ 63) then throw (.ub "std::abs(INT64_MIN)")
  let absSum := if oneTriangle then wrap32 (absSum3 x y z) else absSum3 x y z
  let upper : Int := 2 ^ 29
  let (x, y, z) :=
    if absSum > upper then
      let q := absSum / upper
      (Int.tdiv x q, Int.tdiv y q, Int.tdiv z q)
    else (x, y, z)
  pure (wrap32 x, wrap32 y, wrap32 z)

/-- `normalPredict` = position of the corner, the walk, and a part that does not touch the mesh data -/
theorem normalPredict_eq (md : MeshData) (ps : PosSource) (corner : Nat) (ot : Bool) :
    normalPredict md ps corner ot = (do
      let x ← posOfCorner md ps corner
      let s ← npWalk md ps corner ot x
      npFinish ot s) := by
  rfl

theorem npFinish_ok (ot : Bool) (s : NPSt) (r : Int × Int × Int) (h : npFinish ot s = .ok r) :
    s.2.2.2.2.2 = true := by
  cases hb : s.2.2.2.2.2 with
  | true => rfl
  | false =>
    unfold npFinish at h
    simp [hb] at h
    cases h

theorem posOfCorner_iso {d e : MeshData} {φ ψ : Nat → Nat} (h : MDIso d e φ ψ) (ps : PosSource) (c : Nat)
    (hc : c < 3 * d.t.numFaces) : posOfCorner e ps (φ c) = posOfCorner d ps c := by
  obtain ⟨v, x, h1, h2, h3, h4⟩ := h.vertexData c hc
  unfold posOfCorner
  rw [h1, h2]
  simp only [ok_bind]
  rw [h3, h4]

/-- the image of a state of the walk of `normalPredict` -/
def npMap (φ : Nat → Nat) (s : NPSt) : NPSt := (s.1, s.2.1, s.2.2.1, ext φ s.2.2.2.1, s.2.2.2.2.1, s.2.2.2.2.2)

theorem npStep_iso {d e : MeshData} {φ ψ : Nat → Nat} (h : MDIso d e φ ψ) (ps : PosSource) (corner : Nat) (ot : Bool)
    (x : Int × Int × Int) (hcorner : corner < 3 * d.t.numFaces)
    (s : NPSt) (hs : s.2.2.2.1 = inv ∨ s.2.2.2.1 < 3 * d.t.numFaces) :
    npStep e ps (φ corner) ot x (npMap φ s) = (npStep d ps corner ot x s).map (stepMap (npMap φ)) := by
  obtain ⟨n0, n1, n2, c, left, fin⟩ := s
  simp only at hs
  unfold npStep npMap
  simp only [ext_beq_inv h.view c hs]
  by_cases hc : (c == inv) = true
  · simp only [hc, if_true]; rfl
  · simp only [hc, Bool.false_eq_true, if_false]
    have hlt : c < 3 * d.t.numFaces := by
      rcases hs with hs | hs
      · simp [hs] at hc
      · exact hs
    have hcφ : ext φ c = φ c := ext_of_ne φ (h.view.ne_inv c hlt)
    have hsel : (if ot = true then φ corner else φ c) = φ (if ot = true then corner else c) := by
      cases ot <;> rfl
    have hsel_lt : (if ot = true then corner else c) < 3 * d.t.numFaces := by
      cases ot
      · exact hlt
      · exact hcorner
    rw [hcφ, hsel, ← h.view.phi_next _ hsel_lt, ← h.view.phi_prev _ hsel_lt,
      posOfCorner_iso h ps _ (TVIso.nextC_lt hsel_lt), posOfCorner_iso h ps _ (TVIso.prevC_lt hsel_lt h.view.fits.1)]
    obtain ⟨oL, hdL, hoL, heL⟩ := h.view.swingLeft_ok c hlt
    obtain ⟨oR, hdR, hoR, heR⟩ := h.view.swingRight_ok c hlt
    obtain ⟨oS, hdS, hoS, heS⟩ := h.view.swingRight_ok corner hcorner
    rw [hdL, heL, hdR, heR, hdS, heS]
    simp only [ok_bind, ext_beq_phi h.view _ _ hoL hcorner, ext_beq_inv h.view _ hoL]
    cases posOfCorner d ps (Eb.nextC (if ot = true then corner else c)) with
    | error err => rfl
    | ok x1 =>
      cases posOfCorner d ps (Eb.prevC (if ot = true then corner else c)) with
      | error err => rfl
      | ok x2 =>
        simp only [ok_bind]
        split_ifs <;> rfl

theorem npStep_inv {d e : MeshData} {φ ψ : Nat → Nat} (h : MDIso d e φ ψ) (ps : PosSource) (corner : Nat) (ot : Bool)
    (x : Int × Int × Int) (hcorner : corner < 3 * d.t.numFaces)
    (s s' : NPSt) (hs : s.2.2.2.1 = inv ∨ s.2.2.2.1 < 3 * d.t.numFaces)
    (hstep : npStep d ps corner ot x s = .ok (.yield s') ∨ npStep d ps corner ot x s = .ok (.done s')) :
    s'.2.2.2.1 = inv ∨ s'.2.2.2.1 < 3 * d.t.numFaces := by
  obtain ⟨n0, n1, n2, c, left, fin⟩ := s
  simp only at hs
  unfold npStep at hstep
  by_cases hc : (c == inv) = true
  · simp only [hc, if_true] at hstep
    rcases hstep with hstep | hstep <;> cases hstep
    exact hs
  · simp only [hc, Bool.false_eq_true, if_false] at hstep
    have hlt : c < 3 * d.t.numFaces := by
      rcases hs with hs | hs
      · simp [hs] at hc
      · exact hs
    obtain ⟨oL, hdL, hoL, heL⟩ := h.view.swingLeft_ok c hlt
    obtain ⟨oR, hdR, hoR, heR⟩ := h.view.swingRight_ok c hlt
    obtain ⟨oS, hdS, hoS, heS⟩ := h.view.swingRight_ok corner hcorner
    rw [hdL, hdR, hdS] at hstep
    cases h1 : posOfCorner d ps (Eb.nextC (if ot = true then corner else c)) with
    | error err => rw [h1] at hstep; rcases hstep with hstep | hstep <;> cases hstep
    | ok x1 =>
      rw [h1] at hstep
      cases h2 : posOfCorner d ps (Eb.prevC (if ot = true then corner else c)) with
      | error err => rw [h2] at hstep; rcases hstep with hstep | hstep <;> cases hstep
      | ok x2 =>
        rw [h2] at hstep
        simp only [ok_bind] at hstep
        split_ifs at hstep <;> rcases hstep with hstep | hstep <;> cases hstep <;>
          first | exact hs | exact hoL | exact hoR | exact hoS | exact Or.inl rfl

/-- the walk of `normalPredict` around the vertex of `corner` stops within the fuel of `d` -/
def NPStops (d : MeshData) (ps : PosSource) (corner : Nat) (ot : Bool) : Prop :=
  ∀ x, posOfCorner d ps corner = .ok x →
    ∃ r, StopsIn (npStep d ps corner ot x) (6 * d.t.numFaces + 4) ((0, 0, 0, corner, true, false) : NPSt) r

/-- the normal predictor is the same on both sides when the walk on `d` stops within the fuel of `d` -/
theorem normalPredict_iso_of_stops {d e : MeshData} {φ ψ : Nat → Nat} (h : MDIso d e φ ψ) (ps : PosSource)
    (corner : Nat) (ot : Bool) (hcorner : corner < 3 * d.t.numFaces) (hst : NPStops d ps corner ot) :
    normalPredict e ps (φ corner) ot = normalPredict d ps corner ot := by
  rw [normalPredict_eq, normalPredict_eq, posOfCorner_iso h ps corner hcorner]
  cases hx : posOfCorner d ps corner with
  | error err => rfl
  | ok x =>
    simp only [ok_bind]
    obtain ⟨r, hr⟩ := hst x hx
    have hle := h.view.numFaces_le
    have h1 : npWalk d ps corner ot x = r := by
      unfold npWalk
      simp only [Std.Legacy.Range.forIn_eq_forIn_range']
      exact hr.forIn_eq _ (Nat.le_of_eq (range_size_length _).symm)
    have h2 : npWalk e ps (φ corner) ot x = r.map (npMap φ) := by
      have hr' := StopsIn.map (g := npStep e ps (φ corner) ot x) (npMap φ)
        (fun s => s.2.2.2.1 = inv ∨ s.2.2.2.1 < 3 * d.t.numFaces)
        (fun s hs => npStep_iso h ps corner ot x hcorner s hs)
        (fun s s' hs hstep => npStep_inv h ps corner ot x hcorner s s' hs hstep) hr (Or.inr hcorner)
      unfold npWalk
      simp only [Std.Legacy.Range.forIn_eq_forIn_range']
      have := hr'.forIn_eq (List.range' 0 [0:6 * e.t.numFaces + 4].size) (by rw [range_size_length]; omega)
      rw [← this]
      simp [npMap, ext_of_ne φ (h.view.ne_inv corner hcorner)]
    rw [h1, h2]
    cases r with
    | error err => rfl
    | ok s => rfl

/-- a yielding step of the walk keeps the `fin` flag -/
theorem npStep_yield_fin (md : MeshData) (ps : PosSource) (corner : Nat) (ot : Bool) (x : Int × Int × Int)
    (s s' : NPSt) (hstep : npStep md ps corner ot x s = .ok (.yield s')) : s'.2.2.2.2.2 = s.2.2.2.2.2 := by
  obtain ⟨n0, n1, n2, c, left, fin⟩ := s
  unfold npStep at hstep
  by_cases hc : (c == inv) = true
  · simp only [hc, if_true] at hstep
    cases hstep
  · simp only [hc, Bool.false_eq_true, if_false] at hstep
    cases hL : md.t.swingLeft c <;> cases hR : md.t.swingRight c <;> cases hS : md.t.swingRight corner <;>
      rw [hL, hR, hS] at hstep <;>
      (cases h1 : posOfCorner md ps (Eb.nextC (if ot = true then corner else c)) with
      | error err => rw [h1] at hstep; cases hstep
      | ok x1 =>
        rw [h1] at hstep
        cases h2 : posOfCorner md ps (Eb.prevC (if ot = true then corner else c)) with
        | error err => rw [h2] at hstep; cases hstep
        | ok x2 =>
          rw [h2] at hstep
          simp only [ok_bind] at hstep
          split_ifs at hstep <;> cases hstep <;> rfl)

/-- a successful call of the normal predictor on `d` made a walk that stopped -/
theorem npStops_of_ok (d : MeshData) (ps : PosSource) (corner : Nat) (ot : Bool) (r : Int × Int × Int)
    (hok : normalPredict d ps corner ot = .ok r) : NPStops d ps corner ot := by
  rw [normalPredict_eq, bind_ok_iff] at hok
  obtain ⟨x0, hx0, hok⟩ := hok
  rw [bind_ok_iff] at hok
  obtain ⟨s, hs, hfin⟩ := hok
  intro x hx
  rw [hx0] at hx
  cases hx
  refine ⟨.ok s, ?_⟩
  unfold npWalk at hs
  simp only [Std.Legacy.Range.forIn_eq_forIn_range'] at hs
  have := StopsIn.of_forIn (npStep d ps corner ot x0) (fun s => s.2.2.2.2.2 = true)
    (fun s s' hs hstep => by rw [npStep_yield_fin _ _ _ _ _ s s' hstep]; exact hs) _ _ _ (by simp) hs
    (fun g' hg' => by cases hg'; exact npFinish_ok ot s r hfin)
  rw [range_size_length] at this
  exact this

/-- the geometric normal encoder writes the same corrections and flip bits on both sides, when the walks on `d`
    stop within the fuel of `d` -/
theorem geometricNormalEncode_iso_of_stops {d e : MeshData} {φ ψ : Nat → Nat} (h : MDIso d e φ ψ) (ps : PosSource)
    (ot : OctaT) (data : Array Int) (hst : ∀ p, p < d.d2c.size → NPStops d ps d.d2c[p]! false) :
    geometricNormalEncode e ps ot data = geometricNormalEncode d ps ot data := by
  unfold geometricNormalEncode
  simp only [Std.Legacy.Range.forIn_eq_forIn_range']
  rw [h.d2c_size]
  apply bind_left_congr
  apply forIn_list_congr
  intro k hk s
  have hk' := mem_range_size hk
  obtain ⟨hlt, he⟩ := h.d2c_get k hk'
  rw [he, normalPredict_iso_of_stops h ps _ false hlt (hst k hk')]

/-- **geometric normal, no extra hypothesis**: a successful run on the decoder's mesh data is reproduced on the
    encoder's -/
theorem geometricNormalEncode_iso_of_ok {d e : MeshData} {φ ψ : Nat → Nat} (h : MDIso d e φ ψ) (ps : PosSource)
    (ot : OctaT) (data : Array Int) (r : Array Int × Array Bool)
    (hd : geometricNormalEncode d ps ot data = .ok r) : geometricNormalEncode e ps ot data = .ok r := by
  unfold geometricNormalEncode at hd ⊢
  simp only [Std.Legacy.Range.forIn_eq_forIn_range'] at hd ⊢
  rw [h.d2c_size]
  rw [bind_ok_iff] at hd
  obtain ⟨st, hloop, hrest⟩ := hd
  rw [forIn_mono _ _ _ (fun k hk s r hr => by
    have hk' := mem_range_size hk
    obtain ⟨hlt, he⟩ := h.d2c_get k hk'
    have hr0 := hr
    rw [bind_ok_iff] at hr0
    obtain ⟨pred, hpred, _⟩ := hr0
    rw [he, normalPredict_iso_of_stops h ps _ false hlt (npStops_of_ok d ps _ false pred hpred)]
    exact hr) _ _ hloop]
  exact hrest

/-! ### (4) the value block -/

/-- the value block is the same on both sides, when the walks on `d` stop within the fuel of `d` -/
theorem encodeSchemeBlock_iso_of_stops {d e : MeshData} {φ ψ : Nat → Nat} (h : MDIso d e φ ψ) (ch : EbChoices)
    (o : SeqEnc.EncOpts) (attId kind nc : Nat) (s : PScheme) (pos : PosSource) (portable : Array Int)
    (hcm : s = .constrainedMulti → ∀ p, p < d.d2c.size → GatherStops d nc portable p)
    (hnp : s = .geometricNormal → ∀ p, p < d.d2c.size → NPStops d pos d.d2c[p]! false) :
    encodeSchemeBlock ch o attId kind nc s e pos portable = encodeSchemeBlock ch o attId kind nc s d pos portable := by
  unfold encodeSchemeBlock
  cases s with
  | none => rfl
  | geometricNormalWrap => rfl
  | delta => simp only [show (PScheme.delta == PScheme.delta) = true from rfl, if_true]
  | geometricNormal =>
    simp only [show (PScheme.geometricNormal == PScheme.delta) = false from rfl,
      geometricNormalEncode_iso_of_stops h _ _ _ (hnp rfl)]
  | parallelogram => simp only [parallelogramEncode_iso h]
  | constrainedMulti => simp only [constrainedMultiEncode_iso_of_stops h _ _ _ _ (hcm rfl)]
  | texCoords => simp only [texCoordsEncode_iso h]

/-- **the value block, no extra hypothesis**: a successful run of the encoder on the decoder's mesh data is
    reproduced on the encoder's mesh data (hence: two successful runs write the same block) -/
theorem encodeSchemeBlock_iso_of_ok {d e : MeshData} {φ ψ : Nat → Nat} (h : MDIso d e φ ψ) (ch : EbChoices)
    (o : SeqEnc.EncOpts) (attId kind nc : Nat) (s : PScheme) (pos : PosSource) (portable : Array Int) (bs : Bytes)
    (hd : encodeSchemeBlock ch o attId kind nc s d pos portable = .ok bs) :
    encodeSchemeBlock ch o attId kind nc s e pos portable = .ok bs := by
  by_cases hs : s = .constrainedMulti ∨ s = .geometricNormal
  · rcases hs with rfl | rfl
    · unfold encodeSchemeBlock at hd ⊢
      simp only [] at hd ⊢
      cases hw : wrapInitOf portable with
      | none => simp only [hw] at hd; cases hd
      | some wt =>
        simp only [hw] at hd ⊢
        rw [bind_ok_iff] at hd
        obtain ⟨r, hr, hrest⟩ := hd
        rw [constrainedMultiEncode_iso_of_ok h _ _ _ _ r hr]
        exact hrest
    · unfold encodeSchemeBlock at hd ⊢
      simp only [show (PScheme.geometricNormal == PScheme.delta) = false from rfl, Bool.false_eq_true, if_false]
        at hd ⊢
      by_cases hk : (kind == 3) = true
      · simp only [hk, if_true] at hd ⊢
        cases hq : Octa.setMaxQuantizedValue (2 ^ (o.att attId).quantBits.toNat - 1) with
        | none => simp only [hq] at hd; cases hd
        | some ot =>
          simp only [hq] at hd ⊢
          rw [bind_ok_iff] at hd
          obtain ⟨r, hr, hrest⟩ := hd
          rw [geometricNormalEncode_iso_of_ok h _ _ _ r hr]
          exact hrest
      · simp only [hk] at hd ⊢
        exact hd
  · rw [encodeSchemeBlock_iso_of_stops h ch o attId kind nc s pos portable (fun hh => absurd (Or.inl hh) hs)
      (fun hh => absurd (Or.inr hh) hs)]
    exact hd

/-- two successful runs write the same block -/
theorem encodeSchemeBlock_iso_ok_ok {d e : MeshData} {φ ψ : Nat → Nat} (h : MDIso d e φ ψ) (ch : EbChoices)
    (o : SeqEnc.EncOpts) (attId kind nc : Nat) (s : PScheme) (pos : PosSource) (portable : Array Int) (bs bs' : Bytes)
    (he : encodeSchemeBlock ch o attId kind nc s e pos portable = .ok bs)
    (hd : encodeSchemeBlock ch o attId kind nc s d pos portable = .ok bs') : bs = bs' := by
  rw [encodeSchemeBlock_iso_of_ok h ch o attId kind nc s pos portable bs' hd] at he
  cases he
  rfl

/-! ### termination of the walks within the fuel of `d`, for an involutive `Opposite`

  With mutually inverse partial injections `L` (`SwingLeft`) and `R` (`SwingRight`) on the `N` corners, a walk that
  swings left from `a` until it falls off the boundary, then swings right from `a`, makes fewer than `2 N + 2`
  steps (pigeonhole: `PInj.orbit` of DracoProofs/CornerTableOrbit.lean). -/

theorem walk_contra {N : Nat} {L R : Nat → Option Nat} (hp : PInj N L R) {a : Nat} (ha : a < N)
    (c : Nat → Nat) (fp : Nat → Bool) (n : Nat) (hn : 2 * N + 2 ≤ n) (h0 : c 0 = a) (hfp0 : fp 0 = true)
    (hL : ∀ i, i + 1 < n → fp i = true →
      (L (c i) = none ∧ fp (i + 1) = false ∧ R a = some (c (i + 1))) ∨
      (L (c i) = some (c (i + 1)) ∧ c (i + 1) ≠ a ∧ fp (i + 1) = true))
    (hR : ∀ i, i + 1 < n → fp i = false → fp (i + 1) = false ∧ R (c i) = some (c (i + 1))) : False := by
  -- the left pass
  have P1 : ∀ i, i < n → fp i = true → iter (lift L) i (some a) = some (c i) ∧ (1 ≤ i → c i ≠ a) := by
    intro i
    induction i with
    | zero => intro _ _; exact ⟨by simp [iter, h0], fun h => absurd h (by omega)⟩
    | succ i ih =>
      intro hi hfp
      have hfpi : fp i = true := by
        cases hb : fp i with
        | true => rfl
        | false => have := (hR i hi hb).1; rw [hfp] at this; cases this
      obtain ⟨h1, _⟩ := ih (by omega) hfpi
      rcases hL i hi hfpi with ⟨_, h2, _⟩ | ⟨h2, h3, _⟩
      · rw [hfp] at h2; cases h2
      · exact ⟨by rw [iter_succ', h1, lift_some, h2], fun _ => h3⟩
  obtain ⟨m, hm, hor⟩ := hp.orbit ha
  have hfpm : fp (m + 1) = false := by
    cases hb : fp (m + 1) with
    | false => rfl
    | true =>
      obtain ⟨h1, h2⟩ := P1 (m + 1) (by omega) hb
      rw [h1] at hor
      rcases hor with hor | hor
      · cases hor
      · injection hor with hor; exact absurd hor (h2 (by omega))
  -- the first step of the right pass
  have hex : ∃ k, fp k = false := ⟨m + 1, hfpm⟩
  have hk0le : Nat.find hex ≤ m + 1 := Nat.find_min' hex hfpm
  have hk0 : fp (Nat.find hex) = false := Nat.find_spec hex
  have hk0min : ∀ j, j < Nat.find hex → fp j = true := by
    intro j hj
    have := Nat.find_min hex hj
    simpa using this
  generalize Nat.find hex = k0 at hk0le hk0 hk0min
  have hk0pos : 0 < k0 := by
    rcases Nat.eq_zero_or_pos k0 with h | h
    · rw [h, hfp0] at hk0; cases hk0
    · exact h
  have hi0 : fp (k0 - 1) = true := hk0min _ (by omega)
  have hk0' : k0 - 1 + 1 = k0 := by omega
  have hLnone : iter (lift L) k0 (some a) = none ∧ R a = some (c k0) := by
    obtain ⟨h1, _⟩ := P1 (k0 - 1) (by omega) hi0
    rcases hL (k0 - 1) (by omega) hi0 with ⟨h2, _, h4⟩ | ⟨_, _, h4⟩
    · rw [hk0'] at h4
      refine ⟨?_, h4⟩
      rw [← hk0', iter_succ', h1, lift_some, h2]
    · rw [hk0', hk0] at h4; cases h4
  -- the right pass
  have P2 : ∀ j, k0 + j < n → fp (k0 + j) = false ∧ iter (lift R) (j + 1) (some a) = some (c (k0 + j)) := by
    intro j
    induction j with
    | zero => intro _; exact ⟨hk0, by simp [iter, hLnone.2]⟩
    | succ j ih =>
      intro hj
      obtain ⟨h1, h2⟩ := ih (by omega)
      obtain ⟨h3, h4⟩ := hR (k0 + j) (by omega) h1
      exact ⟨h3, by rw [iter_succ', h2, lift_some, h4]; rfl⟩
  obtain ⟨m', hm', hor'⟩ := hp.symm.orbit ha
  obtain ⟨_, h2⟩ := P2 m' (by omega)
  rw [h2] at hor'
  rcases hor' with hor' | hor'
  · cases hor'
  · -- the right pass returns to `a`: so does the left pass, which however fell off the boundary
    rw [← h2] at hor'
    have hcyc := hp.symm.iter_inv (m' + 1) a a hor'
    have hmul : ∀ t, iter (lift L) ((m' + 1) * t) (some a) = some a := by
      intro t
      induction t with
      | zero => rfl
      | succ t ih => rw [Nat.mul_succ, iter_add, ih, hcyc]
    have hge : (m' + 1) * k0 = k0 + ((m' + 1) * k0 - k0) := by
      have : k0 ≤ (m' + 1) * k0 := Nat.le_mul_of_pos_left k0 (by omega)
      omega
    have := hmul k0
    rw [hge, iter_add, hLnone.1, iter_lift_none] at this
    cases this

/-- `Opposite` of the view is an involution where it is defined (the two corners of an interior edge point to each
    other).  Decidable; holds for every valid corner table. -/
def OppInvol (t : TView) : Prop :=
  ∀ c o, c < 3 * t.numFaces → t.opposite c = .ok o → o ≠ inv → t.opposite o = .ok c

/-- `SwingLeft` as a partial map of the corners (`none`: the boundary) -/
def swL (t : TView) (c : Nat) : Option Nat :=
  if c < 3 * t.numFaces then
    match t.swingLeft c with
    | .ok o => if o = inv then none else some o
    | .error _ => none
  else none

/-- `SwingRight` as a partial map of the corners -/
def swR (t : TView) (c : Nat) : Option Nat :=
  if c < 3 * t.numFaces then
    match t.swingRight c with
    | .ok o => if o = inv then none else some o
    | .error _ => none
  else none

theorem swL_of_ok {t : TView} {c o : Nat} (hc : c < 3 * t.numFaces) (h : t.swingLeft c = .ok o) :
    swL t c = if o = inv then none else some o := by
  unfold swL; rw [if_pos hc, h]

theorem swR_of_ok {t : TView} {c o : Nat} (hc : c < 3 * t.numFaces) (h : t.swingRight c = .ok o) :
    swR t c = if o = inv then none else some o := by
  unfold swR; rw [if_pos hc, h]

theorem nextC_ne_inv {o : Nat} (h : Eb.nextC o ≠ inv) : o ≠ inv := by
  intro ho; subst ho; exact h (by simp [Eb.nextC])

theorem prevC_ne_inv {o : Nat} (h : Eb.prevC o ≠ inv) : o ≠ inv := by
  intro ho; subst ho; exact h (by simp [Eb.prevC])

/-- with an involutive `Opposite`, `SwingLeft` and `SwingRight` are mutually inverse partial injections -/
theorem tview_swing_pinj {d e : TView} {φ ψ : Nat → Nat} (h : TVIso d e φ ψ) (hinv : OppInvol d) :
    PInj (3 * d.numFaces) (swL d) (swR d) where
  fg := by
    intro a b hab
    unfold swL at hab
    by_cases ha : a < 3 * d.numFaces
    · rw [if_pos ha] at hab
      obtain ⟨o, h1, ho, _⟩ := h.opposite (Eb.nextC a) (TVIso.nextC_lt ha)
      have hsw : d.swingLeft a = .ok (Eb.nextC o) := by unfold TView.swingLeft; rw [h1]; rfl
      rw [hsw] at hab
      simp only at hab
      split at hab
      · cases hab
      · rename_i hne
        injection hab with hab
        subst hab
        have hone := nextC_ne_inv hne
        have holt : o < 3 * d.numFaces := by
          rcases ho with ho | ho
          · exact absurd ho hone
          · exact ho
        have hb : Eb.nextC o < 3 * d.numFaces := TVIso.nextC_lt holt
        refine ⟨?_, hb⟩
        have hopp := hinv _ o (TVIso.nextC_lt ha) h1 hone
        have hswr : d.swingRight (Eb.nextC o) = .ok a := by
          unfold TView.swingRight
          rw [Eb.prevC_nextC o (by have := h.fits.1; omega), hopp]
          show Except.ok (Eb.prevC (Eb.nextC a)) = _
          rw [Eb.prevC_nextC a (by have := h.fits.1; omega)]
        rw [swR_of_ok hb hswr, if_neg (h.ne_inv a ha)]
    · rw [if_neg ha] at hab; cases hab
  gf := by
    intro a b hab
    unfold swR at hab
    by_cases ha : a < 3 * d.numFaces
    · rw [if_pos ha] at hab
      obtain ⟨o, h1, ho, _⟩ := h.opposite (Eb.prevC a) (TVIso.prevC_lt ha h.fits.1)
      have hsw : d.swingRight a = .ok (Eb.prevC o) := by unfold TView.swingRight; rw [h1]; rfl
      rw [hsw] at hab
      simp only at hab
      split at hab
      · cases hab
      · rename_i hne
        injection hab with hab
        subst hab
        have hone := prevC_ne_inv hne
        have holt : o < 3 * d.numFaces := by
          rcases ho with ho | ho
          · exact absurd ho hone
          · exact ho
        have hb : Eb.prevC o < 3 * d.numFaces := TVIso.prevC_lt holt h.fits.1
        refine ⟨?_, hb⟩
        have hopp := hinv _ o (TVIso.prevC_lt ha h.fits.1) h1 hone
        have hswl : d.swingLeft (Eb.prevC o) = .ok a := by
          unfold TView.swingLeft
          rw [Eb.nextC_prevC o (by have := h.fits.1; omega), hopp]
          show Except.ok (Eb.nextC (Eb.prevC a)) = _
          rw [Eb.nextC_prevC a (by have := h.fits.1; omega)]
        rw [swL_of_ok hb hswl, if_neg (h.ne_inv a ha)]
    · rw [if_neg ha] at hab; cases hab

/-- what a yielding step of the gather loop does to the corner and the pass flag -/
theorem gStep_yield_walk {d e : TView} {φ ψ : Nat → Nat} (h : TVIso d e φ ψ) (pred : Nat → R (Option (Array Int)))
    (start kMax : Nat) (hstart : start < 3 * d.numFaces)
    (s s' : CMGatherSt) (hs : s.1 = inv ∨ s.1 < 3 * d.numFaces)
    (hstep : gStep pred d start kMax s = .ok (.yield s')) :
    s.1 < 3 * d.numFaces ∧ ∃ oL oR oS, d.swingLeft s.1 = .ok oL ∧ d.swingRight s.1 = .ok oR ∧
      d.swingRight start = .ok oS ∧
      (if s.2.2.1 = true then
        oL ≠ start ∧ (if oL = inv then s'.2.2.1 = false ∧ s'.1 = oS else s'.2.2.1 = true ∧ s'.1 = oL)
       else s'.2.2.1 = false ∧ s'.1 = oR) := by
  obtain ⟨c, preds, fp, fin⟩ := s
  simp only at hs
  unfold gStep at hstep
  by_cases hc : (c == inv) = true
  · simp only [hc, if_true] at hstep
    cases hstep
  · simp only [hc, Bool.false_eq_true, if_false] at hstep
    have hlt : c < 3 * d.numFaces := by
      rcases hs with hs | hs
      · simp [hs] at hc
      · exact hs
    obtain ⟨oL, hdL, hoL, heL⟩ := h.swingLeft_ok c hlt
    obtain ⟨oR, hdR, hoR, heR⟩ := h.swingRight_ok c hlt
    obtain ⟨oS, hdS, hoS, heS⟩ := h.swingRight_ok start hstart
    refine ⟨hlt, oL, oR, oS, hdL, hdR, hdS, ?_⟩
    rw [hdL, hdR, hdS] at hstep
    cases hp : pred c with
    | error err => rw [hp] at hstep; cases hstep
    | ok l =>
      rw [hp] at hstep
      cases l with
      | none =>
        simp only [ok_bind] at hstep
        split_ifs at hstep <;> cases hstep <;> simp_all
      | some pv =>
        simp only [ok_bind] at hstep
        split_ifs at hstep <;> cases hstep <;> simp_all

/-- with an involutive `Opposite` on `d`, the walk of the gather loop stops within the fuel of `d` -/
theorem gatherStops_of_invol {d e : MeshData} {φ ψ : Nat → Nat} (h : MDIso d e φ ψ) (hinv : OppInvol d.t)
    (nc : Nat) (data : Array Int) (p : Nat) (hp : p < d.d2c.size) : GatherStops d nc data p := by
  obtain ⟨hstart, _⟩ := h.d2c_get p hp
  unfold GatherStops
  apply Classical.byContradiction
  intro hcon
  obtain ⟨E, e0, e1⟩ := not_stops_trace _ _ _ (fun r hr => hcon ⟨r, hr⟩)
  have hInv : ∀ i, i ≤ 2 * (3 * d.t.numFaces) + 4 → ((E i).1 = inv ∨ (E i).1 < 3 * d.t.numFaces) := by
    intro i
    induction i with
    | zero => intro _; rw [e0]; exact Or.inr hstart
    | succ i ih =>
      intro hi
      exact gStep_inv h.view _ _ _ hstart (E i) (E (i + 1)) (ih (by omega)) (Or.inl (e1 i (by omega)))
  have hw := fun i (hi : i < 2 * (3 * d.t.numFaces) + 4) =>
    gStep_yield_walk h.view _ _ _ hstart (E i) (E (i + 1)) (hInv i (by omega)) (e1 i hi)
  refine walk_contra (tview_swing_pinj h.view hinv) hstart (fun i => (E i).1) (fun i => (E i).2.2.1)
    (2 * (3 * d.t.numFaces) + 4) (by omega) (by rw [e0]) (by rw [e0]) ?_ ?_
  · intro i hi hfp
    obtain ⟨hlt, oL, oR, oS, hdL, hdR, hdS, hif⟩ := hw i (by omega)
    have hnext := h.view.ne_inv _ (hw (i + 1) hi).1
    rw [if_pos hfp] at hif
    obtain ⟨hne, hif⟩ := hif
    by_cases hoL : oL = inv
    · rw [if_pos hoL] at hif
      left
      refine ⟨by rw [swL_of_ok hlt hdL, if_pos hoL], hif.1, ?_⟩
      rw [swR_of_ok hstart hdS, hif.2, if_neg (by rw [← hif.2]; exact hnext)]
    · rw [if_neg hoL] at hif
      right
      refine ⟨by rw [swL_of_ok hlt hdL, if_neg hoL, hif.2], by rw [hif.2]; exact hne, hif.1⟩
  · intro i hi hfp
    obtain ⟨hlt, oL, oR, oS, hdL, hdR, hdS, hif⟩ := hw i (by omega)
    have hnext := h.view.ne_inv _ (hw (i + 1) hi).1
    rw [if_neg (by rw [hfp]; simp)] at hif
    refine ⟨hif.1, ?_⟩
    rw [swR_of_ok hlt hdR, hif.2, if_neg (by rw [← hif.2]; exact hnext)]

/-- **constrained multi-parallelogram**: the same corrections and crease flags on both sides, for an involutive
    `Opposite` of the decoder's view -/
theorem constrainedMultiEncode_iso {d e : MeshData} {φ ψ : Nat → Nat} (h : MDIso d e φ ψ) (hinv : OppInvol d.t)
    (wt : WrapT) (nc : Nat) (crease : Array (Array Bool)) (data : Array Int) :
    constrainedMultiEncode e wt nc crease data = constrainedMultiEncode d wt nc crease data :=
  constrainedMultiEncode_iso_of_stops h wt nc crease data (fun p hp => gatherStops_of_invol h hinv nc data p hp)

/-- what a yielding step of the walk of `normalPredict` does to the corner and the pass flag -/
theorem npStep_yield_walk {d e : MeshData} {φ ψ : Nat → Nat} (h : MDIso d e φ ψ) (ps : PosSource) (corner : Nat)
    (ot : Bool) (x : Int × Int × Int) (hcorner : corner < 3 * d.t.numFaces)
    (s s' : NPSt) (hs : s.2.2.2.1 = inv ∨ s.2.2.2.1 < 3 * d.t.numFaces)
    (hstep : npStep d ps corner ot x s = .ok (.yield s')) :
    s.2.2.2.1 < 3 * d.t.numFaces ∧ ∃ oL oR oS, d.t.swingLeft s.2.2.2.1 = .ok oL ∧ d.t.swingRight s.2.2.2.1 = .ok oR ∧
      d.t.swingRight corner = .ok oS ∧
      (if s.2.2.2.2.1 = true then
        (if oL = inv then s'.2.2.2.2.1 = false ∧ s'.2.2.2.1 = oS
         else if oL = corner then s'.2.2.2.1 = inv else s'.2.2.2.2.1 = true ∧ s'.2.2.2.1 = oL)
       else s'.2.2.2.2.1 = false ∧ s'.2.2.2.1 = oR) := by
  obtain ⟨n0, n1, n2, c, left, fin⟩ := s
  simp only at hs
  unfold npStep at hstep
  by_cases hc : (c == inv) = true
  · simp only [hc, if_true] at hstep
    cases hstep
  · simp only [hc, Bool.false_eq_true, if_false] at hstep
    have hlt : c < 3 * d.t.numFaces := by
      rcases hs with hs | hs
      · simp [hs] at hc
      · exact hs
    obtain ⟨oL, hdL, hoL, heL⟩ := h.view.swingLeft_ok c hlt
    obtain ⟨oR, hdR, hoR, heR⟩ := h.view.swingRight_ok c hlt
    obtain ⟨oS, hdS, hoS, heS⟩ := h.view.swingRight_ok corner hcorner
    refine ⟨hlt, oL, oR, oS, hdL, hdR, hdS, ?_⟩
    rw [hdL, hdR, hdS] at hstep
    cases h1 : posOfCorner d ps (Eb.nextC (if ot = true then corner else c)) with
    | error err => rw [h1] at hstep; cases hstep
    | ok x1 =>
      rw [h1] at hstep
      cases h2 : posOfCorner d ps (Eb.prevC (if ot = true then corner else c)) with
      | error err => rw [h2] at hstep; cases hstep
      | ok x2 =>
        rw [h2] at hstep
        simp only [ok_bind] at hstep
        split_ifs at hstep <;> cases hstep <;> simp_all

/-- with an involutive `Opposite` on `d`, the walk of `normalPredict` stops within the fuel of `d` -/
theorem npStops_of_invol {d e : MeshData} {φ ψ : Nat → Nat} (h : MDIso d e φ ψ) (hinv : OppInvol d.t)
    (ps : PosSource) (corner : Nat) (ot : Bool) (hcorner : corner < 3 * d.t.numFaces) : NPStops d ps corner ot := by
  intro x _
  apply Classical.byContradiction
  intro hcon
  obtain ⟨E, e0, e1⟩ := not_stops_trace _ _ _ (fun r hr => hcon ⟨r, hr⟩)
  have hInv : ∀ i, i ≤ 6 * d.t.numFaces + 4 → ((E i).2.2.2.1 = inv ∨ (E i).2.2.2.1 < 3 * d.t.numFaces) := by
    intro i
    induction i with
    | zero => intro _; rw [e0]; exact Or.inr hcorner
    | succ i ih =>
      intro hi
      exact npStep_inv h ps corner ot x hcorner (E i) (E (i + 1)) (ih (by omega)) (Or.inl (e1 i (by omega)))
  have hw := fun i (hi : i < 6 * d.t.numFaces + 4) =>
    npStep_yield_walk h ps corner ot x hcorner (E i) (E (i + 1)) (hInv i (by omega)) (e1 i hi)
  refine walk_contra (tview_swing_pinj h.view hinv) hcorner (fun i => (E i).2.2.2.1) (fun i => (E i).2.2.2.2.1)
    (6 * d.t.numFaces + 4) (by omega) (by rw [e0]) (by rw [e0]) ?_ ?_
  · intro i hi hfp
    obtain ⟨hlt, oL, oR, oS, hdL, hdR, hdS, hif⟩ := hw i (by omega)
    have hnext := h.view.ne_inv _ (hw (i + 1) hi).1
    rw [if_pos hfp] at hif
    by_cases hoL : oL = inv
    · rw [if_pos hoL] at hif
      left
      refine ⟨by rw [swL_of_ok hlt hdL, if_pos hoL], hif.1, ?_⟩
      rw [swR_of_ok hcorner hdS, hif.2, if_neg (by rw [← hif.2]; exact hnext)]
    · rw [if_neg hoL] at hif
      by_cases hoc : oL = corner
      · rw [if_pos hoc] at hif
        exact absurd hif hnext
      · rw [if_neg hoc] at hif
        right
        refine ⟨by rw [swL_of_ok hlt hdL, if_neg hoL, hif.2], by rw [hif.2]; exact hoc, hif.1⟩
  · intro i hi hfp
    obtain ⟨hlt, oL, oR, oS, hdL, hdR, hdS, hif⟩ := hw i (by omega)
    have hnext := h.view.ne_inv _ (hw (i + 1) hi).1
    rw [if_neg (by rw [hfp]; simp)] at hif
    refine ⟨hif.1, ?_⟩
    rw [swR_of_ok hlt hdR, hif.2, if_neg (by rw [← hif.2]; exact hnext)]

/-- **geometric normal predictor**: the same prediction on both sides, for an involutive `Opposite` of the
    decoder's view -/
theorem normalPredict_iso {d e : MeshData} {φ ψ : Nat → Nat} (h : MDIso d e φ ψ) (hinv : OppInvol d.t)
    (ps : PosSource) (corner : Nat) (ot : Bool) (hcorner : corner < 3 * d.t.numFaces) :
    normalPredict e ps (φ corner) ot = normalPredict d ps corner ot :=
  normalPredict_iso_of_stops h ps corner ot hcorner (npStops_of_invol h hinv ps corner ot hcorner)

/-- **geometric normal encoder**: the same corrections and flip bits on both sides, for an involutive `Opposite`
    of the decoder's view -/
theorem geometricNormalEncode_iso {d e : MeshData} {φ ψ : Nat → Nat} (h : MDIso d e φ ψ) (hinv : OppInvol d.t)
    (ps : PosSource) (ot : OctaT) (data : Array Int) :
    geometricNormalEncode e ps ot data = geometricNormalEncode d ps ot data :=
  geometricNormalEncode_iso_of_stops h ps ot data
    (fun p hp => npStops_of_invol h hinv ps _ false (h.d2c_get p hp).1)

/-- **the value block is the same on both sides** (`encodeSchemeBlock`), for an involutive `Opposite` of the
    decoder's view -/
theorem encodeSchemeBlock_iso {d e : MeshData} {φ ψ : Nat → Nat} (h : MDIso d e φ ψ) (hinv : OppInvol d.t)
    (ch : EbChoices) (o : SeqEnc.EncOpts) (attId kind nc : Nat) (s : PScheme) (pos : PosSource)
    (portable : Array Int) :
    encodeSchemeBlock ch o attId kind nc s e pos portable = encodeSchemeBlock ch o attId kind nc s d pos portable :=
  encodeSchemeBlock_iso_of_stops h ch o attId kind nc s pos portable
    (fun _ p hp => gatherStops_of_invol h hinv nc portable p hp)
    (fun _ p hp => npStops_of_invol h hinv pos _ false (h.d2c_get p hp).1)

/-- `OppInvol` of the decoder's view follows from the same property of the encoder's view on the image of `φ` -/
theorem OppInvol.of_image {d e : TView} {φ ψ : Nat → Nat} (h : TVIso d e φ ψ)
    (he : ∀ c o, c < 3 * d.numFaces → e.opposite (φ c) = .ok o → o ≠ inv → e.opposite o = .ok (φ c)) :
    OppInvol d := by
  intro c o hc hco hne
  obtain ⟨o', h1, hov, h2⟩ := h.opposite c hc
  rw [hco] at h1
  cases h1
  have holt : o < 3 * d.numFaces := by
    rcases hov with hov | hov
    · exact absurd hov hne
    · exact hov
  rw [ext_of_ne φ hne] at h2
  have h3 := he c (φ o) hc h2 (h.phi_ne_inv o holt)
  obtain ⟨o2, h4, ho2, h5⟩ := h.opposite o holt
  rw [h3] at h5
  injection h5 with h5
  rcases ho2 with rfl | ho2
  · rw [ext_inv] at h5
    exact absurd h5 (h.phi_ne_inv c hc)
  · rw [ext_of_ne φ (h.ne_inv o2 ho2)] at h5
    have := h.phi_inj c o2 hc ho2 h5
    rw [this]
    exact h4

/-! ### non-vacuity: a triangle of the decoder inside an encoder table with an additional (unused) face -/

def exD : MeshData :=
  { t := { c2v := #[0, 1, 2], opp := #[inv, inv, inv], seam := #[], lm := #[0, 1, 2], isAtt := false, numFaces := 1 }
    d2c := #[0, 1, 2], v2d := #[0, 1, 2] }

def exE : MeshData :=
  { t := { c2v := #[7, 7, 8, 4, 5, 6], opp := #[inv, inv, inv, inv, inv, inv], seam := #[],
           lm := #[inv, inv, inv, inv, 3, 4, 5, 0, 2], isAtt := false, numFaces := 2 }
    d2c := #[3, 4, 5], v2d := #[inv, inv, inv, inv, 0, 1, 2, inv, inv] }

example : MDIso exD exE (fun c => c + 3) (fun v => v + 4) ∧ OppInvol exD.t := by
  refine ⟨⟨⟨rfl, by decide, ?_, ?_, ?_, ?_, ?_, ?_, ?_⟩, rfl, ?_, ?_⟩, ?_⟩
  · intro c hc; simp only [exD, exE] at hc ⊢; omega
  · intro c c' _ _ hcc; simpa using hcc
  · intro c hc; simp only [exD] at hc; interval_cases c <;> decide
  · intro c hc; simp only [exD] at hc
    interval_cases c <;> exact ⟨inv, by decide, Or.inl rfl, by decide⟩
  · intro c hc; simp only [exD] at hc
    interval_cases c
    · exact ⟨0, by decide, by decide, by decide, by decide⟩
    · exact ⟨1, by decide, by decide, by decide, by decide⟩
    · exact ⟨2, by decide, by decide, by decide, by decide⟩
  · intro c c' v v' _ _ _ _ hvv; simpa using hvv
  · intro c v hc hv; simp only [exD] at hc
    interval_cases c <;> (cases hv; exact ⟨true, by decide, by decide⟩)
  · intro p hp; simp only [exD] at hp
    have : p < 3 := by simpa using hp
    interval_cases p <;> exact ⟨by simp [exD], by simp [exD, exE]⟩
  · intro c v hc hv; simp only [exD] at hc
    interval_cases c
    · cases hv; exact ⟨0, fun _ => rfl, fun _ => rfl⟩
    · cases hv; exact ⟨1, fun _ => rfl, fun _ => rfl⟩
    · cases hv; exact ⟨2, fun _ => rfl, fun _ => rfl⟩
  · intro c o hc hco hne; simp only [exD] at hc
    interval_cases c <;> (cases hco; exact absurd rfl hne)

end Draco.EbEnc
