import DracoProofs.SeqRows
import DracoModel.Spec
import Mathlib.Tactic.IntervalCases
/-
  The executable specification RoundTripOK (`Spec.checkCore` / `Spec.check`, DracoModel/Spec.lean):
  the string-valued check the driver evaluates is "ok" exactly when the Boolean core accepts, and the
  core accepts `expected g opts` (the decode result proved in DracoProps/C01.lean) for the sequential class.
-/
namespace Draco
open SeqEnc

/-- the wrapper is the core: `"ok"` iff `checkCore` accepts -/
theorem check_ok_iff (cls : Spec.MethodClass) (req : Spec.QuantReq) (g g' gs : Geometry) :
    Spec.check cls req g g' gs = "ok" ↔ Spec.checkCore cls req g g' gs = true := by
  unfold Spec.check
  constructor
  · intro h
    by_cases hc : Spec.checkCore cls req g g' gs = true
    · exact hc
    · rw [if_neg hc] at h
      dsimp only at h
      split at h
      · exact absurd h (by decide)
      · rename_i hd
        exact absurd (by rw [h]; rfl) hd
  · intro h
    rw [if_pos h]

/-! ### `chunkBytes` -/

/-- the first `m` chunks of `k` bytes -/
def chunksN (k : Nat) : Nat → Bytes → List Bytes
  | 0, _ => []
  | m+1, bs => bs.take k :: chunksN k m (bs.drop k)

theorem chunkBytes_go_prefix (k : Nat) : ∀ (fuel : Nat) (bs : Bytes) (acc : Array Bytes),
    ∃ rest, (Spec.chunkBytes.go k fuel bs acc).toList = acc.toList ++ rest := by
  intro fuel
  induction fuel with
  | zero => intro bs acc; exact ⟨[], by simp [Spec.chunkBytes.go]⟩
  | succ f ih =>
    intro bs acc
    simp only [Spec.chunkBytes.go]
    split
    · exact ⟨[], by simp⟩
    · obtain ⟨rest, hr⟩ := ih (bs.drop k) (acc.push (bs.take k))
      exact ⟨bs.take k :: rest, by rw [hr]; simp⟩

theorem chunkBytes_go (k : Nat) (hk : 0 < k) : ∀ (m : Nat) (bs : Bytes) (acc : Array Bytes) (fuel : Nat),
    m * k ≤ bs.length → bs.length < fuel →
    ∃ rest, (Spec.chunkBytes.go k fuel bs acc).toList = acc.toList ++ chunksN k m bs ++ rest := by
  intro m
  induction m with
  | zero =>
    intro bs acc fuel _ _
    obtain ⟨rest, hr⟩ := chunkBytes_go_prefix k fuel bs acc
    exact ⟨rest, by rw [hr]; simp [chunksN]⟩
  | succ m ih =>
    intro bs acc fuel hm hf
    cases fuel with
    | zero => omega
    | succ f =>
      have hlen : k ≤ bs.length := by rw [Nat.succ_mul] at hm; omega
      have hne : bs.isEmpty = false := by
        cases bs with
        | nil => simp at hlen; omega
        | cons _ _ => rfl
      have hk0 : (k == 0) = false := by simp; omega
      simp only [Spec.chunkBytes.go, hne, hk0, Bool.or_self, Bool.false_eq_true, if_false]
      obtain ⟨rest, hr⟩ := ih (bs.drop k) (acc.push (bs.take k)) f
        (by rw [List.length_drop, Nat.succ_mul] at *; omega) (by rw [List.length_drop]; omega)
      exact ⟨rest, by rw [hr]; simp [chunksN]⟩

theorem chunkBytes_go_exact (k : Nat) (hk : 0 < k) : ∀ (m : Nat) (bs : Bytes) (acc : Array Bytes) (fuel : Nat),
    bs.length = m * k → bs.length < fuel →
    (Spec.chunkBytes.go k fuel bs acc).toList = acc.toList ++ chunksN k m bs := by
  intro m
  induction m with
  | zero =>
    intro bs acc fuel hb hf
    have : bs = [] := by simpa using hb
    subst this
    cases fuel with
    | zero => simp at hf
    | succ f => simp [Spec.chunkBytes.go, chunksN]
  | succ m ih =>
    intro bs acc fuel hb hf
    cases fuel with
    | zero => omega
    | succ f =>
      have hlen : k ≤ bs.length := by rw [hb, Nat.succ_mul]; omega
      have hne : bs.isEmpty = false := by
        cases bs with
        | nil => simp at hlen; omega
        | cons _ _ => rfl
      have hk0 : (k == 0) = false := by simp; omega
      simp only [Spec.chunkBytes.go, hne, hk0, Bool.or_self, Bool.false_eq_true, if_false]
      rw [ih (bs.drop k) _ f (by rw [List.length_drop, hb, Nat.succ_mul]; omega)
        (by rw [List.length_drop]; omega)]
      simp [chunksN]

theorem chunksN_getElem (k : Nat) : ∀ (m : Nat) (bs : Bytes) (i : Nat), i < m →
    (chunksN k m bs)[i]? = some ((bs.drop (i * k)).take k) := by
  intro m
  induction m with
  | zero => intro bs i h; omega
  | succ m ih =>
    intro bs i h
    cases i with
    | zero => simp [chunksN]
    | succ i =>
      simp only [chunksN, List.getElem?_cons_succ]
      rw [ih (bs.drop k) i (by omega), List.drop_drop]
      have : k + i * k = (i + 1) * k := by rw [Nat.succ_mul]; omega
      rw [this]

theorem chunksN_length (k : Nat) : ∀ (m : Nat) (bs : Bytes), (chunksN k m bs).length = m := by
  intro m
  induction m with
  | zero => intro _; rfl
  | succ m ih => intro bs; simp [chunksN, ih]

/-- chunk `i` of `chunkBytes` when the buffer holds at least `i+1` chunks -/
theorem chunkBytes_getD (k : Nat) (hk : 0 < k) (bs : Bytes) (i : Nat) (h : (i + 1) * k ≤ bs.length) :
    (Spec.chunkBytes k bs).getD i [] = (bs.drop (i * k)).take k := by
  unfold Spec.chunkBytes
  obtain ⟨rest, hr⟩ := chunkBytes_go k hk (i + 1) bs #[] (bs.length + 1) h (by omega)
  have hl : (Spec.chunkBytes.go k (bs.length + 1) bs #[]).toList[i]? = some ((bs.drop (i * k)).take k) := by
    rw [hr]
    simp only [List.nil_append]
    rw [List.getElem?_append_left (by rw [chunksN_length]; omega)]
    exact chunksN_getElem k (i + 1) bs i (by omega)
  rw [Array.getD_eq_getD_getElem?, ← Array.getElem?_toList, hl]
  rfl

/-- `f32s` of a row of `nc` floats -/
theorem f32s_eq_rowF32s (nc : Nat) (row : Bytes) (h : row.length = nc * 4) :
    Spec.f32s row = rowF32s nc row := by
  unfold Spec.f32s Spec.chunkBytes
  rw [chunkBytes_go_exact 4 (by decide) nc row #[] _ h (by omega)]
  simp only [List.nil_append]
  induction nc generalizing row with
  | zero => rfl
  | succ nc ih =>
    simp only [chunksN, List.map_cons, rowF32s]
    rw [ih (row.drop 4) (by rw [List.length_drop, h, Nat.succ_mul]; omega)]

/-! ### value rows seen through `Spec.view` -/

theorem valueAt_eq (vals : Bytes) (stride idx : Nat) :
    valueAt vals.toArray stride idx = (vals.drop (idx * stride)).take stride := by
  unfold valueAt
  rw [Array.toList_extract, List.extract_eq_take_drop]
  simp

/-- the row of point `p` of an input attribute, as `Spec.check` reads it, is `pointRows … [p]` -/
theorem view_pointRow_orig (a : Attribute) (n p : Nat) (hv : a.valid n = true) (hp : p < n) :
    (Spec.view a).pointRow p = (pointRows a n).getD p [] := by
  unfold Attribute.valid at hv
  simp only [Bool.and_eq_true, decide_eq_true_eq] at hv
  obtain ⟨⟨⟨h1, h2⟩, hlen⟩, hmap⟩ := hv
  have hs : 0 < a.stride := Nat.mul_pos (by omega) (by omega)
  have hrow : ∀ idx, idx < a.numValues →
      (Spec.rows a).getD idx [] = valueAt a.values.toArray a.stride idx := by
    intro idx hi
    unfold Spec.rows
    rw [chunkBytes_getD a.stride hs a.values idx (by
      have : (idx + 1) * a.stride ≤ a.numValues * a.stride := Nat.mul_le_mul_right _ hi
      omega), valueAt_eq]
  unfold Spec.AttView.pointRow Spec.view Spec.valueIndex pointRows
  cases hm : a.map with
  | none =>
    rw [hm] at hmap
    simp only [ge_iff_le, decide_eq_true_eq] at hmap
    simp only [Option.map_none]
    rw [hrow p (by omega)]
    simp [List.getD, hp]
  | some m =>
    rw [hm] at hmap
    simp only [Bool.and_eq_true, beq_iff_eq, List.all_eq_true, decide_eq_true_eq] at hmap
    obtain ⟨hml, hmall⟩ := hmap
    have hpm : p < m.length := by omega
    simp only [Option.map_some]
    have e1 : m.toArray.getD p 0 = m[p] := by simp [Array.getD, hpm]
    rw [e1, hrow m[p] (hmall _ (List.getElem_mem hpm))]
    simp [List.getD, hpm, hp]

theorem flatten_drop_take {α : Type} (s : Nat) : ∀ (ls : List (List α)) (p : Nat),
    (∀ l ∈ ls, l.length = s) → p < ls.length →
    (ls.flatten.drop (p * s)).take s = ls.getD p [] := by
  intro ls
  induction ls with
  | nil => intro p _ h; simp at h
  | cons l ls ih =>
    intro p hl hp
    have hl0 := hl l (by simp)
    cases p with
    | zero => simp [List.take_left' hl0]
    | succ p =>
      have : (p + 1) * s = s + p * s := by rw [Nat.succ_mul]; omega
      rw [List.flatten_cons, this, ← List.drop_drop, List.drop_left' hl0,
        ih p (fun x hx => hl x (by simp [hx])) (by simpa using hp)]
      simp [List.getD]

/-- the row of point `p` of a decoded attribute (identity map, one value per point) whose values are
    the concatenation of `n` rows of `stride` bytes -/
theorem view_pointRow_dec (d : Attribute) (rows : List Bytes) (p : Nat) (hmap : d.map = none)
    (hs : 0 < d.stride) (hvals : d.values = rows.flatten) (hrows : ∀ r ∈ rows, r.length = d.stride)
    (hp : p < rows.length) :
    (Spec.view d).pointRow p = rows.getD p [] := by
  unfold Spec.AttView.pointRow Spec.view Spec.valueIndex Spec.rows
  simp only [hmap, Option.map_none]
  have hlen : rows.flatten.length = rows.length * d.stride := flatten_length_uniform d.stride rows hrows
  rw [chunkBytes_getD d.stride hs d.values p (by
    rw [hvals, hlen]; exact Nat.mul_le_mul_right _ hp), hvals]
  exact flatten_drop_take d.stride rows p hrows hp

/-! ### `Spec.expectedRow` is `transformRow` -/

theorem leaf_dequant_eq (mins : List Nat) (range q c : Nat) (m : Nat) (k : Int) (h : mins[c]? = some m) :
    Leaf.dequant range q m k = Quant.dequantizeBits mins range q c k := by
  unfold Leaf.dequant Quant.dequantizeBits Quant.dequantize Quant.minOf Quant.paramsOfBits
  have hc : c < mins.length := by
    rcases Nat.lt_or_ge c mins.length with h' | h'
    · exact h'
    · rw [List.getElem?_eq_none h'] at h; cases h
  have hm : mins[c] = m := by
    rw [List.getElem?_eq_getElem hc] at h; exact Option.some.inj h
  simp [List.getD, hc, hm]

theorem expectedRow_quant_aux (mins : List Nat) (range q : Nat) : ∀ (xs : List Nat) (c : Nat),
    c + xs.length ≤ mins.length →
    ((xs.zipIdx c).map fun (xc : Nat × Nat) =>
        writeLE 4 (Quant.dequantizeBits mins range q xc.2 (Quant.quantizeBits mins range q xc.2 xc.1))).flatten =
      (List.zipWith (fun m k => writeLE 4 (Leaf.dequant range q m k)) (mins.drop c)
        (quantizeRow mins range q c xs)).flatten := by
  intro xs
  induction xs with
  | nil => intro c _; simp [quantizeRow]
  | cons x xs ih =>
    intro c h
    have hc : c < mins.length := by simp at h; omega
    have hd : mins.drop c = mins[c] :: mins.drop (c + 1) := (List.drop_eq_getElem_cons hc)
    simp only [List.zipIdx_cons, List.map_cons, List.flatten_cons, quantizeRow, hd, List.zipWith_cons_cons]
    rw [ih (c + 1) (by simp at h; omega),
      leaf_dequant_eq mins range q c mins[c] _ (List.getElem?_eq_getElem hc)]

theorem expectedRow_quant (mins : List Nat) (range q nc : Nat) (row : Bytes) (hl : row.length = nc * 4)
    (hm : mins.length = nc) :
    Spec.expectedRow (.quantization (q : Nat) mins range) row =
      dequantRow range q mins (quantizeRow mins range q 0 (rowF32s nc row)) := by
  unfold Spec.expectedRow dequantRow
  simp only [Int.toNat_natCast]
  rw [f32s_eq_rowF32s nc row hl]
  have := expectedRow_quant_aux mins range q (rowF32s nc row) 0 (by rw [rowF32s_length]; omega)
  simpa using this

theorem expectedRow_octa (q : Nat) (t : OctaT) (ht : Octa.init q = some t) (row : Bytes)
    (hl : row.length = 3 * 4) :
    Spec.expectedRow (.octahedron (q : Nat)) row = octaRowDecode q (octaRow t row) := by
  unfold Spec.expectedRow
  simp only [Int.toNat_natCast, ht]
  rw [f32s_eq_rowF32s 3 row hl]
  have e : rowF32s 3 row = [leValue (row.take 4), leValue ((row.drop 4).take 4),
      leValue (((row.drop 4).drop 4).take 4)] := rfl
  unfold octaRow
  rw [e]
  simp only [octaRowDecode, Leaf.octaToUnit, ht]

/-! ### per attribute: what `Spec.checkCore` needs -/

theorem allTypes_contains (t : Nat) (h : t < 5) : allTypes.contains t = true := by
  unfold allTypes
  interval_cases t <;> decide

/-- the transform the all-skipped decode declares for attribute `j` -/
def declaredTransform (opts : EncOpts) (n j : Nat) (a : Attribute) : TransformData :=
  (expectedSkipAttributeOf allTypes opts n j a).transform

structure SpecAttFacts (opts : EncOpts) (n j : Nat) (a : Attribute) : Prop where
  trOk : Spec.transformOk (declaredTransform opts n j a)
    (if encoderType a (opts.att j) ≥ 2 then some (opts.att j).quantBits.toNat else none) = true
  rowLen : ∀ r ∈ pointRows a n, (transformRow opts j a r).length = a.stride
  rowEq : ∀ r ∈ pointRows a n, Spec.expectedRow (declaredTransform opts n j a) r = transformRow opts j a r

theorem specAttFacts (ch : Choices) (opts : EncOpts) (n j : Nat) (a : Attribute) (e : AttEnc)
    (hn : 0 < n) (hok : AttOK a (opts.att j) n)
    (h : encodeAttribute ch opts n j a = some e) : SpecAttFacts opts n j a := by
  obtain ⟨hnv, hnc, hdl⟩ := hok.numValues_pos hn
  obtain ⟨hrl, hrs⟩ := pointRows_spec a n hok.valid
  have hcont := allTypes_contains a.attType hok.attType
  have hmem : a.attType ∈ allTypes := by simpa using hcont
  rcases encodeAttribute_cases ch opts n j a e h with ⟨h0, rfl⟩ | ⟨h1, portable, vb, hp, hvb, rfl⟩ |
      ⟨h2, mins, range, q, vb, hq, hvb, rfl⟩ | ⟨h3, hnc3, t, vb, ht, hvb, rfl⟩
  · have htr : declaredTransform opts n j a = .none := by
      simp [declaredTransform, expectedSkipAttributeOf, h0, expectedAttributeOf, AttDesc.toAttribute]
    have hT : transformRow opts j a = id := by funext row; simp [transformRow, h0]
    refine ⟨by rw [htr, h0]; rfl, fun r hr => by rw [hT]; exact hrs r hr, fun r _ => by rw [htr, hT]; rfl⟩
  · have htr : declaredTransform opts n j a = .none := by
      simp [declaredTransform, expectedSkipAttributeOf, h1, hmem, portableOf]
    have hT : transformRow opts j a = id := by funext row; simp [transformRow, h1]
    refine ⟨by rw [htr, h1]; rfl, fun r hr => by rw [hT]; exact hrs r hr, fun r _ => by rw [htr, hT]; rfl⟩
  · rcases encoderType_cases a (opts.att j) with h' | ⟨h', _⟩ | ⟨_, hd9⟩ | ⟨h', _⟩ <;>
      try (rw [h2] at h'; cases h')
    obtain ⟨q1, q30, hqb, qml, qr, qm⟩ := quantizationParams_spec a (opts.att j) mins range q hok.explicit hq
    have htr : declaredTransform opts n j a = .quantization (q : Nat) mins range := by
      simp [declaredTransform, expectedSkipAttributeOf, h2, hmem, portableOf, hq]
    have hT : transformRow opts j a = fun row =>
        dequantRow range q mins (quantizeRow mins range q 0 (rowF32s a.numComponents row)) := by
      funext row; simp [transformRow, h2, hq]
    have hstride : a.stride = a.numComponents * 4 := by
      unfold Attribute.stride; rw [hd9]; simp [dataTypeLength]; omega
    refine ⟨?_, fun r hr => ?_, fun r hr => ?_⟩
    · rw [htr, h2]
      simp only [ge_iff_le, Nat.le_refl, if_true, Spec.transformOk, beq_iff_eq]
      have : (opts.att j).quantBits.toNat = q := by omega
      rw [this]
    · rw [hT, hstride]
      simp only [dequantRow]
      rw [flatten_length_uniform 4]
      · simp [quantizeRow_length, rowF32s_length, qml]
      · intro x hx
        rw [List.mem_iff_getElem] at hx
        obtain ⟨k, hk, rfl⟩ := hx
        simp [writeLE_length]
    · rw [htr, hT]
      exact expectedRow_quant mins range q a.numComponents r (by rw [hrs r hr, hstride]) qml
  · rcases encoderType_cases a (opts.att j) with h' | ⟨h', _⟩ | ⟨h', _⟩ | ⟨_, hd9, hqb⟩ <;>
      try (rw [h3] at h'; cases h')
    have htr : declaredTransform opts n j a = .octahedron ((opts.att j).quantBits.toNat : Nat) := by
      simp [declaredTransform, expectedSkipAttributeOf, h3, hmem, portableOf, ht]
    have hT : transformRow opts j a = fun row =>
        octaRowDecode (opts.att j).quantBits.toNat (octaRow t row) := by
      funext row; simp [transformRow, h3, ht]
    have hstride : a.stride = 3 * 4 := by
      unfold Attribute.stride; rw [hd9, hnc3]; simp [dataTypeLength]
    refine ⟨?_, fun r hr => ?_, fun r hr => ?_⟩
    · rw [htr, h3]
      simp [Spec.transformOk]
    · rw [hT, hstride]
      have e : rowF32s 3 r = [leValue (r.take 4), leValue ((r.drop 4).take 4),
          leValue (((r.drop 4).drop 4).take 4)] := rfl
      simp only [octaRow, e, octaRowDecode, List.length_append, writeLE_length]
    · rw [htr, hT]
      exact expectedRow_octa _ t ht r (by rw [hrs r hr, hstride])

/-! ### lists with distinct keys -/

section keys
variable {γ : Type} (k : γ → Nat)

theorem find?_key : ∀ (l : List γ), (l.map k).Nodup → ∀ x ∈ l,
    l.find? (fun y => k y == k x) = some x := by
  intro l
  induction l with
  | nil => intro _ x hx; simp at hx
  | cons y ys ih =>
    intro hnd x hx
    simp only [List.map_cons, List.nodup_cons] at hnd
    simp only [List.mem_cons] at hx
    rcases hx with rfl | hx
    · simp
    · have hne : k y ≠ k x := by
        intro he; exact hnd.1 (by rw [he]; exact List.mem_map_of_mem hx)
      rw [List.find?_cons_of_neg (by simpa using hne)]
      exact ih hnd.2 x hx

theorem findIdx?_key : ∀ (l : List γ), (l.map k).Nodup → ∀ (j : Nat) (h : j < l.length),
    l.findIdx? (fun y => k y == k l[j]) = some j := by
  intro l
  induction l with
  | nil => intro _ j h; simp at h
  | cons y ys ih =>
    intro hnd j h
    simp only [List.map_cons, List.nodup_cons] at hnd
    cases j with
    | zero => simp [List.findIdx?_cons]
    | succ j =>
      have hj : j < ys.length := by simpa using h
      have hne : k y ≠ k ys[j] := by
        intro he; exact hnd.1 (by rw [he]; exact List.mem_map_of_mem (List.getElem_mem hj))
      simp only [List.getElem_cons_succ, List.findIdx?_cons]
      rw [if_neg (by simpa using hne), ih hnd.2 j hj]
      rfl

theorem lookup_filterMap_key (P : γ → Bool) (v : γ → Nat) : ∀ (l : List γ), (l.map k).Nodup → ∀ x ∈ l,
    (l.filterMap fun y => if P y then some (k y, v y) else none).lookup (k x) =
      if P x then some (v x) else none := by
  intro l
  induction l with
  | nil => intro _ x hx; simp at hx
  | cons y ys ih =>
    intro hnd x hx
    simp only [List.map_cons, List.nodup_cons] at hnd
    simp only [List.mem_cons] at hx
    -- x is not among ys when x = y
    have hnotin : ∀ z ∈ ys, k z ≠ k y := fun z hz he => hnd.1 (by rw [← he]; exact List.mem_map_of_mem hz)
    have hskip : ∀ (zs : List γ), (∀ z ∈ zs, k z ≠ k y) →
        (zs.filterMap fun z => if P z then some (k z, v z) else none).lookup (k y) = none := by
      intro zs
      induction zs with
      | nil => intro _; rfl
      | cons z zs ihz =>
        intro hz
        have hzy := hz z (by simp)
        simp only [List.filterMap_cons]
        cases hP : P z with
        | false => simp only [Bool.false_eq_true, if_false]; exact ihz (fun w hw => hz w (by simp [hw]))
        | true =>
          simp only [if_true, List.lookup_cons]
          have : (k y == k z) = false := by simpa using fun h => hzy h.symm
          rw [this]
          exact ihz (fun w hw => hz w (by simp [hw]))
    rcases hx with rfl | hx
    · simp only [List.filterMap_cons]
      cases hP : P x with
      | false => simp only [Bool.false_eq_true, if_false]; exact hskip ys hnotin
      | true => simp
    · have hne : k x ≠ k y := hnotin x hx
      simp only [List.filterMap_cons]
      cases hP : P y with
      | false => simp only [Bool.false_eq_true, if_false]; exact ih hnd.2 x hx
      | true =>
        simp only [if_true, List.lookup_cons]
        have : (k x == k y) = false := by simpa using hne
        rw [this]
        exact ih hnd.2 x hx

theorem eraseDups_of_nodup : ∀ (l : List Nat), l.Nodup → l.eraseDups = l := by
  intro l
  induction l using List.recOn with
  | nil => intro _; simp
  | cons a as ih =>
    intro h
    rw [List.nodup_cons] at h
    rw [List.eraseDups_cons]
    have : as.filter (fun b => !b == a) = as := by
      rw [List.filter_eq_self]
      intro b hb
      have : b ≠ a := fun he => h.1 (he ▸ hb)
      simpa using this
    rw [this, ih h.2]

end keys

theorem collect_map_some {α β : Type} (f : α → Option β) (g : α → β) : ∀ (l : List α),
    (∀ x ∈ l, f x = some (g x)) → Spec.collect (l.map f) = some (l.map g) := by
  intro l
  induction l with
  | nil => intro _; rfl
  | cons x xs ih =>
    intro h
    simp only [List.map_cons, h x (by simp), Spec.collect, ih (fun y hy => h y (by simp [hy]))]

theorem zipIdxFrom_map_snd {α : Type} : ∀ (l : List α) (k : Nat), (zipIdxFrom k l).map (·.2) = l := by
  intro l
  induction l with
  | nil => intro _; rfl
  | cons x xs ih => intro k; simp [zipIdxFrom, ih]

theorem zipIdxFrom_mem {α : Type} : ∀ (l : List α) (k : Nat) (ia : Nat × α), ia ∈ zipIdxFrom k l →
    ∃ j, ia.1 = k + j ∧ l[j]? = some ia.2 := by
  intro l
  induction l with
  | nil => intro k ia h; simp [zipIdxFrom] at h
  | cons x xs ih =>
    intro k ia h
    simp only [zipIdxFrom, List.mem_cons] at h
    rcases h with rfl | h
    · exact ⟨0, rfl, by simp⟩
    · obtain ⟨j, h1, h2⟩ := ih (k + 1) ia h
      exact ⟨j + 1, by omega, by simpa using h2⟩

theorem flatMap_congr' {α β : Type} (f g : α → List β) : ∀ (l : List α), (∀ x ∈ l, f x = g x) →
    l.flatMap f = l.flatMap g := by
  intro l
  induction l with
  | nil => intro _; rfl
  | cons x xs ih =>
    intro h
    simp only [List.flatMap_cons, h x (by simp), ih (fun y hy => h y (by simp [hy]))]

/-! ### the corollary: RoundTripOK accepts `expected g opts` -/

/-- the matched triple `checkCore` builds for attribute `ia = (j, a)` -/
def matchedOf (g : Geometry) (opts : EncOpts) (ia : Nat × Attribute) : Spec.Matched :=
  ⟨Spec.view ia.2, Spec.view (expectedAttributeOf opts g.numPoints ia.1 ia.2),
    declaredTransform opts g.numPoints ia.1 ia.2⟩

theorem checkCore_expected (ch : Choices) (g : Geometry) (md : Option GeometryMetadata)
    (opts : EncOpts) (bs : Bytes) (hok : GeomOK g opts)
    (hnd : (g.atts.map (·.uniqueId)).Nodup) (hpc : g.isMesh = false → g.faces = [])
    (henc : encodeGeometry ch g md opts = some bs) :
    Spec.checkCore .sequential (quantReq g opts) g (expected g opts) (expectedSkip allTypes g opts) = true := by
  obtain ⟨encs, hf⟩ := encodeGeometry_full ch g md opts bs henc
  let L := zipIdxFrom 0 g.atts
  have hLsnd : L.map (·.2) = g.atts := zipIdxFrom_map_snd g.atts 0
  have hLnd : (L.map fun ia => ia.2.uniqueId).Nodup := by
    have : (L.map fun ia => ia.2.uniqueId) = (L.map (·.2)).map (·.uniqueId) := by rw [List.map_map]; rfl
    rw [this, hLsnd]; exact hnd
  have hLmem : ∀ ia ∈ L, g.atts[ia.1]? = some ia.2 := by
    intro ia hia
    obtain ⟨j, h1, h2⟩ := zipIdxFrom_mem g.atts 0 ia hia
    rw [h1, Nat.zero_add]; exact h2
  -- per attribute facts
  have hfacts : ∀ ia ∈ L, SpecAttFacts opts g.numPoints ia.1 ia.2 ∧ AttOK ia.2 (opts.att ia.1) g.numPoints := by
    intro ia hia
    have hi := hLmem ia hia
    obtain ⟨e, _, he⟩ := encodeAttribute_of_index ch g md opts bs encs hf ia.1 ia.2 hi
    exact ⟨specAttFacts (ch.resolved g opts) opts g.numPoints ia.1 ia.2 e hok.points (hok.atts _ _ hi) he, hok.atts _ _ hi⟩
  have hg' : (expected g opts).atts = L.map fun ia => expectedAttributeOf opts g.numPoints ia.1 ia.2 := rfl
  have hgs : (expectedSkip allTypes g opts).atts =
      L.map fun ia => expectedSkipAttributeOf allTypes opts g.numPoints ia.1 ia.2 := rfl
  -- every attribute is matched
  have hmatch : ∀ ia ∈ L, Spec.matchOne (quantReq g opts) (expected g opts) (expectedSkip allTypes g opts) ia.2 =
      some (matchedOf g opts ia) := by
    intro ia hia
    obtain ⟨sf, _⟩ := hfacts ia hia
    unfold Spec.matchOne Spec.findAtt Spec.skipOf
    rw [hg', List.find?_map, List.findIdx?_map]
    have hfun : ((fun (x : Attribute) => x.uniqueId == ia.2.uniqueId) ∘
        fun (ia : Nat × Attribute) => expectedAttributeOf opts g.numPoints ia.1 ia.2) =
        fun y => (fun (z : Nat × Attribute) => z.2.uniqueId) y == (fun (z : Nat × Attribute) => z.2.uniqueId) ia := by
      funext y; rfl
    rw [hfun, find?_key (fun (z : Nat × Attribute) => z.2.uniqueId) L hLnd ia hia]
    obtain ⟨j, hj, hLj⟩ := List.getElem_of_mem hia
    have hidx := findIdx?_key (fun (z : Nat × Attribute) => z.2.uniqueId) L hLnd j hj
    rw [hLj] at hidx
    rw [hidx]
    simp only [Option.map_some, hgs]
    rw [List.getElem?_map, List.getElem?_eq_getElem hj, hLj]
    simp only [Option.map_some]
    -- descriptors agree
    have hdesc : ((expectedAttributeOf opts g.numPoints ia.1 ia.2).attType != ia.2.attType ||
        (expectedAttributeOf opts g.numPoints ia.1 ia.2).dataType != ia.2.dataType ||
        (expectedAttributeOf opts g.numPoints ia.1 ia.2).numComponents != ia.2.numComponents ||
        (expectedAttributeOf opts g.numPoints ia.1 ia.2).normalized != ia.2.normalized) = false := by
      simp [expectedAttributeOf, AttDesc.toAttribute, descOf]
    rw [hdesc]
    simp only [Bool.false_eq_true, if_false]
    -- the declared transform is the requested one
    have hlook : (quantReq g opts).lookup ia.2.uniqueId =
        if encoderType ia.2 (opts.att ia.1) ≥ 2 then some (opts.att ia.1).quantBits.toNat else none := by
      have := lookup_filterMap_key (fun (z : Nat × Attribute) => z.2.uniqueId)
        (fun z => decide (encoderType z.2 (opts.att z.1) ≥ 2)) (fun z => (opts.att z.1).quantBits.toNat) L hLnd ia hia
      simp only [decide_eq_true_eq] at this
      exact this
    have htr := sf.trOk
    unfold declaredTransform at htr
    rw [hlook, htr]
    rfl
  have hcollect : Spec.collect (g.atts.map (Spec.matchOne (quantReq g opts) (expected g opts)
      (expectedSkip allTypes g opts))) = some (L.map (matchedOf g opts)) := by
    rw [← hLsnd, List.map_map]
    exact collect_map_some _ _ L hmatch
  unfold Spec.checkCore
  rw [hcollect]
  have hlen : g.atts.length = (expected g opts).atts.length := by
    rw [hg', List.length_map, ← hLsnd, List.length_map]
  have hed : (g.atts.map (·.uniqueId)).eraseDups.length = (g.atts.map (·.uniqueId)).length := by
    rw [eraseDups_of_nodup _ hnd]
  have hfaces : g.faces = (expected g opts).faces := by
    simp only [expected]
    cases hm : g.isMesh with
    | true => simp
    | false => simp [hpc hm]
  simp only [← hlen, beq_self_eq_true, hed, Bool.true_and, ← hfaces, show (expected g opts).numPoints = g.numPoints from rfl,
    List.all_eq_true, List.mem_range, beq_iff_eq]
  intro p hp
  unfold Spec.expTupleL Spec.decTupleL
  rw [List.flatMap_map, List.flatMap_map]
  apply flatMap_congr'
  intro ia hia
  obtain ⟨sf, ha⟩ := hfacts ia hia
  obtain ⟨hrl, hrs⟩ := pointRows_spec ia.2 g.numPoints ha.valid
  obtain ⟨_, hnc, hdl⟩ := ha.numValues_pos hok.points
  have hpl : p < (pointRows ia.2 g.numPoints).length := by rw [hrl]; exact hp
  have hget : (pointRows ia.2 g.numPoints).getD p [] = (pointRows ia.2 g.numPoints)[p] := by
    simp [List.getD, hpl]
  have hrmem : (pointRows ia.2 g.numPoints)[p] ∈ pointRows ia.2 g.numPoints := List.getElem_mem hpl
  simp only [matchedOf]
  rw [view_pointRow_orig ia.2 g.numPoints p ha.valid hp, hget, sf.rowEq _ hrmem]
  have hstr : (expectedAttributeOf opts g.numPoints ia.1 ia.2).stride = ia.2.stride := by
    simp [expectedAttributeOf, AttDesc.toAttribute, descOf, Attribute.stride]
  rw [view_pointRow_dec (expectedAttributeOf opts g.numPoints ia.1 ia.2)
    ((pointRows ia.2 g.numPoints).map (transformRow opts ia.1 ia.2)) p
    (by simp [expectedAttributeOf, AttDesc.toAttribute])
    (by rw [hstr]; exact Nat.mul_pos (by omega) (by omega))
    (expectedAttributeOf_rowwise opts g.numPoints ia.1 ia.2 hnc ha.explicit)
    (by
      intro r hr
      simp only [List.mem_map] at hr
      obtain ⟨r0, hr0, rfl⟩ := hr
      rw [hstr]; exact sf.rowLen r0 hr0)
    (by simpa using hpl)]
  simp [List.getD, hpl]

end Draco
