import DracoProofs.CornerTableOrbit
/-
  Clause I5 of C13: after `ComputeVertexCorners` every corner of a non-degenerate face is reached
  from `LeftMostCorner(Vertex(c))` by `SwingRight` steps.
-/
namespace Draco

/-- `c` is reached from `s` by `SwingRight` steps on the opposite table `opp` -/
def Reach (opp : Array (Option Nat)) (s : Option Nat) (c : Nat) : Prop :=
  ∃ k, iter (lift (swingRightA opp)) k s = some c

theorem Reach.refl (opp : Array (Option Nat)) (c : Nat) : Reach opp (some c) c := ⟨0, rfl⟩

/-- one more step at the start -/
theorem Reach.step {opp : Array (Option Nat)} {nx a c : Nat} (h : swingRightA opp nx = some a)
    (hr : Reach opp (some a) c) : Reach opp (some nx) c := by
  obtain ⟨k, hk⟩ := hr
  exact ⟨k + 1, by simp only [iter, lift_some]; rw [h]; exact hk⟩

/-- one more step at the end -/
theorem Reach.forward {opp : Array (Option Nat)} {s : Option Nat} {a b : Nat} (hr : Reach opp s a)
    (h : swingRightA opp a = some b) : Reach opp s b := by
  obtain ⟨k, hk⟩ := hr
  exact ⟨k + 1, by rw [iter_succ', hk, lift_some]; exact h⟩

theorem oget_push_none (a : Array (Option Nat)) (i : Nat) : oget (a.push none) i = oget a i := by
  unfold oget
  simp only [Array.getD_eq_getD_getElem?, Array.getElem?_push]
  split
  · rename_i h; subst h; simp
  · rfl

theorem bget_push_false (a : Array Bool) (i : Nat) : (a.push false).getD i false = a.getD i false := by
  simp only [Array.getD_eq_getD_getElem?, Array.getElem?_push]
  split
  · rename_i h; subst h; simp
  · rfl

theorem bget_lt {a : Array Bool} {i : Nat} (h : a.getD i false = true) : i < a.size := by
  by_cases hi : i < a.size
  · exact hi
  · rw [Array.getD_eq_getD_getElem?, Array.getElem?_eq_none (Nat.le_of_not_lt hi)] at h
    cases h

/-- fan invariant of `ComputeVertexCorners` -/
structure FInv (opp : Array (Option Nat)) (st : VCState) : Prop where
  size_vv : st.visitedV.size = st.vc.size
  reach : ∀ c, st.visitedC.getD c false = true → Reach opp (oget st.vc (vget st.ctv c)) c
  vvis : ∀ c, st.visitedC.getD c false = true → st.visitedV.getD (vget st.ctv c) false = true

section walks
variable {ctv0 : Array Nat} {opp : Array (Option Nat)} {k : Nat} {numOrig : Nat}

theorem markL_finv {st : VCState} (v : Nat) (nm : Bool) (act : Nat)
    (hV : VInv ctv0 numOrig st) (hF : FInv opp st) (hact : act < ctv0.size)
    (hv : v < st.vc.size) (hvv : st.visitedV.getD v false = true)
    (hlab : nm = false → st.visitedC.getD act false = false → vget st.ctv act = v)
    (hpre : ∀ c, st.visitedC.getD c false = true → vget st.ctv c = v → Reach opp (some act) c) :
    FInv opp (markL v nm st act) ∧ oget (markL v nm st act).vc v = some act := by
  have hvcv : oget (st.vc.setIfInBounds v (some act)) v = some act := by
    rw [oget_set]; simp [hv]
  refine ⟨⟨?_, ?_, ?_⟩, hvcv⟩
  · simp only [markL_eq, Array.size_setIfInBounds]; exact hF.size_vv
  · intro c hc
    simp only [markL_eq] at hc ⊢
    rw [bget_set] at hc
    -- the label of `c` afterwards
    by_cases hlv : vget (if nm = true then st.ctv.setIfInBounds act v else st.ctv) c = v
    · rw [hlv, hvcv]
      by_cases hca : act = c
      · subst hca; exact Reach.refl _ _
      · simp only [hca, false_and, if_false] at hc
        have hl : vget st.ctv c = v := by
          cases nm with
          | false => simpa using hlv
          | true => simp only [if_true] at hlv; rw [vget_set] at hlv; simpa [hca] using hlv
        exact hpre c hc hl
    · rw [oget_set_ne _ _ (fun h => hlv h.symm)]
      -- the label did not change and `c` was visited before
      have hold : st.visitedC.getD c false = true ∧
          vget (if nm = true then st.ctv.setIfInBounds act v else st.ctv) c = vget st.ctv c := by
        by_cases hca : act = c
        · subst hca
          cases nm with
          | false =>
            simp only [Bool.false_eq_true, if_false] at hlv
            refine ⟨?_, by simp⟩
            cases hvis : st.visitedC.getD act false with
            | true => rfl
            | false => exact absurd (hlab rfl hvis) hlv
          | true =>
            simp only [if_true] at hlv
            rw [vget_set] at hlv
            rw [hV.size_ctv] at hlv
            simp [hact] at hlv
        · simp only [hca, false_and, if_false] at hc
          refine ⟨hc, ?_⟩
          cases nm with
          | false => rfl
          | true => simp only [if_true]; rw [vget_set]; simp [hca]
      rw [hold.2]
      exact hF.reach c hold.1
  · intro c hc
    simp only [markL_eq] at hc ⊢
    rw [bget_set] at hc
    by_cases hlv : vget (if nm = true then st.ctv.setIfInBounds act v else st.ctv) c = v
    · rw [hlv]; exact hvv
    · have hold : st.visitedC.getD c false = true ∧
          vget (if nm = true then st.ctv.setIfInBounds act v else st.ctv) c = vget st.ctv c := by
        by_cases hca : act = c
        · subst hca
          cases nm with
          | false =>
            simp only [Bool.false_eq_true, if_false] at hlv
            refine ⟨?_, by simp⟩
            cases hvis : st.visitedC.getD act false with
            | true => rfl
            | false => exact absurd (hlab rfl hvis) hlv
          | true =>
            simp only [if_true] at hlv
            rw [vget_set] at hlv
            rw [hV.size_ctv] at hlv
            simp [hact] at hlv
        · simp only [hca, false_and, if_false] at hc
          refine ⟨hc, ?_⟩
          cases nm with
          | false => rfl
          | true => simp only [if_true]; rw [vget_set]; simp [hca]
      rw [hold.2]
      exact hF.vvis c hold.1

theorem markR_finv {st : VCState} (v : Nat) (nm : Bool) (act : Nat)
    (hV : VInv ctv0 numOrig st) (hF : FInv opp st) (hact : act < ctv0.size)
    (hvv : st.visitedV.getD v false = true)
    (hlab : nm = false → st.visitedC.getD act false = false → vget st.ctv act = v)
    (hre : Reach opp (oget st.vc v) act) :
    FInv opp (markR v nm st act) := by
  have hold : ∀ c, (st.visitedC.setIfInBounds act true).getD c false = true →
      vget (if nm = true then st.ctv.setIfInBounds act v else st.ctv) c ≠ v →
      st.visitedC.getD c false = true ∧
        vget (if nm = true then st.ctv.setIfInBounds act v else st.ctv) c = vget st.ctv c := by
    intro c hc hlv
    rw [bget_set] at hc
    by_cases hca : act = c
    · subst hca
      cases nm with
      | false =>
        simp only [Bool.false_eq_true, if_false] at hlv
        refine ⟨?_, by simp⟩
        cases hvis : st.visitedC.getD act false with
        | true => rfl
        | false => exact absurd (hlab rfl hvis) hlv
      | true =>
        simp only [if_true] at hlv
        rw [vget_set] at hlv
        rw [hV.size_ctv] at hlv
        simp [hact] at hlv
    · simp only [hca, false_and, if_false] at hc
      refine ⟨hc, ?_⟩
      cases nm with
      | false => rfl
      | true => simp only [if_true]; rw [vget_set]; simp [hca]
  refine ⟨?_, ?_, ?_⟩
  · simp only [markR_eq]; exact hF.size_vv
  · intro c hc
    simp only [markR_eq] at hc ⊢
    by_cases hlv : vget (if nm = true then st.ctv.setIfInBounds act v else st.ctv) c = v
    · rw [hlv]
      by_cases hca : act = c
      · subst hca; exact hre
      · rw [bget_set] at hc
        simp only [hca, false_and, if_false] at hc
        have hl : vget st.ctv c = v := by
          cases nm with
          | false => simpa using hlv
          | true => simp only [if_true] at hlv; rw [vget_set] at hlv; simpa [hca] using hlv
        rw [← hl]
        exact hF.reach c hc
    · obtain ⟨h1, h2⟩ := hold c hc hlv
      rw [h2]; exact hF.reach c h1
  · intro c hc
    simp only [markR_eq] at hc ⊢
    by_cases hlv : vget (if nm = true then st.ctv.setIfInBounds act v else st.ctv) c = v
    · rw [hlv]; exact hvv
    · obtain ⟨h1, h2⟩ := hold c hc hlv
      rw [h2]; exact hF.vvis c h1

theorem markL_simple (v : Nat) (nm : Bool) (st : VCState) (act : Nat) :
    (markL v nm st act).visitedV = st.visitedV ∧ (markL v nm st act).parents = st.parents ∧
    (markL v nm st act).vc.size = st.vc.size := by
  simp [markL_eq, Array.size_setIfInBounds]

theorem markR_simple (v : Nat) (nm : Bool) (st : VCState) (act : Nat) :
    (markR v nm st act).visitedV = st.visitedV ∧ (markR v nm st act).parents = st.parents ∧
    (markR v nm st act).vc = st.vc := by
  simp [markR_eq]

theorem cvcLeft_finv (hn : ctv0.size = 3 * k) (hopp : OppOK ctv0 ctv0.size opp)
    (c v : Nat) (nm : Bool) (p : Nat) (hnmp : nm = false → v = p) :
    ∀ (fuel act : Nat) (st : VCState), VInv ctv0 numOrig st → FInv opp st → act < ctv0.size →
      vget ctv0 act = p → LabelOK ctv0 numOrig st v nm p →
      v < st.vc.size → st.visitedV.getD v false = true →
      (∀ c', st.visitedC.getD c' false = true → vget st.ctv c' = v → Reach opp (some act) c') →
      FInv opp (cvcLeft opp c v nm fuel act st).1 ∧
      (cvcLeft opp c v nm fuel act st).1.visitedV = st.visitedV ∧
      (0 < fuel → Reach opp (oget (cvcLeft opp c v nm fuel act st).1.vc v) act) := by
  intro fuel
  induction fuel with
  | zero =>
    intro act st _ hF _ _ _ _ _ _
    exact ⟨by simpa [cvcLeft] using hF, by simp [cvcLeft], fun h => absurd h (Nat.lt_irrefl 0)⟩
  | succ fuel ih =>
    intro act st hV hF hact hp hl hv hvv hpre
    have hlab : nm = false → st.visitedC.getD act false = false → vget st.ctv act = v := by
      intro h1 h2
      rw [hV.unvisited act h2, hp, hnmp h1]
    obtain ⟨hF', hvc'⟩ := markL_finv (opp := opp) v nm act hV hF hact hv hvv hlab hpre
    have hV' := markL_inv v nm act hV hact (by rw [hp]; exact hl)
    obtain ⟨s1, s2, s3⟩ := markL_simple v nm st act
    unfold cvcLeft
    simp only []
    split
    · exact ⟨hF', s1, fun _ => by rw [hvc']; exact Reach.refl _ _⟩
    · rename_i nx hsw
      split
      · exact ⟨hF', s1, fun _ => by rw [hvc']; exact Reach.refl _ _⟩
      · obtain ⟨h1, h2, h3⟩ := swingLeftA_facts hn hopp hsw
        have hl' : LabelOK ctv0 numOrig (markL v nm st act) v nm p := by
          unfold LabelOK; rw [s2]; exact hl
        have hpre' : ∀ c', (markL v nm st act).visitedC.getD c' false = true →
            vget (markL v nm st act).ctv c' = v → Reach opp (some nx) c' := by
          intro c' hc' hlc'
          have := hF'.reach c' hc'
          rw [hlc', hvc'] at this
          exact Reach.step h3 this
        obtain ⟨r1, r2, r3⟩ := ih nx (markL v nm st act) hV' hF' h1 (by rw [h2, hp]) hl'
          (by rw [s3]; exact hv) (by rw [s1]; exact hvv) hpre'
        refine ⟨r1, by rw [r2, s1], fun _ => ?_⟩
        cases fuel with
        | zero => simp only [cvcLeft]; rw [hvc']; exact Reach.refl _ _
        | succ fuel => exact Reach.forward (r3 (Nat.succ_pos _)) h3

theorem cvcLeft_vc_size (c v : Nat) (nm : Bool) :
    ∀ (fuel act : Nat) (st : VCState),
      (cvcLeft opp c v nm fuel act st).1.vc.size = st.vc.size := by
  intro fuel
  induction fuel with
  | zero => intro act st; simp [cvcLeft]
  | succ fuel ih =>
    intro act st
    unfold cvcLeft
    simp only []
    split
    · exact (markL_simple v nm st act).2.2
    · split
      · exact (markL_simple v nm st act).2.2
      · rw [ih]; exact (markL_simple v nm st act).2.2

theorem cvcRight_finv (hn : ctv0.size = 3 * k) (hopp : OppOK ctv0 ctv0.size opp)
    (v : Nat) (nm : Bool) (p : Nat) (hnmp : nm = false → v = p) :
    ∀ (fuel : Nat) (act : Option Nat) (st : VCState), VInv ctv0 numOrig st → FInv opp st →
      (∀ a, act = some a → a < ctv0.size ∧ vget ctv0 a = p ∧ Reach opp (oget st.vc v) a) →
      LabelOK ctv0 numOrig st v nm p → st.visitedV.getD v false = true →
      FInv opp (cvcRight opp v nm fuel act st) := by
  intro fuel
  induction fuel with
  | zero => intro act st _ hF _ _ _; simpa [cvcRight] using hF
  | succ fuel ih =>
    intro act st hV hF hact hl hvv
    cases act with
    | none => simpa [cvcRight] using hF
    | some a =>
      unfold cvcRight
      obtain ⟨ha, hp, hre⟩ := hact a rfl
      have hlab : nm = false → st.visitedC.getD a false = false → vget st.ctv a = v := by
        intro h1 h2
        rw [hV.unvisited a h2, hp, hnmp h1]
      have hF' := markR_finv (opp := opp) v nm a hV hF ha hvv hlab hre
      have hV' := markR_inv v nm a hV ha (by rw [hp]; exact hl)
      obtain ⟨s1, s2, s3⟩ := markR_simple v nm st a
      refine ih (swingRightA opp a) (markR v nm st a) hV' hF' ?_ (by unfold LabelOK; rw [s2]; exact hl)
        (by rw [s1]; exact hvv)
      intro b hb
      obtain ⟨h1, h2, _⟩ := swingRightA_facts hn hopp hb
      exact ⟨h1, by rw [h2, hp], by rw [s3]; exact Reach.forward hre hb⟩

theorem cvcLeft_zero_flag (c v : Nat) (nm : Bool) (act : Nat) (st : VCState) :
    (cvcLeft opp c v nm 0 act st).2 = false := by simp [cvcLeft]

theorem cvcCorner_finv (hn : ctv0.size = 3 * k) (hopp : OppOK ctv0 ctv0.size opp)
    (fuel : Nat) (st : VCState) (c : Nat) (hc : c < ctv0.size)
    (hV : VInv ctv0 numOrig st) (hF : FInv opp st) : FInv opp (cvcCorner opp fuel st c) := by
  unfold cvcCorner
  split
  · exact hF
  · rename_i hvis
    have hvis : st.visitedC.getD c false = false := by simpa using hvis
    have hv0 : vget st.ctv c = vget ctv0 c := hV.unvisited c hvis
    have hv0lt : vget st.ctv c < st.vc.size := by rw [hV.size_vc]; exact (hV.parent c hc).1
    simp only []
    generalize hnm : st.visitedV.getD (vget st.ctv c) false = nm
    generalize hv : (if nm = true then st.vc.size else vget st.ctv c) = v
    generalize hst1 : ({ (if nm = true then
          { st with vc := st.vc.push none, parents := st.parents.push (vget st.ctv c),
                    visitedV := st.visitedV.push false }
        else st) with
        visitedV := (if nm = true then
          { st with vc := st.vc.push none, parents := st.parents.push (vget st.ctv c),
                    visitedV := st.visitedV.push false }
        else st).visitedV.setIfInBounds v true } : VCState) = st1
    -- facts about the prepared state (same derivation as in `cvcCorner_inv`)
    have hprep : VInv ctv0 numOrig st1 ∧ LabelOK ctv0 numOrig st1 v nm (vget ctv0 c) ∧
        FInv opp st1 ∧ v < st1.vc.size ∧ st1.visitedV.getD v false = true ∧
        (nm = false → v = vget ctv0 c) ∧
        (∀ c', st1.visitedC.getD c' false = true → vget st1.ctv c' ≠ v) := by
      subst hst1
      subst hv
      cases nm with
      | false =>
        simp only [Bool.false_eq_true, if_false]
        have hvv : (st.visitedV.setIfInBounds (vget st.ctv c) true).getD (vget st.ctv c) false = true := by
          rw [bget_set]; simp [hF.size_vv, hv0lt]
        refine ⟨⟨hV.size_ctv, hV.size_visC, hV.size_vc, hV.parent, hV.unvisited⟩, ?_,
          ⟨?_, hF.reach, ?_⟩, hv0lt, hvv, fun _ => hv0, ?_⟩
        · intro hf; cases hf
        · simp only [Array.size_setIfInBounds]; exact hF.size_vv
        · intro c' hc'
          simp only [] at hc' ⊢
          rw [bget_set]
          split
          · rfl
          · exact hF.vvis c' hc'
        · intro c' hc' hl
          have := hF.vvis c' hc'
          rw [hl, hnm] at this
          cases this
      | true =>
        simp only [↓reduceIte]
        have hvv : ((st.visitedV.push false).setIfInBounds st.vc.size true).getD st.vc.size false = true := by
          rw [bget_set]; simp [hF.size_vv]
        refine ⟨⟨hV.size_ctv, hV.size_visC, ?_, ?_, hV.unvisited⟩, ?_, ⟨?_, ?_, ?_⟩, ?_, hvv, ?_, ?_⟩
        · simp only [Array.size_push]; rw [hV.size_vc]; omega
        · intro c' hc'
          obtain ⟨h1, h2⟩ := hV.parent c' hc'
          simp only [Array.size_push]
          refine ⟨by omega, ?_⟩
          unfold vparent at h2 ⊢
          split
          · rename_i hlt; simp only [hlt, if_true] at h2; exact h2
          · rename_i hlt
            simp only [hlt, if_false] at h2
            rw [vget_push_lt _ _ _ (by omega)]; exact h2
        · intro _
          refine ⟨?_, ?_⟩
          · simp only [Array.size_push]; rw [hV.size_vc]; omega
          · unfold vparent
            rw [hV.size_vc]
            have : ¬ (numOrig + st.parents.size < numOrig) := by omega
            simp only [this, if_false]
            have : numOrig + st.parents.size - numOrig = st.parents.size := by omega
            rw [this, vget_push_eq, hv0]
        · simp only [Array.size_setIfInBounds, Array.size_push]; rw [hF.size_vv]
        · intro c' hc'
          simp only [] at hc' ⊢
          rw [oget_push_none]
          exact hF.reach c' hc'
        · intro c' hc'
          simp only [] at hc' ⊢
          rw [bget_set]
          split
          · rfl
          · rw [bget_push_false]; exact hF.vvis c' hc'
        · simp only [Array.size_push]; omega
        · intro hf; cases hf
        · intro c' hc' hl
          have hc'lt : c' < ctv0.size := by have := bget_lt hc'; rw [hV.size_visC] at this; exact this
          have := (hV.parent c' hc'lt).1
          rw [hl, hV.size_vc] at this
          exact Nat.lt_irrefl _ this
    obtain ⟨hV1, hlab1, hF1, hvlt, hvv1, hnmp, hfresh⟩ := hprep
    cases fuel with
    | zero =>
      simp only [cvcLeft]
      exact hF1
    | succ fuel =>
      have hL := cvcLeft_finv (numOrig := numOrig) hn hopp c v nm (vget ctv0 c) hnmp (fuel + 1) c st1
        hV1 hF1 hc rfl hlab1 hvlt hvv1 (fun c' h1 h2 => absurd h2 (hfresh c' h1))
      have hLV := cvcLeft_inv numOrig hn hopp c v nm (vget ctv0 c) (fuel + 1) c st1 hV1 hc rfl hlab1
      split
      · refine cvcRight_finv (numOrig := numOrig) hn hopp v nm (vget ctv0 c) hnmp _ _ _ hLV.1 hL.1 ?_ ?_ ?_
        · intro a ha
          obtain ⟨h1, h2, _⟩ := swingRightA_facts hn hopp ha
          exact ⟨h1, h2, Reach.forward (hL.2.2 (Nat.succ_pos _)) ha⟩
        · unfold LabelOK; rw [hLV.2]; exact hlab1
        · rw [hL.2.1]; exact hvv1
      · exact hL.1

end walks

/-! ### all corners of non-degenerate faces get visited -/

/-- the visited-corner marks only grow -/
def VisLe (st st' : VCState) : Prop :=
  ∀ c, st.visitedC.getD c false = true → st'.visitedC.getD c false = true

theorem VisLe.refl (st : VCState) : VisLe st st := fun _ h => h
theorem VisLe.trans {a b c : VCState} (h1 : VisLe a b) (h2 : VisLe b c) : VisLe a c :=
  fun x h => h2 x (h1 x h)

theorem bget_set_true_mono (a : Array Bool) (i c : Nat) (h : a.getD c false = true) :
    (a.setIfInBounds i true).getD c false = true := by
  rw [bget_set]; split
  · rfl
  · exact h

theorem markL_visLe (v : Nat) (nm : Bool) (st : VCState) (act : Nat) : VisLe st (markL v nm st act) :=
  fun c h => by simp only [markL_eq]; exact bget_set_true_mono _ _ _ h

theorem markR_visLe (v : Nat) (nm : Bool) (st : VCState) (act : Nat) : VisLe st (markR v nm st act) :=
  fun c h => by simp only [markR_eq]; exact bget_set_true_mono _ _ _ h

theorem cvcLeft_visLe (opp : Array (Option Nat)) (c v : Nat) (nm : Bool) :
    ∀ (fuel act : Nat) (st : VCState), VisLe st (cvcLeft opp c v nm fuel act st).1 ∧
      (0 < fuel → act < st.visitedC.size → (cvcLeft opp c v nm fuel act st).1.visitedC.getD act false = true) := by
  intro fuel
  induction fuel with
  | zero => intro act st; exact ⟨by simp [cvcLeft]; exact VisLe.refl _, fun h => absurd h (Nat.lt_irrefl 0)⟩
  | succ fuel ih =>
    intro act st
    have hm : act < st.visitedC.size → (markL v nm st act).visitedC.getD act false = true := by
      intro h; simp only [markL_eq]; rw [bget_set]; simp [h]
    unfold cvcLeft
    simp only []
    split
    · exact ⟨markL_visLe _ _ _ _, fun _ h => hm h⟩
    · split
      · exact ⟨markL_visLe _ _ _ _, fun _ h => hm h⟩
      · obtain ⟨h1, _⟩ := ih _ (markL v nm st act)
        exact ⟨(markL_visLe _ _ _ _).trans h1, fun _ h => h1 _ (hm h)⟩

theorem cvcRight_visLe (opp : Array (Option Nat)) (v : Nat) (nm : Bool) :
    ∀ (fuel : Nat) (act : Option Nat) (st : VCState), VisLe st (cvcRight opp v nm fuel act st) := by
  intro fuel
  induction fuel with
  | zero => intro act st; simp [cvcRight]; exact VisLe.refl _
  | succ fuel ih =>
    intro act st
    cases act with
    | none => simp [cvcRight]; exact VisLe.refl _
    | some a =>
      unfold cvcRight
      exact (markR_visLe _ _ _ _).trans (ih _ _)

theorem cvcCorner_visLe (opp : Array (Option Nat)) (fuel : Nat) (st : VCState) (c : Nat) :
    VisLe st (cvcCorner opp fuel st c) ∧
    (0 < fuel → c < st.visitedC.size → (cvcCorner opp fuel st c).visitedC.getD c false = true) := by
  unfold cvcCorner
  split
  · rename_i h
    exact ⟨VisLe.refl _, fun _ _ => h⟩
  · simp only []
    generalize st.visitedV.getD (vget st.ctv c) false = nm
    generalize (if nm = true then st.vc.size else vget st.ctv c) = v
    generalize hst1 : ({ (if nm = true then
          { st with vc := st.vc.push none, parents := st.parents.push (vget st.ctv c),
                    visitedV := st.visitedV.push false }
        else st) with
        visitedV := (if nm = true then
          { st with vc := st.vc.push none, parents := st.parents.push (vget st.ctv c),
                    visitedV := st.visitedV.push false }
        else st).visitedV.setIfInBounds v true } : VCState) = st1
    have h1 : st1.visitedC = st.visitedC := by
      subst hst1; split <;> rfl
    have hle1 : VisLe st st1 := fun x hx => by rw [h1]; exact hx
    obtain ⟨hL, hLc⟩ := cvcLeft_visLe opp c v nm fuel c st1
    split
    · have hR := cvcRight_visLe opp v nm fuel (swingRightA opp c) (cvcLeft opp c v nm fuel c st1).1
      exact ⟨hle1.trans (hL.trans hR), fun hf hc => hR _ (hLc hf (by rw [h1]; exact hc))⟩
    · exact ⟨hle1.trans hL, fun hf hc => hLc hf (by rw [h1]; exact hc)⟩

theorem cvcCorner_size_visC {ctv0 : Array Nat} {opp : Array (Option Nat)} {k numOrig : Nat}
    (hn : ctv0.size = 3 * k) (hopp : OppOK ctv0 ctv0.size opp) (fuel : Nat) (st : VCState) (c : Nat)
    (hc : c < ctv0.size) (hV : VInv ctv0 numOrig st) :
    (cvcCorner opp fuel st c).visitedC.size = ctv0.size :=
  (cvcCorner_inv numOrig hn hopp fuel st c hc hV).size_visC

/-- ctv-degenerate (current labels) implies input-degenerate -/
theorem isDegenA_of_vinv {ctv0 : Array Nat} {numOrig : Nat} {st : VCState} (hV : VInv ctv0 numOrig st)
    (f : Nat) (hf : 3 * f + 2 < ctv0.size) (h : isDegenA st.ctv f = true) : isDegenA ctv0 f = true := by
  simp only [isDegenA, Bool.or_eq_true, beq_iff_eq] at h ⊢
  have e0 := (hV.parent (3 * f) (by omega)).2
  have e1 := (hV.parent (3 * f + 1) (by omega)).2
  have e2 := (hV.parent (3 * f + 2) (by omega)).2
  rcases h with (h | h) | h
  · left; left; rw [← e0, ← e1, h]
  · left; right; rw [← e0, ← e2, h]
  · right; rw [← e1, ← e2, h]

/-- combined invariant of the face loop -/
structure CInv (ctv0 : Array Nat) (opp : Array (Option Nat)) (numOrig : Nat) (m : Nat) (st : VCState) : Prop where
  vinv : VInv ctv0 numOrig st
  finv : FInv opp st
  done : ∀ c, c < 3 * m → isDegenA ctv0 (c / 3) = false → st.visitedC.getD c false = true

theorem cvcFace_cinv {ctv0 : Array Nat} {opp : Array (Option Nat)} {k numOrig : Nat}
    (hn : ctv0.size = 3 * k) (hopp : OppOK ctv0 ctv0.size opp) (fuel : Nat) (hfuel : 0 < fuel)
    (st : VCState) (f : Nat) (hf : f < ctv0.size / 3) (h : CInv ctv0 opp numOrig f st) :
    CInv ctv0 opp numOrig (f + 1) (cvcFace opp fuel st f) := by
  unfold cvcFace
  split
  · rename_i hdeg
    have hd0 := isDegenA_of_vinv h.vinv f (by omega) hdeg
    refine ⟨h.vinv, h.finv, ?_⟩
    intro c hc hnd
    by_cases hcf : c < 3 * f
    · exact h.done c hcf hnd
    · have : c / 3 = f := by omega
      rw [this, hd0] at hnd
      cases hnd
  · have hV0 := h.vinv
    have hc0 : 3 * f < ctv0.size := by omega
    have hc1 : 3 * f + 1 < ctv0.size := by omega
    have hc2 : 3 * f + 2 < ctv0.size := by omega
    have hV1 := cvcCorner_inv numOrig hn hopp fuel st _ hc0 hV0
    have hF1 := cvcCorner_finv hn hopp fuel st _ hc0 hV0 h.finv
    have hV2 := cvcCorner_inv numOrig hn hopp fuel _ _ hc1 hV1
    have hF2 := cvcCorner_finv hn hopp fuel _ _ hc1 hV1 hF1
    have hV3 := cvcCorner_inv numOrig hn hopp fuel _ _ hc2 hV2
    have hF3 := cvcCorner_finv hn hopp fuel _ _ hc2 hV2 hF2
    obtain ⟨l1, m1⟩ := cvcCorner_visLe opp fuel st (3 * f)
    obtain ⟨l2, m2⟩ := cvcCorner_visLe opp fuel (cvcCorner opp fuel st (3 * f)) (3 * f + 1)
    obtain ⟨l3, m3⟩ := cvcCorner_visLe opp fuel
      (cvcCorner opp fuel (cvcCorner opp fuel st (3 * f)) (3 * f + 1)) (3 * f + 2)
    refine ⟨hV3, hF3, ?_⟩
    intro c hc hnd
    by_cases hcf : c < 3 * f
    · exact l3 _ (l2 _ (l1 _ (h.done c hcf hnd)))
    · have hcases : c = 3 * f ∨ c = 3 * f + 1 ∨ c = 3 * f + 2 := by omega
      rcases hcases with hc' | hc' | hc'
      · subst hc'; exact l3 _ (l2 _ (m1 hfuel (by rw [hV0.size_visC]; exact hc0)))
      · subst hc'; exact l3 _ (m2 hfuel (by rw [hV1.size_visC]; exact hc1))
      · subst hc'; exact m3 hfuel (by rw [hV2.size_visC]; exact hc2)

theorem computeVertexCornersF_cinv {ctv0 : Array Nat} {opp : Array (Option Nat)} {k : Nat}
    (hn : ctv0.size = 3 * k) (hopp : OppOK ctv0 ctv0.size opp) (fuel : Nat) (hfuel : 0 < fuel) :
    CInv ctv0 opp (numVerticesOf ctv0) (ctv0.size / 3)
      (computeVertexCornersF ctv0 opp (numVerticesOf ctv0) fuel) := by
  unfold computeVertexCornersF
  apply foldl_range_inv (fun m st => CInv ctv0 opp (numVerticesOf ctv0) m st)
  · refine ⟨?_, ⟨by simp, ?_, ?_⟩, fun c hc => by omega⟩
    · -- the initial state satisfies `VInv` (as in `computeVertexCornersF_inv`)
      refine ⟨rfl, by simp, by simp, ?_, fun c _ => rfl⟩
      intro c hc
      have := vget_lt_numVerticesOf ctv0 c hc
      simp only [Array.size_empty, Nat.add_zero]
      refine ⟨this, ?_⟩
      unfold vparent; simp [this]
    · intro c hc
      simp only [Array.getD_eq_getD_getElem?, Array.getElem?_replicate] at hc
      split at hc <;> simp at hc
    · intro c hc
      simp only [Array.getD_eq_getD_getElem?, Array.getElem?_replicate] at hc
      split at hc <;> simp at hc
  · intro i hi s hs
    exact cvcFace_cinv hn hopp fuel hfuel s i hi hs

end Draco
