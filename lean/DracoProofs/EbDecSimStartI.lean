import DracoProofs.EbDecSimI
import DracoProofs.EbDecSimMain
import DracoProofs.EbDecSimStart
import DracoProofs.EbConnGlue
/-
  INTERIOR START FACES, decoder side, monadic part: `Eb.connStart` on the start-face flags of a `TraceI` computes the
  tables of the pure run `StI` (DracoProofs/EbDecSimI.lean).
-/
namespace Draco.EbEnc.DecSim
open Draco Draco.EbEnc
open Draco.Eb (inv connStart connCompact connLoop connMain ConnMain ConnStart ConnIn ConnOut Trav R decodeSymbolStd)
open Draco.EbEnc.ConnTri (RdS bind_forIn_total FSt Dd)
open Draco.EbEnc.EncCounts (nextC_cf prevC_cf nextC_div3 prevC_div3 inv_eq prevC_lt_inv)
open Draco.EbEnc.Coverage (TblOK)
set_option linter.unusedSimpArgs false

/-- `connStart` = (components tag), start-face loop, final check: the loop body, the two initial states and the
    continuation, named -/
abbrev DecompS (ci : ConnIn) (tr : Trav) (m : ConnMain) :=
  { p : (Nat → FSt → R (ForInStep FSt)) × FSt × FSt × (FSt → R ConnStart) //
      connStart ci tr m = if m.stack.size > 1 then (forIn [0:m.stack.size] p.2.1 p.1 >>= p.2.2.2)
        else (forIn [0:m.stack.size] p.2.2.1 p.1 >>= p.2.2.2) }

set_option maxRecDepth 100000 in
noncomputable def decompS (ci : ConnIn) (tr : Trav) (m : ConnMain) : DecompS ci tr m := by
  refine ⟨(?f, ?init1, ?init2, ?tail), ?eq⟩
  case eq =>
    unfold connStart
    dsimp only
    exact rfl

set_option maxRecDepth 100000 in
set_option maxHeartbeats 2000000 in
/-- the loop body on an `interior` start-face bit, on a generic state -/
theorem bodyS_I (ci : ConnIn) (tr : Trav) (m : ConnMain) (hleg : tr.legacy = false) (k : Nat) (s : DS) (hvc : m.vc = s.vc)
    (i tg : Nat) (sf : RAnsBitDec) (sfb : BitReader) (bits : List Bool) (hbit : sf.nextBit.1 = true)
    (hst : 0 < s.stack.size) (hnf : i < ci.numFaces)
    (hcs : 3 * i + 2 < s.c2v.size) (hos : s.opp.size = s.c2v.size) (hsz : s.c2v.size ≤ 4294967295) (hhs : s.vc.size ≤ s.hole.size)
    (ha : s.stack.back! < 3 * i) (hna : Eb.nextC s.stack.back! < 3 * i) (hvN : s.c2v[Eb.nextC s.stack.back!]! < s.vc.size)
    (hb : Eb.nextC s.vc[s.c2v[Eb.nextC s.stack.back!]!]! < 3 * i) (hnb : Eb.nextC (Eb.nextC s.vc[s.c2v[Eb.nextC s.stack.back!]!]!) < 3 * i) (hvX : s.c2v[Eb.nextC (Eb.nextC s.vc[s.c2v[Eb.nextC s.stack.back!]!]!)]! < s.vc.size)
    (hc : Eb.nextC s.vc[s.c2v[Eb.nextC (Eb.nextC s.vc[s.c2v[Eb.nextC s.stack.back!]!]!)]!]! < 3 * i) (hnc : Eb.nextC (Eb.nextC s.vc[s.c2v[Eb.nextC (Eb.nextC s.vc[s.c2v[Eb.nextC s.stack.back!]!]!)]!]!) < 3 * i) (hvP : s.c2v[Eb.nextC (Eb.nextC s.vc[s.c2v[Eb.nextC (Eb.nextC s.vc[s.c2v[Eb.nextC s.stack.back!]!]!)]!]!)]! < s.vc.size)
    (hab : s.stack.back! ≠ Eb.nextC s.vc[s.c2v[Eb.nextC s.stack.back!]!]!) (hac : s.stack.back! ≠ Eb.nextC s.vc[s.c2v[Eb.nextC (Eb.nextC s.vc[s.c2v[Eb.nextC s.stack.back!]!]!)]!]!) (hbc : Eb.nextC s.vc[s.c2v[Eb.nextC s.stack.back!]!]! ≠ Eb.nextC s.vc[s.c2v[Eb.nextC (Eb.nextC s.vc[s.c2v[Eb.nextC s.stack.back!]!]!)]!]!)
    (hoa : s.opp[s.stack.back!]! = 4294967295) (hob : s.opp[Eb.nextC s.vc[s.c2v[Eb.nextC s.stack.back!]!]!]! = 4294967295) (hoc : s.opp[Eb.nextC s.vc[s.c2v[Eb.nextC (Eb.nextC s.vc[s.c2v[Eb.nextC s.stack.back!]!]!)]!]!]! = 4294967295) :
    (decompS ci tr m).1.1 k (s.c2v, s.opp, s.hole, s.stack, i, tg, sf, sfb, bits) =
      .ok (.yield ((stepI i s).c2v, (stepI i s).opp, (stepI i s).hole, (stepI i s).stack, i + 1, tg ||| Eb.tg_start_interior,
        sf.nextBit.2, sfb, true :: bits)) := by
  have hne : ¬ s.stack = #[] := by intro e; rw [e] at hst; simp at hst
  have hemp : s.stack.isEmpty = false := by rw [Array.isEmpty_eq_false_iff]; exact hne
  have hnf' : ¬ (ci.numFaces ≤ i) := by omega
  have h0 : 3 * i < s.c2v.size := by omega
  have h1 : 3 * i + 1 < s.c2v.size := by omega
  have h0' : 3 * i < s.opp.size := by omega
  have h1' : 3 * i + 1 < s.opp.size := by omega
  have h2' : 3 * i + 2 < s.opp.size := by omega
  have ha1 : s.stack.back! < s.opp.size := by omega
  have hb1 : Eb.nextC s.vc[s.c2v[Eb.nextC s.stack.back!]!]! < s.opp.size := by omega
  have hc1 : Eb.nextC s.vc[s.c2v[Eb.nextC (Eb.nextC s.vc[s.c2v[Eb.nextC s.stack.back!]!]!)]!]! < s.opp.size := by omega
  have ha2 : s.stack.back! ≠ 4294967295 := by omega
  have hb2 : Eb.nextC s.vc[s.c2v[Eb.nextC s.stack.back!]!]! ≠ 4294967295 := by omega
  have hc2 : Eb.nextC s.vc[s.c2v[Eb.nextC (Eb.nextC s.vc[s.c2v[Eb.nextC s.stack.back!]!]!)]!]! ≠ 4294967295 := by omega
  have hna1 : Eb.nextC s.stack.back! < s.c2v.size := by omega
  have hnb1 : Eb.nextC (Eb.nextC s.vc[s.c2v[Eb.nextC s.stack.back!]!]!) < s.c2v.size := by omega
  have hnc1 : Eb.nextC (Eb.nextC s.vc[s.c2v[Eb.nextC (Eb.nextC s.vc[s.c2v[Eb.nextC s.stack.back!]!]!)]!]!) < s.c2v.size := by omega
  have hna2 : Eb.nextC s.stack.back! ≠ 4294967295 := by omega
  have hnb2 : Eb.nextC (Eb.nextC s.vc[s.c2v[Eb.nextC s.stack.back!]!]!) ≠ 4294967295 := by omega
  have hnc2 : Eb.nextC (Eb.nextC s.vc[s.c2v[Eb.nextC (Eb.nextC s.vc[s.c2v[Eb.nextC s.stack.back!]!]!)]!]!) ≠ 4294967295 := by omega
  have hvN1 : s.c2v[Eb.nextC s.stack.back!]! < s.hole.size := by omega
  have hvX1 : s.c2v[Eb.nextC (Eb.nextC s.vc[s.c2v[Eb.nextC s.stack.back!]!]!)]! < s.hole.size := by omega
  have hvP1 : s.c2v[Eb.nextC (Eb.nextC s.vc[s.c2v[Eb.nextC (Eb.nextC s.vc[s.c2v[Eb.nextC s.stack.back!]!]!)]!]!)]! < s.hole.size := by omega
  have e1 : ¬ 3 * i = s.stack.back! := by omega
  have e2 : ¬ 3 * i = Eb.nextC s.vc[s.c2v[Eb.nextC s.stack.back!]!]! := by omega
  have e3 : ¬ 3 * i = Eb.nextC s.vc[s.c2v[Eb.nextC (Eb.nextC s.vc[s.c2v[Eb.nextC s.stack.back!]!]!)]!]! := by omega
  have e4 : ¬ 3 * i + 1 = s.stack.back! := by omega
  have e5 : ¬ 3 * i + 1 = Eb.nextC s.vc[s.c2v[Eb.nextC s.stack.back!]!]! := by omega
  have e6 : ¬ 3 * i + 1 = Eb.nextC s.vc[s.c2v[Eb.nextC (Eb.nextC s.vc[s.c2v[Eb.nextC s.stack.back!]!]!)]!]! := by omega
  have e7 : ¬ Eb.nextC s.vc[s.c2v[Eb.nextC s.stack.back!]!]! = s.stack.back! := fun e => hab e.symm
  simp [-getElem!_pos, decompS, hleg, hbit, hemp, hne, hnf', hvc, h0, h1, hcs, h0', h1', h2', ha1, hb1, hc1, ha2, hb2, hc2, hna1, hnb1, hnc1,
    hna2, hnb2, hnc2, hvN, hvX, hvP, hvN1, hvX1, hvP1, hab, hac, hbc, hoa, hob, hoc, e1, e2, e3, e4, e5, e6, e7,
    wr_ok, wrB_ok, vertex_ok, opposite_ok, leftMost_ok, Eb.setOpp, gsI, inv, bind, Except.bind, pure, Except.pure, Eb.raise,
    stepI, glue]

set_option maxRecDepth 100000 in
set_option maxHeartbeats 2000000 in
/-- the loop body on a `boundary` start-face bit -/
theorem bodyS_B (ci : ConnIn) (tr : Trav) (m : ConnMain) (hleg : tr.legacy = false) (k : Nat) (s : DS)
    (i tg : Nat) (sf : RAnsBitDec) (sfb : BitReader) (bits : List Bool) (hbit : sf.nextBit.1 = false) (hst : 0 < s.stack.size) :
    (decompS ci tr m).1.1 k (s.c2v, s.opp, s.hole, s.stack, i, tg, sf, sfb, bits) =
      .ok (.yield ((popS s).c2v, (popS s).opp, (popS s).hole, (popS s).stack, i, tg ||| Eb.tg_start_boundary,
        sf.nextBit.2, sfb, false :: bits)) := by
  have hne : ¬ s.stack = #[] := by intro e; rw [e] at hst; simp at hst
  have hemp : s.stack.isEmpty = false := by rw [Array.isEmpty_eq_false_iff]; exact hne
  simp [decompS, hleg, hbit, hemp, hne, popS, pure, Except.pure]

/-! ## the start phase, prefix form -/

/-- the tables after the first `k` start faces -/
def SK (syms : List Nat) (starts : List (Bool × Nat)) (n maxV : Nat) : Nat → DS
  | 0 => St syms n maxV syms.length
  | k+1 => if starts[k]!.1 = true then stepI (initIndex syms starts k) (SK syms starts n maxV k) else popS (SK syms starts n maxV k)

theorem runStarts_SK (syms : List Nat) (starts : List (Bool × Nat)) (n maxV : Nat) :
    ∀ (m k : Nat), starts.length - k = m → k ≤ starts.length →
      runStarts ((starts.drop k).map (·.1)) (initIndex syms starts k) (SK syms starts n maxV k) = SK syms starts n maxV starts.length := by
  intro m
  induction m with
  | zero =>
    intro k hm hk
    have e : k = starts.length := by omega
    subst e
    rw [List.drop_length]; rfl
  | succ m ih =>
    intro k hm hk
    have hk' : k < starts.length := by omega
    have hge : starts[k]! = starts[k] := getElem!_pos starts k hk'
    have hsucc := initIndex_succ syms starts k hk'
    rw [List.drop_eq_getElem_cons hk', List.map_cons]
    have hS : SK syms starts n maxV (k + 1) = if starts[k]!.1 = true then stepI (initIndex syms starts k) (SK syms starts n maxV k)
        else popS (SK syms starts n maxV k) := rfl
    by_cases hb : starts[k].1 = true
    · rw [hb]
      have hb' : starts[k]!.1 = true := by rw [hge]; exact hb
      rw [if_pos hb'] at hsucc hS
      show runStarts _ (initIndex syms starts k + 1) (stepI _ _) = _
      rw [← hsucc, ← hS]
      exact ih (k + 1) (by omega) (by omega)
    · have hb2 : starts[k].1 = false := by simpa using hb
      rw [hb2]
      have hb' : ¬ starts[k]!.1 = true := by rw [hge]; exact hb
      rw [if_neg hb'] at hsucc hS
      simp only [Nat.add_zero] at hsucc
      show runStarts _ (initIndex syms starts k) (popS _) = _
      rw [← hS]
      have := ih (k + 1) (by omega) (by omega)
      rw [hsucc] at this
      exact this

theorem StI_eq_SK (syms : List Nat) (starts : List (Bool × Nat)) (n maxV : Nat) :
    StI syms starts n maxV = SK syms starts n maxV starts.length := by
  have := runStarts_SK syms starts n maxV starts.length 0 (by omega) (by omega)
  rw [List.drop_zero, initIndex_zero] at this
  exact this

/-- the invariant of the start phase after `k` start faces -/
structure SInv (t : CT) (P : Array Nat) (syms : List Nat) (starts : List (Bool × Nat)) (maxV k : Nat) (s : DS) : Prop where
  o : OInv t P (initIndex syms starts k) s.opp
  v : VInv t P (initIndex syms starts k) s.c2v s.opp s.vc
  stk : s.stack.toList.reverse = (starts.drop k).map (fun x => 3 * x.2)
  vc : s.vc = (St syms P.size maxV syms.length).vc
  hs : s.hole.size = maxV

theorem sinv_SK {t : CT} {P : Array Nat} {syms : List Nat} {starts : List (Bool × Nat)} (hT : TblOK t)
    (hTr : TraceI t P syms starts) (maxV : Nat) :
    ∀ k, k ≤ starts.length → SInv t P syms starts maxV k (SK syms starts P.size maxV k) := by
  have hC := hTr.ctx hT
  have hsz := hTr.size
  intro k
  induction k with
  | zero =>
    intro _
    have hI := inv_St_I hT hTr maxV syms.length (Nat.le_refl _)
    have h0 := initIndex_zero syms starts
    refine ⟨by rw [h0]; exact hI.o, by rw [h0]; exact hI.v, ?_, rfl, St_hole_size _ _ _ _⟩
    show (St syms P.size maxV syms.length).stack.toList.reverse = _
    rw [List.drop_zero, stackEnds_St hT hTr maxV, ← hTr.comps, List.map_map]; rfl
  | succ k ih =>
    intro hk
    have hk' : k < starts.length := by omega
    obtain ⟨hO, hV, hst, hvc, hhs⟩ := ih (by omega)
    have hge : starts[k]! = starts[k] := getElem!_pos starts k hk'
    have hsucc := initIndex_succ syms starts k hk'
    rw [List.drop_eq_getElem_cons hk', List.map_cons] at hst
    obtain ⟨hs0, hback, hpop⟩ := stack_top hst
    have hS : SK syms starts P.size maxV (k + 1) = if starts[k]!.1 = true then stepI (initIndex syms starts k) (SK syms starts P.size maxV k)
        else popS (SK syms starts P.size maxV k) := rfl
    by_cases hb' : starts[k]!.1 = true
    · rw [if_pos hb'] at hsucc hS
      have hIA := hTr.init k hk' hb'
      rw [hge] at hIA
      have hile := initIndex_le syms starts (k + 1)
      have hn : syms.length ≤ initIndex syms starts k := by unfold initIndex; omega
      obtain ⟨l1, l2, hF⟩ := ifacts hC hO hV (by omega) hn hIA
      obtain ⟨hO', hV'⟩ := inv_stepI hC hO hV (by omega) hIA hback hF
      rw [hS]
      exact ⟨by rw [hsucc]; exact hO', by rw [hsucc]; exact hV', hpop, hvc, by simp [stepI, hhs]⟩
    · rw [if_neg hb'] at hsucc hS
      simp only [Nat.add_zero] at hsucc
      rw [hS]
      exact ⟨by rw [hsucc]; exact hO, by rw [hsucc]; exact hV, hpop, hvc, hhs⟩

/-! ## the checks of the interior start face pass -/

/-- the hypotheses of `bodyS_I` -/
structure IGuards (i : Nat) (s : DS) : Prop where
  ha : s.stack.back! < 3 * i
  hna : Eb.nextC s.stack.back! < 3 * i
  hvN : s.c2v[Eb.nextC s.stack.back!]! < s.vc.size
  hb : Eb.nextC s.vc[s.c2v[Eb.nextC s.stack.back!]!]! < 3 * i
  hnb : Eb.nextC (Eb.nextC s.vc[s.c2v[Eb.nextC s.stack.back!]!]!) < 3 * i
  hvX : s.c2v[Eb.nextC (Eb.nextC s.vc[s.c2v[Eb.nextC s.stack.back!]!]!)]! < s.vc.size
  hc : Eb.nextC s.vc[s.c2v[Eb.nextC (Eb.nextC s.vc[s.c2v[Eb.nextC s.stack.back!]!]!)]!]! < 3 * i
  hnc : Eb.nextC (Eb.nextC s.vc[s.c2v[Eb.nextC (Eb.nextC s.vc[s.c2v[Eb.nextC s.stack.back!]!]!)]!]!) < 3 * i
  hvP : s.c2v[Eb.nextC (Eb.nextC s.vc[s.c2v[Eb.nextC (Eb.nextC s.vc[s.c2v[Eb.nextC s.stack.back!]!]!)]!]!)]! < s.vc.size
  hab : s.stack.back! ≠ Eb.nextC s.vc[s.c2v[Eb.nextC s.stack.back!]!]!
  hac : s.stack.back! ≠ Eb.nextC s.vc[s.c2v[Eb.nextC (Eb.nextC s.vc[s.c2v[Eb.nextC s.stack.back!]!]!)]!]!
  hbc : Eb.nextC s.vc[s.c2v[Eb.nextC s.stack.back!]!]! ≠ Eb.nextC s.vc[s.c2v[Eb.nextC (Eb.nextC s.vc[s.c2v[Eb.nextC s.stack.back!]!]!)]!]!
  hoa : s.opp[s.stack.back!]! = 4294967295
  hob : s.opp[Eb.nextC s.vc[s.c2v[Eb.nextC s.stack.back!]!]!]! = 4294967295
  hoc : s.opp[Eb.nextC s.vc[s.c2v[Eb.nextC (Eb.nextC s.vc[s.c2v[Eb.nextC s.stack.back!]!]!)]!]!]! = 4294967295

theorem guards_I {t : CT} {P : Array Nat} (hC : Ctx t P) {i e : Nat} {s : DS} (hV : VInv t P i s.c2v s.opp s.vc) (hi : i < P.size)
    (hA : s.stack.back! = 3 * e) {l1 l2 : Nat} (hF : IFacts t P i e s l1 l2) : IGuards i s := by
  have hinv := hC.fits'
  obtain ⟨heb, hl1, hl2, hB, hvl1, hphiB, hoppB, hCc, hvl2, hphiC, hoppC, hvPA, hoA, hoB, hoC, hAB, hAC, hBC⟩ := hF
  have i3 : 3 * i ≤ inv := by omega
  have hnl1 : Eb.nextC l1 < 3 * i := EncCounts.nextC_lt3 hl1 i3
  have hnnl1 : Eb.nextC (Eb.nextC l1) < 3 * i := EncCounts.nextC_lt3 hnl1 i3
  have hnl2 : Eb.nextC l2 < 3 * i := EncCounts.nextC_lt3 hl2 i3
  have hnnl2 : Eb.nextC (Eb.nextC l2) < 3 * i := EncCounts.nextC_lt3 hnl2 i3
  have hnA : Eb.nextC (3 * e) = 3 * e + 1 := nx0 _ (by omega)
  constructor <;> rw [hA] <;> (try rw [hnA]) <;> (try rw [hB]) <;> (try rw [hCc])
  · omega
  · omega
  · exact hV.vlt _ (by omega)
  · exact hnl1
  · exact hnnl1
  · exact hV.vlt _ hnnl1
  · exact hnl2
  · exact hnnl2
  · exact hV.vlt _ hnnl2
  · exact fun h => hAB h.symm
  · exact fun h => hAC h.symm
  · exact hBC
  · exact hoA
  · exact hoB
  · exact hoC

/-! ## `connStart` computes the start phase -/

/-- the tags after `k` start faces -/
def TgS (t0 : Nat) (starts : List (Bool × Nat)) : Nat → Nat
  | 0 => t0
  | k+1 => TgS t0 starts k ||| (if starts[k]!.1 = true then Eb.tg_start_interior else Eb.tg_start_boundary)

/-- the start-face bits read so far, last first -/
def bitsK (starts : List (Bool × Nat)) (k : Nat) : List Bool := ((starts.take k).map (·.1)).reverse

theorem bitsK_succ (starts : List (Bool × Nat)) (k : Nat) (hk : k < starts.length) :
    bitsK starts (k + 1) = starts[k].1 :: bitsK starts k := by
  unfold bitsK
  rw [List.take_succ_eq_append_getElem hk, List.map_append, List.reverse_append]
  rfl

theorem Dd_succ' (d : RAnsBitDec) : ∀ j, Dd d (j + 1) = Dd d.nextBit.2 j := by
  intro j
  induction j with
  | zero => rfl
  | succ j ihj => simp only [Dd] at ihj ⊢; rw [ihj]

theorem yields_get : ∀ (bs : List Bool) (d : RAnsBitDec), Yields RAnsBitDec.nextBit d bs →
    ∀ k, k < bs.length → (Dd d k).nextBit.1 = bs[k]! := by
  intro bs
  induction bs with
  | nil => intro d _ k hk; simp at hk
  | cons b bs ih =>
    intro d h k hk
    obtain ⟨h1, h2⟩ := h
    cases k with
    | zero =>
      have : (b :: bs)[0]! = b := rfl
      rw [this]; exact h1
    | succ k =>
      rw [Dd_succ']
      have := ih d.nextBit.2 h2 k (by simpa using hk)
      simpa using this

/-- the state of the start-face loop after `k` start faces -/
def GS (syms : List Nat) (starts : List (Bool × Nat)) (n maxV : Nat) (tr : Trav) (t0 k : Nat) : FSt :=
  ((SK syms starts n maxV k).c2v, (SK syms starts n maxV k).opp, (SK syms starts n maxV k).hole, (SK syms starts n maxV k).stack,
    initIndex syms starts k, TgS t0 starts k, Dd tr.startFace k, tr.startFaceBits, bitsK starts k)

/-- the result of `connStart` -/
def startOfI (syms : List Nat) (starts : List (Bool × Nat)) (n maxV t0 : Nat) : ConnStart :=
  { c2v := (StI syms starts n maxV).c2v, opp := (StI syms starts n maxV).opp, hole := (StI syms starts n maxV).hole,
    tags := TgS t0 starts starts.length, startBits := (starts.map (·.1)).reverse }

set_option maxRecDepth 100000 in
set_option maxHeartbeats 2000000 in
theorem loopS {t : CT} {P : Array Nat} {syms : List Nat} {starts : List (Bool × Nat)} (hT : TblOK t)
    (hTr : TraceI t P syms starts) (nv : Nat) (hv : (St syms P.size nv syms.length).vc.size ≤ nv) (tr : Trav)
    (hleg : tr.legacy = false) (hsf : Yields RAnsBitDec.nextBit tr.startFace (starts.map (·.1))) (tg t0 : Nat) :
    (forIn [0:starts.length] (GS syms starts P.size nv tr t0 0)
        (decompS ⟨P.size, nv, syms.length, [], true⟩ tr (mainOfDS (St syms P.size nv syms.length) syms.length tg)).1.1 >>=
      (decompS ⟨P.size, nv, syms.length, [], true⟩ tr (mainOfDS (St syms P.size nv syms.length) syms.length tg)).1.2.2.2) =
      .ok (startOfI syms starts P.size nv t0) := by
  have hC := hTr.ctx hT
  have hfit := hC.fits'
  have hsz := hTr.size
  refine bind_forIn_total starts.length _ _ _ (fun k s => k ≤ starts.length ∧ s = GS syms starts P.size nv tr t0 k) _ ?_ ?_ ?_
  · exact ⟨Nat.zero_le _, rfl⟩
  · intro k s hk hI
    obtain ⟨_, rfl⟩ := hI
    refine ⟨_, ?_, by omega, rfl⟩
    obtain ⟨hO, hV, hst, hvc, hhs⟩ := sinv_SK hT hTr nv k (by omega)
    have hge : starts[k]! = starts[k] := getElem!_pos starts k hk
    have hsucc := initIndex_succ syms starts k hk
    rw [List.drop_eq_getElem_cons hk, List.map_cons] at hst
    obtain ⟨hs0, hback, hpop⟩ := stack_top hst
    have hbit := yields_get _ _ hsf k (by simpa using hk)
    have hbk : (starts.map (·.1))[k]! = starts[k].1 := by
      rw [getElem!_pos _ k (by simpa using hk)]; simp
    rw [hbk] at hbit
    have hS : SK syms starts P.size nv (k + 1) = if starts[k]!.1 = true then stepI (initIndex syms starts k) (SK syms starts P.size nv k)
        else popS (SK syms starts P.size nv k) := rfl
    have hT1 : TgS t0 starts (k + 1) = TgS t0 starts k ||| (if starts[k]!.1 = true then Eb.tg_start_interior else Eb.tg_start_boundary) := rfl
    have hD1 : Dd tr.startFace (k + 1) = (Dd tr.startFace k).nextBit.2 := rfl
    unfold GS
    rw [hS, hT1, hD1, bitsK_succ starts k hk, hsucc]
    by_cases hb' : starts[k]!.1 = true
    · have hb : starts[k].1 = true := by rw [← hge]; exact hb'
      rw [if_pos hb', if_pos hb', if_pos hb', hb]
      rw [hb] at hbit
      have hIA := hTr.init k hk hb'
      rw [hge] at hIA
      have hile := initIndex_le syms starts (k + 1)
      have hsucc1 : initIndex syms starts (k + 1) = initIndex syms starts k + 1 := by rw [hsucc, if_pos hb']
      have hn : syms.length ≤ initIndex syms starts k := by unfold initIndex; omega
      obtain ⟨l1, l2, hF⟩ := ifacts hC hO hV (by omega) hn hIA
      obtain ⟨g1, g2, g3, g4, g5, g6, g7, g8, g9, g10, g11, g12, g13, g14, g15⟩ := guards_I hC hV (by omega) hback hF
      have hvcs : (SK syms starts P.size nv k).vc.size ≤ (SK syms starts P.size nv k).hole.size := by rw [hhs, hvc]; exact hv
      exact bodyS_I _ tr _ hleg k _ hvc.symm _ _ _ _ _ hbit hs0 (by show initIndex syms starts k < P.size; omega)
        (by rw [hV.csize]; omega) (by rw [hO.size, hV.csize]) (by rw [hV.csize]; exact hfit) hvcs
        g1 g2 g3 g4 g5 g6 g7 g8 g9 g10 g11 g12 g13 g14 g15
    · have hb : starts[k].1 = false := by rw [← hge]; simpa using hb'
      rw [if_neg hb', if_neg hb', if_neg hb', hb, Nat.add_zero]
      rw [hb] at hbit
      exact bodyS_B _ tr _ hleg k _ _ _ _ _ _ hbit hs0
  · intro s hs
    obtain ⟨_, rfl⟩ := hs
    have hlen : initIndex syms starts starts.length = P.size := by rw [initIndex_length]; exact hsz
    simp [decompS, GS, hlen, startOfI, StI_eq_SK, bitsK, pure, Except.pure, Eb.raise]

theorem stack_size_St {t : CT} {P : Array Nat} {syms : List Nat} {starts : List (Bool × Nat)} (hT : TblOK t)
    (hTr : TraceI t P syms starts) (nv : Nat) : (St syms P.size nv syms.length).stack.size = starts.length := by
  have h := (sinv_SK hT hTr nv 0 (Nat.zero_le _)).stk
  have := congrArg List.length h
  simpa [SK] using this

set_option maxRecDepth 100000 in
/-- **M5 with interior start faces**: `connStart` on the start-face flags of the trace computes the tables of `StI` -/
theorem connStart_I {t : CT} {P : Array Nat} {syms : List Nat} {starts : List (Bool × Nat)} (hT : TblOK t)
    (hTr : TraceI t P syms starts) (nv : Nat) (hv : (St syms P.size nv syms.length).vc.size ≤ nv) (tr : Trav)
    (hleg : tr.legacy = false) (hsf : Yields RAnsBitDec.nextBit tr.startFace (starts.map (·.1))) (tg : Nat) :
    connStart ⟨P.size, nv, syms.length, [], true⟩ tr (mainOfDS (St syms P.size nv syms.length) syms.length tg) =
      .ok (startOfI syms starts P.size nv (if 1 < starts.length then tg ||| Eb.tg_components_1 else tg)) := by
  rw [(decompS _ tr _).2]
  have hlen : (mainOfDS (St syms P.size nv syms.length) syms.length tg).stack.size = starts.length :=
    stack_size_St hT hTr nv
  simp only [hlen]
  by_cases h : starts.length > 1
  · rw [if_pos h, if_pos h]
    have e : (decompS ⟨P.size, nv, syms.length, [], true⟩ tr (mainOfDS (St syms P.size nv syms.length) syms.length tg)).1.2.1 =
        GS syms starts P.size nv tr (tg ||| Eb.tg_components_1) 0 := rfl
    rw [e]
    exact loopS hT hTr nv hv tr hleg hsf tg _
  · rw [if_neg h, if_neg h]
    have e : (decompS ⟨P.size, nv, syms.length, [], true⟩ tr (mainOfDS (St syms P.size nv syms.length) syms.length tg)).1.2.2.1 =
        GS syms starts P.size nv tr tg 0 := rfl
    rw [e]
    exact loopS hT hTr nv hv tr hleg hsf tg _

/-! ## the symbol loop under `TraceI` -/

theorem nd_phi' {t : CT} {P : Array Nat} {syms : List Nat} (hC : Ctx t P) (n : Nat) (hface : ∀ j, j < n → TraceAt t P syms j) :
    ∀ d, d < 3 * P.size → d / 3 < n → t.c2v[phi P d]! ≠ t.c2v[Eb.prevC (phi P d)]! ∧ t.c2v[Eb.nextC (phi P d)]! ≠ t.c2v[Eb.prevC (phi P d)]! := by
  intro d hd hdn
  have hj : d / 3 < P.size := by omega
  obtain ⟨_, _, ⟨n1, n2, n3⟩, _⟩ := hface (d / 3) hdn
  have hc := hC.p_inv hj
  have e : d = 3 * (d / 3) + d % 3 := by omega
  have h3 : d % 3 = 0 ∨ d % 3 = 1 ∨ d % 3 = 2 := by omega
  rcases h3 with h | h | h
  · rw [e, h, Nat.add_zero, phi_0]; exact ⟨n2, n3⟩
  · rw [e, h, phi_1, Eb.prevC_nextC _ hc, EncCounts.nextC_nextC' _ hc]; exact ⟨fun e => n1 e.symm, fun e => n2 e.symm⟩
  · rw [e, h, phi_2, EncCounts.prevC_prevC' _ hc, Eb.nextC_prevC _ hc]; exact ⟨fun e => n3 e.symm, n1⟩

/-- **the checks of `TOPOLOGY_C`**: the stack is not empty, `corner_a ≠ corner_b`, both are boundary corners of the
    partial table, and the tip vertex differs from the two other vertices of the new face; all indices are in range -/
theorem guards_C' {t : CT} {P : Array Nat} {syms : List Nat} (hC : Ctx t P) (n : Nat) (hface : ∀ j, j < n → TraceAt t P syms j) {j : Nat} {s : DS}
    (hI : Inv t P j s) (hj : j < P.size) (hjn : j < n) (h0 : syms[j]! = 0) :
    0 < s.stack.size ∧ s.stack.back! = 3 * (j - 1) ∧ 0 < j ∧ cornerB s < 3 * j ∧ s.stack.back! ≠ cornerB s ∧
    s.opp[s.stack.back!]! = inv ∧ s.opp[cornerB s]! = inv ∧
    s.c2v[Eb.nextC s.stack.back!]! < s.vc.size ∧
    s.c2v[Eb.nextC s.stack.back!]! ≠ s.c2v[Eb.prevC s.stack.back!]! ∧
    s.c2v[Eb.nextC s.stack.back!]! ≠ s.c2v[Eb.nextC (cornerB s)]! := by
  have hinv := hC.fits'
  obtain ⟨_, hg, _, _, _, _, hCc, _⟩ := hface j hjn
  obtain ⟨hj0, a, m, _, hm, hcl, hEar⟩ := hCc h0
  obtain ⟨l, hF⟩ := hI.cfacts hC hj hj0 (hface (j - 1) (by omega)).2.1 a m hm hcl hEar
  obtain ⟨hs0, hA, hoA, hl, hB, hvl, hphiB, hoppB, hoB, hAB⟩ := hF
  have i3 : 3 * j ≤ inv := by omega
  have hnl : Eb.nextC l < 3 * j := EncCounts.nextC_lt3 hl i3
  have hnnl : Eb.nextC (Eb.nextC l) < 3 * j := EncCounts.nextC_lt3 hnl i3
  rw [hA, hB, nx0 _ (by omega), pv0 _ (by omega)]
  refine ⟨hs0, rfl, hj0, hnl, fun e => hAB e.symm, hoA, hoB, hI.v.vlt _ (by omega), ?_, ?_⟩
  · intro e
    have := hI.v.fine _ _ (by omega) (by omega) e
    rw [phi_1, phi_2] at this
    exact (hface (j - 1) (by omega)).2.2.1.2.2 this
  · intro e
    rw [← hvl] at e
    have := hI.v.fine _ _ hl hnnl e
    have hli : l < inv := by omega
    rw [EncCounts.nextC_nextC' _ hli, phi_prevC P l hli (hC.p_inv (by omega))] at this
    exact (nd_phi' hC n hface l (by omega) (by omega)).1 this

/-- **the checks of `TOPOLOGY_R` / `TOPOLOGY_L`** -/
theorem guards_RL' {t : CT} {P : Array Nat} {syms : List Nat} (hC : Ctx t P) (n : Nat) (hface : ∀ j, j < n → TraceAt t P syms j) {j : Nat} {s : DS}
    (hI : Inv t P j s) (hj : j < P.size) (hjn : j < n) (h : syms[j]! = 5 ∨ syms[j]! = 3) :
    0 < s.stack.size ∧ s.stack.back! = 3 * (j - 1) ∧ 0 < j ∧ s.opp[s.stack.back!]! = inv ∧
    s.c2v[Eb.prevC s.stack.back!]! < s.vc.size ∧ s.vc.size < inv := by
  have hinv := hC.fits'
  obtain ⟨_, _, _, _, hR, hL, _, _⟩ := hface j hjn
  have hj0 : 0 < j := by
    rcases h with h | h
    · exact (hR h).1
    · exact (hL h).1
  obtain ⟨hs0, hA, hoA⟩ := hI.active hC hj hj0 (hface (j - 1) (by omega)).2.1
  rw [hA, pv0 _ (by omega)]
  have := hI.v.vsz
  exact ⟨hs0, rfl, hj0, hoA, hI.v.vlt _ (by omega), by omega⟩


set_option maxRecDepth 100000 in
set_option maxHeartbeats 1000000 in
theorem connMain_I {t : CT} {P : Array Nat} {syms : List Nat} {starts : List (Bool × Nat)} (hT : TblOK t)
    (hTr : TraceI t P syms starts) (nv : Nat) (rm : Bool)
    (hv : (St syms P.size nv syms.length).vc.size ≤ nv) (tr : Trav) (hkind : tr.kind = 0)
    (hsym : ∀ i, i < syms.length → (decodeSymbolStd (RdS tr.sym i)).1 = syms[i]!) :
    connMain ⟨P.size, nv, syms.length, [], rm⟩ tr =
      .ok (mainOfDS (St syms P.size nv syms.length) syms.length (Tg syms syms.length)) := by
  have hC := hTr.ctx hT
  have hfit := hC.fits'
  have hsz := hTr.size
  rw [(decompM _ tr).2]
  refine bind_forIn_total syms.length _ _ _
    (fun j s => j ≤ syms.length ∧ s = mkSt (St syms P.size nv j) syms.length j (RdS tr.sym j) tr (Tg syms j)) _ ?_ ?_ ?_
  · exact ⟨Nat.zero_le _, rfl⟩
  · intro j s hj hI
    obtain ⟨_, rfl⟩ := hI
    refine ⟨_, ?_, by omega, rfl⟩
    have hI := inv_St_I hT hTr nv j (by omega)
    have hjP : j < P.size := by omega
    have hs := hsym j hj
    have hmono := St_vc_mono syms P.size nv (j + 1) syms.length (by omega)
    have hS1 : St syms P.size nv (j + 1) = step syms[j]! j (St syms P.size nv j) := rfl
    have hR1 : RdS tr.sym (j + 1) = (decodeSymbolStd (RdS tr.sym j)).2 := rfl
    have hT1 : Tg syms (j + 1) = Tg syms j ||| symTag syms[j]! := rfl
    rw [hS1] at hmono
    rw [hS1, hR1, hT1]
    have hcs := hI.v.csize
    have hos := hI.o.size
    have hvsz := hI.v.vsz
    have i4 : inv = 4294967295 := rfl
    rcases (hTr.face j hj).2.2.2.2.2.2.2 with h7 | h5 | h3 | h0
    · have e1 : step syms[j]! j (St syms P.size nv j) = stepE j (St syms P.size nv j) := by simp [step, h7]
      have e2 : symTag syms[j]! = 16 := by simp [symTag, h7]
      rw [e1] at hmono
      rw [stepE_vc] at hmono
      rw [e1, e2]
      rw [h7] at hs
      exact body_E _ _ _ _ tr hkind j _ _ _ hs (by omega) (by omega) (by omega)
    · have e1 : step syms[j]! j (St syms P.size nv j) = stepR j (St syms P.size nv j) := by simp [step, h5]
      have e2 : symTag syms[j]! = 8 := by simp [symTag, h5]
      rw [e1] at hmono
      rw [stepR_vc] at hmono
      rw [e1, e2]
      rw [h5] at hs
      obtain ⟨g1, g2, g3, g4, g5, g6⟩ := guards_RL' hC syms.length hTr.face hI hjP hj (Or.inl h5)
      have hn := nx0 (j - 1) (by omega)
      have hp := pv0 (j - 1) (by omega)
      exact body_R _ _ _ _ tr hkind j _ _ _ hs (by omega) (by omega) (by omega) (by omega) (by omega) g1 (by omega)
        (by rw [g2, hn]; omega) (by rw [g2, hp]; omega) g4 g5
    · have e1 : step syms[j]! j (St syms P.size nv j) = stepL j (St syms P.size nv j) := by simp [step, h3]
      have e2 : symTag syms[j]! = 4 := by simp [symTag, h3]
      rw [e1] at hmono
      rw [stepL_vc] at hmono
      rw [e1, e2]
      rw [h3] at hs
      obtain ⟨g1, g2, g3, g4, g5, g6⟩ := guards_RL' hC syms.length hTr.face hI hjP hj (Or.inr h3)
      have hn := nx0 (j - 1) (by omega)
      have hp := pv0 (j - 1) (by omega)
      exact body_L _ _ _ _ tr hkind j _ _ _ hs (by omega) (by omega) (by omega) (by omega) (by omega) g1 (by omega)
        (by rw [g2, hn]; omega) (by rw [g2, hp]; omega) g4 g5
    · have e1 : step syms[j]! j (St syms P.size nv j) = stepC j (St syms P.size nv j) := by simp [step, h0]
      have e2 : symTag syms[j]! = 1 := by simp [symTag, h0]
      rw [e1] at hmono
      rw [stepC_vc] at hmono
      rw [e1, e2]
      rw [h0] at hs
      obtain ⟨g1, g2, g3, g4, g5, g6, g7, g8, g9, g10⟩ := guards_C' hC syms.length hTr.face hI hjP hj h0
      have hn := nx0 (j - 1) (by omega)
      have hp := pv0 (j - 1) (by omega)
      have hhs := St_hole_size syms P.size nv j
      have hvr := hI.v.vlt (Eb.prevC (St syms P.size nv j).stack.back!) (by rw [g2, hp]; omega)
      exact body_C _ _ _ _ tr hkind j _ _ _ hs (by omega) (by omega) (by omega) g1 (by omega)
        (by rw [g2, hn]; omega) (by rw [g2, hp]; omega) g8 (by omega) g4 (EncCounts.nextC_lt3 g4 (by omega)) g5 g6 g7 hvr
        (by omega) g9 g10
  · intro s hs
    obtain ⟨_, rfl⟩ := hs
    have h3 : ¬ (nv < (St syms P.size nv syms.length).vc.size) := by omega
    rw [decompM_tail]
    simp [tailM, mkSt, h3, mainOfDS, pure, Except.pure]


/-! ## `connLoop` with interior start faces -/

/-- the result of `connLoop`, a function of the symbols and the start-face flags only -/
def coOfI (syms : List Nat) (starts : List (Bool × Nat)) (n nv : Nat) : ConnOut :=
  compactOf (mainOfDS (St syms n nv syms.length) syms.length (Tg syms syms.length))
    (startOfI syms starts n nv (if 1 < starts.length then Tg syms syms.length ||| Eb.tg_components_1 else Tg syms syms.length))

theorem coOfI_tables (syms : List Nat) (starts : List (Bool × Nat)) (n nv : Nat) :
    (coOfI syms starts n nv).c2v = (StI syms starts n nv).c2v ∧ (coOfI syms starts n nv).opp = (StI syms starts n nv).opp ∧
    (coOfI syms starts n nv).hole = (StI syms starts n nv).hole ∧ (coOfI syms starts n nv).vc = (St syms n nv syms.length).vc ∧
    (coOfI syms starts n nv).numConnVerts = (St syms n nv syms.length).vc.size ∧
    (coOfI syms starts n nv).startFaces = starts.map (·.1) := by
  refine ⟨rfl, rfl, rfl, rfl, rfl, ?_⟩
  simp [coOfI, compactOf, startOfI]

/-- **M4 + M5 with interior start faces**: on every traversal state that delivers the symbols and the start-face flags of a
    `TraceI`, `connLoop` returns `coOfI`: the tables of the pure run `StI` -/
theorem connLoop_StI {t : CT} {P : Array Nat} {syms : List Nat} {starts : List (Bool × Nat)} (hT : TblOK t)
    (hTr : TraceI t P syms starts) (nv : Nat) (hv : (St syms P.size nv syms.length).vc.size ≤ nv) (tr : Trav)
    (hD : ConnGlue.Delivers tr syms (starts.map (·.1))) :
    connLoop ⟨P.size, nv, syms.length, [], true⟩ tr = .ok (coOfI syms starts P.size nv) := by
  obtain ⟨hkind, hleg, hsym, hsf⟩ := hD
  unfold connLoop
  rw [connMain_I hT hTr nv true hv tr hkind hsym]
  show (connStart _ tr (mainOfDS _ _ _) >>= fun s => connCompact _ (mainOfDS _ _ _) s) = _
  rw [connStart_I hT hTr nv hv tr hleg hsf]
  show connCompact ⟨P.size, nv, syms.length, [], true⟩ (mainOfDS (St syms P.size nv syms.length) syms.length (Tg syms syms.length))
    (startOfI _ _ _ _ _) = _
  rw [connCompact_ok _ _ _ rfl]
  rfl

/-- the decoder half with interior start faces as one statement -/
theorem decsimI {t : CT} {P : Array Nat} {syms : List Nat} {starts : List (Bool × Nat)} (hT : TblOK t)
    (hTr : TraceI t P syms starts) (nv : Nat)
    (hcov : ∀ d, d < 3 * P.size → ∃ k, iter (AttViews.sRP t.opp) k t.vc[t.c2v[phi P d]!]! = phi P d)
    (hvlt : ∀ d, d < 3 * P.size → t.c2v[phi P d]! < t.numVertices)
    (hv : (St syms P.size nv syms.length).vc.size ≤ nv) (tr : Trav)
    (hD : ConnGlue.Delivers tr syms (starts.map (·.1))) :
    ∃ co, connLoop ⟨P.size, nv, syms.length, [], true⟩ tr = .ok co ∧ CTIso t P P.size co.c2v co.opp :=
  ⟨coOfI syms starts P.size nv, connLoop_StI hT hTr nv hv tr hD, ctIso_StI' hT hTr nv hcov hvlt⟩

end Draco.EbEnc.DecSim
