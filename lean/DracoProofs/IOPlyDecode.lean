import DracoProofs.IOPlyBody
/-
  DracoProofs.IOPlyDecode — `PlyDecoder::DecodeVertexData` / `DecodeFaceData` on the parsed items of
  a file written by `PlyEncoder`.
-/
namespace Draco.IO.Ply
open Draco Draco.IO

/-! ### normal form of the vertex property list -/

/-- vertex properties for position type `pdt`, optional float normals and `k` uchar colour
    components (`k = 0`: none) -/
def vprops (pdt : Nat) (hasN : Bool) (k : Nat) : List PProp :=
  scalarProps pdt ["x", "y", "z"] ++ (if hasN then scalarProps dtFLOAT32 ["nx", "ny", "nz"] else []) ++
  scalarProps dtUINT8 (colourNames.take k)

def grp (d : ElemData) (n off k : Nat) : Bytes :=
  interleave ((List.range k).map (fun i => column d (off + i))) n

/-- the attributes `DecodeVertexData` creates for such a vertex element -/
def expAtts (pdt : Nat) (hasN : Bool) (k : Nat) (d : ElemData) (n : Nat) : List Attribute :=
  { attType := tPOSITION, dataType := pdt, numComponents := 3, normalized := false, uniqueId := 0,
    numValues := n, map := none, values := grp d n 0 3 } ::
  ((if hasN then
    [{ attType := tNORMAL, dataType := dtFLOAT32, numComponents := 3, normalized := false, uniqueId := 1,
       numValues := n, map := none, values := grp d n 3 3 }]
   else []) ++
   (if k = 0 then [] else
    [{ attType := tCOLOR, dataType := dtUINT8, numComponents := k, normalized := true,
       uniqueId := 1 + (if hasN then 1 else 0), numValues := n, map := none,
       values := grp d n (if hasN then 6 else 3) k }]))

theorem decodeVertexElem_shape (N : Nat) (hN : N < 2 ^ 31) (d : ElemData) (pdt : Nat)
    (hp : pdt = dtFLOAT32 ∨ pdt = dtINT32) (hasN : Bool) (k : Nat) (hk : k ≤ 4) :
    decodeVertexElem ⟨ascii "vertex", (N : Int), vprops pdt hasN k⟩ d = .ok (N, expAtts pdt hasN k d N) := by
  have hne := numEntries_of_nat (ascii "vertex") N (vprops pdt hasN k) hN
  have h0 : ¬ ((N : Int) < 0) := by omega
  have hk' : k = 0 ∨ k = 1 ∨ k = 2 ∨ k = 3 ∨ k = 4 := by omega
  unfold decodeVertexElem
  simp only [hne, h0, if_false, Int.toNat_natCast]
  rcases hp with rfl | rfl <;> cases hasN <;> rcases hk' with rfl | rfl | rfl | rfl | rfl <;> rfl

/-! ### regrouping the columns -/

theorem interleave_group (E : Nat → List (List Bytes)) (n off k w : Nat) (v : Nat → Bytes)
    (hv : ∀ p, p < n → (v p).length = w * k)
    (hE : ∀ p, p < n → ∀ i, i < k → ((E p).getD (off + i) []).headD [] = (chunks w k (v p)).getD i []) :
    grp ((List.range n).map E) n off k = ((List.range n).map v).flatten := by
  unfold grp interleave
  congr 1
  apply List.map_congr_left
  intro p hp
  have hp' : p < n := by simpa using hp
  rw [List.map_map]
  have : (List.range k).map ((fun c : List Bytes => c.getD p []) ∘ fun i => column ((List.range n).map E) (off + i)) =
      chunks w k (v p) := by
    apply List.ext_getElem?
    intro i
    by_cases hi : i < k
    · simp only [List.getElem?_map, List.getElem?_range hi, Option.map_some, Function.comp]
      have hc : (column ((List.range n).map E) (off + i)).getD p [] = ((E p).getD (off + i) []).headD [] := by
        simp [column, List.getD_eq_getElem?_getD, List.getElem?_map, List.getElem?_range hp']
      rw [hc, hE p hp' i hi, List.getD_eq_getElem?_getD,
        List.getElem?_eq_getElem (by rw [chunks_length]; exact hi)]
      simp
    · rw [List.getElem?_eq_none (by simp; omega), List.getElem?_eq_none (by rw [chunks_length]; omega)]
  rw [this, chunks_flatten w k (v p) (hv p hp')]

theorem getD_map_singleton (L : List Bytes) (i : Nat) (hi : i < L.length) :
    ((L.map (fun x => [x])).getD i []).headD [] = L.getD i [] := by
  simp [List.getD_eq_getElem?_getD, List.getElem?_map, List.getElem?_eq_getElem hi]

theorem getD_append_right' {α : Type} (X Y : List α) (n i : Nat) (d : α) (h : X.length = n) :
    (X ++ Y).getD (n + i) d = Y.getD i d := by
  subst h
  simp [List.getD_eq_getElem?_getD, List.getElem?_append_right]

theorem getD_append_left' {α : Type} (X Y : List α) (i : Nat) (d : α) (h : i < X.length) :
    (X ++ Y).getD i d = X.getD i d := by
  simp [List.getD_eq_getElem?_getD, List.getElem?_append_left h]

/-! ### faces -/

theorem allSome_map_some {α β : Type} (l : List α) (f : α → β) : allSome (l.map (fun x => some (f x))) = some (l.map f) := by
  induction l with
  | nil => rfl
  | cons a as ih => simp [allSome, ih]

theorem findLast_head {α : Type} (p : α → Bool) (x : α) (tail : List α) (hx : p x = true)
    (ht : ∀ y ∈ tail, p y = false) : findLast p (x :: tail) = some x := by
  unfold findLast
  rw [List.reverse_cons, List.find?_append]
  have : tail.reverse.find? p = none := by
    rw [List.find?_eq_none]; intro y hy; simp [ht y (by simpa using hy)]
  rw [this]
  simp [hx]

theorem polygons_flatten (faces : List (Nat × Nat × Nat)) :
    ((faces.map (fun f => [f.1, f.2.1, f.2.2])).map polygonFaces).flatten = faces := by
  induction faces with
  | nil => rfl
  | cons f fs ih =>
    simp only [List.map_cons, List.flatten_cons, ih]
    simp [polygonFaces, fan]

theorem decodeFaces_encoded (s : Sel) (vE : Element) (vd : ElemData) (F : Int) (faces : List (Nat × Nat × Nat))
    (hr : ∀ f ∈ faces, f.1 < 2 ^ 32 ∧ f.2.1 < 2 ^ 32 ∧ f.2.2 < 2 ^ 32) :
    decodeFaces [(vE, vd), (⟨ascii "face", F, faceProps s⟩, faces.map (faceItems s))] = .ok faces := by
  unfold decodeFaces
  have h1 : findLast (fun (ed : Element × ElemData) => ed.1.name == ascii "face")
      [(vE, vd), (⟨ascii "face", F, faceProps s⟩, faces.map (faceItems s))] =
      some (⟨ascii "face", F, faceProps s⟩, faces.map (faceItems s)) := by
    unfold findLast
    simp only [List.reverse_cons, List.reverse_nil, List.nil_append, List.cons_append]
    have : (ascii "face" == ascii "face") = true := by decide
    simp [List.find?]
  rw [h1]
  simp only
  have h2 : propIndex ⟨ascii "face", F, faceProps s⟩ "vertex_indices" =
      some (0, ⟨ascii "vertex_indices", dtINT32, dtUINT8⟩) := by
    unfold faceProps
    cases s.tex <;> rfl
  rw [h2]
  simp only
  have h3 : ¬ (dtUINT8 = 0) := by decide
  rw [if_neg h3]
  have h4 : (faces.map (faceItems s)).map (fun entry => allSome ((entry.getD 0 []).map (toU32 dtINT32))) =
      faces.map (fun f => some [f.1, f.2.1, f.2.2]) := by
    rw [List.map_map]
    apply List.map_congr_left
    intro f hf
    obtain ⟨a1, a2, a3⟩ := hr f hf
    have hv : ∀ a, a < 2 ^ 32 → toU32 dtINT32 (leBytes 4 a) = some a := by
      intro a ha
      have : leVal (leBytes 4 a) = a := by
        rw [leVal_leBytes]; apply Nat.mod_eq_of_lt
        have : (256 : Nat) ^ 4 = 2 ^ 32 := by decide
        omega
      have e : toU32 dtINT32 (leBytes 4 a) = some (leVal (leBytes 4 a)) := rfl
      rw [e, this]
    simp [faceItems, allSome, hv _ a1, hv _ a2, hv _ a3]
  rw [h4, allSome_map_some]
  simp only
  rw [polygons_flatten]

end Draco.IO.Ply

namespace Draco.IO.Ply
open Draco Draco.IO

/-! ### what the encoder supports -/

/-- Geometries for which `PlyEncoder` writes a file `PlyDecoder` reads back with every written
    attribute: float32 or int32 positions with 3 components; float32 normals (3 components, else
    they are not selected); uint8 colours with 1–4 components; for meshes, texture coordinates (2
    components, else not selected) of a nameable type — they are written but never read back. -/
structure Supported (g : Geometry) (s : Sel) : Prop where
  posType : s.pos.dataType = dtFLOAT32 ∨ s.pos.dataType = dtINT32
  posComps : s.pos.numComponents = 3
  nrmType : ∀ n, s.nrm = some n → n.dataType = dtFLOAT32
  colType : ∀ c, s.col = some c → c.dataType = dtUINT8 ∧ 1 ≤ c.numComponents ∧ c.numComponents ≤ 4
  texType : g.isMesh = true → ∀ t, s.tex = some t → ∃ T, typeName t.dataType = some T

theorem Supported.nameable {g : Geometry} {s : Sel} (h : Supported g s) : Nameable g s := by
  refine ⟨?_, ?_, ?_, h.texType⟩
  · rcases h.posType with e | e <;> rw [e] <;> exact ⟨_, rfl⟩
  · intro n hn; rw [h.nrmType n hn]; exact ⟨_, rfl⟩
  · intro c hc; obtain ⟨e, -, h4⟩ := h.colType c hc; rw [e]; exact ⟨⟨_, rfl⟩, h4⟩

/-- membership / shape facts of the selection -/
theorem select_facts (g : Geometry) (s : Sel) (h : select g = some s) :
    s.pos ∈ g.atts ∧ (∀ n, s.nrm = some n → n ∈ g.atts ∧ n.numComponents = 3) ∧
    (∀ c, s.col = some c → c ∈ g.atts) ∧ (∀ t, s.tex = some t → t ∈ g.atts ∧ t.numComponents = 2) := by
  unfold select at h
  cases hp : g.ioNamedAtt tPOSITION with
  | none => rw [hp] at h; cases h
  | some pos =>
    rw [hp] at h
    simp only [Option.some.injEq] at h
    subst h
    refine ⟨(namedAtt_mem g _ pos hp).1, ?_, ?_, ?_⟩
    · intro n hn
      simp only [Option.filter_eq_some_iff] at hn
      exact ⟨(namedAtt_mem g _ n hn.1).1, by simpa using hn.2⟩
    · intro c hc; exact (namedAtt_mem g _ c hc).1
    · intro t ht
      simp only [Option.filter_eq_some_iff] at ht
      exact ⟨(namedAtt_mem g _ t ht.1).1, by simpa using ht.2⟩

theorem take_colour_length (k : Nat) (h : k ≤ 4) : (colourNames.take k).length = k := by
  simp [colourNames]; omega

theorem Supported.shapes {g : Geometry} {s : Sel} (h : Supported g s) (hsel : select g = some s)
    (hvalid : g.valid = true) : Shapes g s := by
  obtain ⟨m1, m2, m3, -⟩ := select_facts g s hsel
  have len : ∀ a ∈ g.atts, ∀ p, p < g.numPoints → (a.ioPointValue p).length = a.stride := by
    intro a ha p hp
    have hok := attsOk_of_valid g hvalid a ha
    exact valueAt_length a hok.stored _ (hok.inRange p hp)
  refine ⟨?_, ?_, ?_⟩
  · intro p hp; rw [len _ m1 p hp]; simp [Attribute.stride, h.posComps]
  · intro n hn p hp; rw [len _ (m2 n hn).1 p hp]; simp [Attribute.stride, (m2 n hn).2]
  · intro c hc p hp
    rw [len _ (m3 c hc) p hp, take_colour_length _ (h.colType c hc).2.2]; rfl

/-! ### the decoded attributes -/

/-- attribute with one value per point: the values of `a` expanded through its point map -/
def flatAtt (ty dt nc : Nat) (nz : Bool) (uid n : Nat) (a : Attribute) : Attribute :=
  { attType := ty, dataType := dt, numComponents := nc, normalized := nz, uniqueId := uid,
    numValues := n, map := none, values := ((List.range n).map a.ioPointValue).flatten }

theorem flatAtt_pointValue (ty dt nc : Nat) (nz : Bool) (uid n : Nat) (a : Attribute)
    (hl : ∀ q, q < n → (a.ioPointValue q).length = dataTypeLength dt * nc) (p : Nat) (hp : p < n) :
    (flatAtt ty dt nc nz uid n a).ioPointValue p = a.ioPointValue p := by
  apply Stl.pointValue_of_flatten _ ((List.range n).map a.ioPointValue) (dataTypeLength dt * nc) rfl rfl rfl
  · intro x hx
    simp only [List.mem_map, List.mem_range] at hx
    obtain ⟨q, hq, rfl⟩ := hx
    exact hl q hq
  · simp [hp]

theorem flatAtt_ok (ty dt nc : Nat) (nz : Bool) (uid n : Nat) (a : Attribute)
    (hl : ∀ q, q < n → (a.ioPointValue q).length = dataTypeLength dt * nc) :
    AttOk (flatAtt ty dt nc nz uid n a) n := by
  refine ⟨?_, by intro m hm; simp [flatAtt] at hm, by intro p hp; simpa [flatAtt, Attribute.ioMappedIndex] using hp⟩
  show n * (dataTypeLength dt * nc) ≤ (((List.range n).map a.ioPointValue).flatten).length
  rw [Stl.flatten_length_of_all (dataTypeLength dt * nc)]
  · simp
  · intro x hx
    simp only [List.mem_map, List.mem_range] at hx
    obtain ⟨q, hq, rfl⟩ := hx
    exact hl q hq

def optFlat (ty nc : Nat) (nz : Bool) (uid n : Nat) : Option Attribute → List Attribute
  | none => []
  | some a => [flatAtt ty a.dataType nc nz uid n a]

/-- the attributes `PlyDecoder` builds from a file written for `(g, s)` -/
def decodedAtts (g : Geometry) (s : Sel) : List Attribute :=
  flatAtt tPOSITION s.pos.dataType 3 false 0 g.numPoints s.pos ::
  (optFlat tNORMAL 3 false 1 g.numPoints s.nrm ++
   (match s.col with
    | none => []
    | some c => [flatAtt tCOLOR dtUINT8 c.numComponents true (1 + s.nrm.toList.length) g.numPoints c]))

def colCount (s : Sel) : Nat :=
  match s.col with
  | none => 0
  | some c => c.numComponents

theorem vertexProps_eq (g : Geometry) (s : Sel) (h : Supported g s) :
    vertexProps s = vprops s.pos.dataType s.nrm.isSome (colCount s) := by
  unfold vertexProps vprops colCount
  congr 1
  · congr 1
    cases hn : s.nrm with
    | none => rfl
    | some n => simp [optProps, h.nrmType n hn]
  · cases hc : s.col with
    | none => simp [optProps, scalarProps]
    | some c => simp [optProps, (h.colType c hc).1]

theorem colCount_le (g : Geometry) (s : Sel) (h : Supported g s) : colCount s ≤ 4 := by
  unfold colCount
  cases hc : s.col with
  | none => simp
  | some c => exact (h.colType c hc).2.2

/-- the three column groups of the parsed vertex data are the per-point attribute values -/
theorem expAtts_eq (g : Geometry) (s : Sel) (h : Supported g s) (hS : Shapes g s) :
    expAtts s.pos.dataType s.nrm.isSome (colCount s) ((List.range g.numPoints).map (vertexItems s)) g.numPoints =
      decodedAtts g s := by
  have wp : dataTypeLength s.pos.dataType = 4 := by
    rcases h.posType with e | e <;> rw [e] <;> rfl
  -- positions
  have gpos : grp ((List.range g.numPoints).map (vertexItems s)) g.numPoints 0 3 =
      ((List.range g.numPoints).map s.pos.ioPointValue).flatten := by
    apply interleave_group (vertexItems s) g.numPoints 0 3 (dataTypeLength s.pos.dataType) s.pos.ioPointValue
      (fun p hp => hS.posLen p hp)
    intro p hp i hi
    unfold vertexItems
    rw [Nat.zero_add, List.append_assoc, getD_append_left' _ _ _ _ (by simp [chunks_length]; exact hi),
      getD_map_singleton _ _ (by rw [chunks_length]; exact hi)]
  unfold expAtts decodedAtts
  congr 1
  · simp [flatAtt, gpos]
  · congr 1
    · -- normals
      cases hn : s.nrm with
      | none => simp [optFlat]
      | some n =>
        have gn : grp ((List.range g.numPoints).map (vertexItems s)) g.numPoints 3 3 =
            ((List.range g.numPoints).map n.ioPointValue).flatten := by
          apply interleave_group (vertexItems s) g.numPoints 3 3 (dataTypeLength n.dataType) n.ioPointValue
            (fun p hp => hS.nrmLen n hn p hp)
          intro p hp i hi
          unfold vertexItems
          rw [List.append_assoc, getD_append_right' _ _ 3 _ _ (by simp [chunks_length]), hn]
          simp only [optChunks]
          rw [getD_append_left' _ _ _ _ (by simp [chunks_length]; exact hi),
            getD_map_singleton _ _ (by rw [chunks_length]; exact hi)]
        simp [optFlat, flatAtt, gn, h.nrmType n hn]
    · -- colours
      unfold colCount
      cases hc : s.col with
      | none => simp
      | some c =>
        obtain ⟨c1, c2, c3⟩ := h.colType c hc
        have hk : (colourNames.take c.numComponents).length = c.numComponents := take_colour_length _ c3
        have hne : ¬ (c.numComponents = 0) := by omega
        have gc : grp ((List.range g.numPoints).map (vertexItems s)) g.numPoints (if s.nrm.isSome = true then 6 else 3)
            c.numComponents = ((List.range g.numPoints).map c.ioPointValue).flatten := by
          apply interleave_group (vertexItems s) g.numPoints _ c.numComponents (dataTypeLength c.dataType)
            c.ioPointValue (fun p hp => by rw [hS.colLen c hc p hp, hk])
          intro p hp i hi
          unfold vertexItems
          have hoff : ((chunks (dataTypeLength s.pos.dataType) 3 (s.pos.ioPointValue p)).map (fun x => [x]) ++
              optChunks s.nrm (fun _ => 3) p).length = (if s.nrm.isSome = true then 6 else 3) := by
            cases hn : s.nrm with
            | none => simp [optChunks, chunks_length]
            | some n => simp [optChunks, chunks_length]
          rw [getD_append_right' _ _ _ _ _ hoff, hc]
          simp only [optChunks, hk]
          rw [getD_map_singleton _ _ (by rw [chunks_length]; exact hi)]
        simp only [hne, if_false]
        cases hn : s.nrm with
        | none =>
          rw [hn] at gc
          simp only [Option.isSome_none, Bool.false_eq_true, if_false] at gc
          simp [flatAtt, gc]
        | some n =>
          rw [hn] at gc
          simp only [Option.isSome_some, if_true] at gc
          simp [flatAtt, gc]

end Draco.IO.Ply
