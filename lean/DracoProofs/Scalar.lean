import DracoModel.Varint
import DracoProofs.Varint
/-
  Helper lemmas for C17 (a): varint length, zig-zag, little endian scalars.
-/
namespace Draco

theorem encVarintFuel_length (b : Nat) : ∀ (f v : Nat), 0 < b → v < 128^b →
    (encVarintFuel f v).length ≤ b := by
  induction b with
  | zero => intro f v h; omega
  | succ b ih =>
    intro f v _ hv
    cases f with
    | zero => simp [encVarintFuel]
    | succ f =>
      simp only [encVarintFuel]
      split
      · rename_i hge
        have hb : 0 < b := by
          rcases Nat.eq_zero_or_pos b with h | h
          · subst h; simp at hv; omega
          · exact h
        have hdiv : v / 128 < 128^b := by
          rw [Nat.div_lt_iff_lt_mul (by decide)]
          rw [Nat.pow_succ] at hv; exact hv
        have := ih f (v/128) hb hdiv
        simp only [List.length_cons]; omega
      · simp

theorem varintMaxDepth_vals : varintMaxDepth 8 = 2 ∧ varintMaxDepth 16 = 3 ∧
    varintMaxDepth 32 = 5 ∧ varintMaxDepth 64 = 10 := by decide

theorem width_cases {w : Nat} (hw : w ∈ [8, 16, 32, 64]) : w = 8 ∨ w = 16 ∨ w = 32 ∨ w = 64 := by
  simpa using hw

theorem pow_bound_depth {w : Nat} (hw : w ∈ [8, 16, 32, 64]) :
    2^w ≤ 128^(varintMaxDepth w) ∧ 0 < varintMaxDepth w ∧ varintMaxDepth w ≤ 11 := by
  rcases width_cases hw with h | h | h | h <;> subst h <;> decide

theorem decVarint_enc {w : Nat} (hw : w ∈ [8, 16, 32, 64]) (v : Nat) (hv : v < 2^w)
    (rest : Bytes) : decVarint w (encVarint v ++ rest) = some (v, rest) := by
  obtain ⟨h1, h2, h3⟩ := pow_bound_depth hw
  exact decVarintAux_enc w rest _ 10 v h2 (Nat.lt_of_lt_of_le hv h1) h3 hv

theorem encVarint_length {w : Nat} (hw : w ∈ [8, 16, 32, 64]) (v : Nat) (hv : v < 2^w) :
    (encVarint v).length ≤ varintMaxDepth w := by
  obtain ⟨h1, h2, _⟩ := pow_bound_depth hw
  exact encVarintFuel_length _ 10 v h2 (Nat.lt_of_lt_of_le hv h1)

theorem two_mul_or_one (n : Nat) : (n * 2) ||| 1 = n * 2 + 1 := by
  have := Nat.shiftLeft_add_eq_or_of_lt (i := 1) (b := 1) (by decide) n
  simp [Nat.shiftLeft_eq] at this
  omega

theorem ofSymbol_toSymbol (w : Nat) (hw : 1 ≤ w) (x : Int)
    (hlo : -(2^(w-1) : Int) ≤ x) (hhi : x < (2^(w-1) : Int)) :
    ofSymbol (toSymbol w x) = x ∧ toSymbol w x < 2^w := by
  have hpow : (2:Nat)^w = 2 * 2^(w-1) := by
    have : w = (w - 1) + 1 := by omega
    rw [this, Nat.pow_succ]; simp; omega
  have hcast : ((2:Int)^(w-1)) = ((2^(w-1) : Nat) : Int) := by simp
  rw [hcast] at hlo hhi
  generalize hP : (2:Nat)^(w-1) = P at *
  unfold toSymbol
  by_cases hx : x ≥ 0
  · simp only [hx, if_true]
    have h1 : x.toNat < P := by omega
    have h2 : (x.toNat * 2) % 2^w = x.toNat * 2 := Nat.mod_eq_of_lt (by omega)
    rw [h2]
    constructor
    · unfold ofSymbol
      have : x.toNat * 2 % 2 = 0 := by omega
      simp only [this, if_true]
      omega
    · omega
  · simp only [hx, if_false]
    have h1 : (-(x+1)).toNat < P := by omega
    have h2 : ((-(x+1)).toNat * 2) % 2^w = (-(x+1)).toNat * 2 := Nat.mod_eq_of_lt (by omega)
    rw [h2, two_mul_or_one]
    constructor
    · unfold ofSymbol
      have : ((-(x+1)).toNat * 2 + 1) % 2 ≠ 0 := by omega
      simp only [this, if_false]
      omega
    · omega

theorem leValue_writeLE (n : Nat) : ∀ v, leValue (writeLE n v) = v % 256^n := by
  induction n with
  | zero => intro v; simp [writeLE, leValue, Nat.mod_one]
  | succ n ih =>
    intro v
    simp only [writeLE, leValue, ih]
    rw [Nat.pow_succ, Nat.mul_comm (256^n) 256, Nat.mod_mul]

theorem writeLE_length (n : Nat) : ∀ v, (writeLE n v).length = n := by
  induction n with
  | zero => intro v; simp [writeLE]
  | succ n ih => intro v; simp [writeLE, ih]

theorem readLE_writeLE (n v : Nat) (rest : Bytes) :
    readLE n (writeLE n v ++ rest) = some (v % 256^n, rest) := by
  unfold readLE readBytes
  have hl := writeLE_length n v
  have : ¬ (writeLE n v ++ rest).length < n := by simp [hl]
  simp only [this, if_false]
  rw [List.take_left' hl, List.drop_left' hl, leValue_writeLE]

theorem writeLE_isBytes (n : Nat) : ∀ v, IsBytes (writeLE n v) := by
  induction n with
  | zero => intro v b hb; simp [writeLE] at hb
  | succ n ih =>
    intro v b hb
    simp only [writeLE, List.mem_cons] at hb
    rcases hb with h | h
    · omega
    · exact ih _ b h

end Draco
