import DracoProofs.EbDecSimS3
import DracoProofs.EbGuardsS
import DracoProofs.EbCompact2
/-
  THE CONNECTIVITY LINK WITH S SYMBOLS AND TOPOLOGY SPLIT EVENTS (boundary start faces), assembled from its parts, with the
  annulus instance (the model's own run, one genuine split event) end to end at the stream level.
-/
namespace Draco.EbEnc.WithSLink
open Draco Draco.EbEnc Draco.SeqEnc DecM
open Draco.Eb hiding iabs nextC prevC
open Draco.EbEnc.DecSim Draco.EbEnc.Compact Draco.EbEnc.ConnExample

/-- the annulus, end to end: `Runs decodeConnectivity` on the encoder's own bytes, and the decoded table is isomorphic to
    the encoder's -/
theorem annLink : annConn.splits.size = 1 ∧
    ∃ mesh, Runs Eb.decodeConnectivity 514 ([0] ++ annConn.bytes) mesh 514 ∧
      CTIso annConn.ct annConn.processed mesh.numFaces mesh.c2v mesh.opp ∧ mesh.atts.size = annConn.atts.size := by
  refine ⟨by decide +kernel, ?_⟩
  have e : annConn.ct.numVertices - annConn.ct.numIsolated + annConn.numSplitSymbols = 19 := by decide +kernel
  have hG : ∀ nv, nv = 19 → ∀ j, j < annConn.symbols.toList.reverse.length →
      GuardsS annConn.symbols.toList.reverse annConn.splits.toList.reverse annConn.processed.size nv j := by
    intro nv hnv; subst hnv; exact annGuards
  have hv : ∀ nv, nv = 19 → (StS annConn.symbols.toList.reverse annConn.splits.toList.reverse annConn.processed.size nv
      annConn.symbols.toList.reverse.length).vc.size ≤ nv := by
    intro nv hnv; subst hnv; exact annSide.2.2
  have hc : ∀ nv, nv = 19 → ∃ co, CompactSpec ⟨annConn.processed.size, nv, annConn.symbols.toList.reverse.length,
      annConn.splits.toList.reverse, true⟩
      (mainS annConn.symbols.toList.reverse annConn.splits.toList.reverse annConn.processed.size nv)
      (startOf (mainS annConn.symbols.toList.reverse annConn.splits.toList.reverse annConn.processed.size nv)) co := by
    intro nv hnv; subst hnv; exact annCompactSpec
  exact eb_connectivity_roundtrip_withS_of_parts exCh.conn annulusFaces annConn annEncode (by decide +kernel)
    (by decide +kernel) (by decide +kernel) (by decide +kernel) [(false, 15)] annTrace (by decide +kernel)
    (by decide +kernel) (hG _ e) (hv _ e) (hc _ e)

end Draco.EbEnc.WithSLink
