import Mathlib.Data.List.Chain
import DracoProofs.MetadataStatus
/-
  Whatever bytes it is given, the decoder only returns canonical trees (it builds `std::map`s):
  `decodeMetadata bs = some (m, r) → m.Canonical`.
-/
namespace Draco

/-- descending names: the accumulators of the decoder -/
def Desc {α : Type} (l : List (Bytes × α)) : Prop :=
  List.IsChain (fun a b => bytesLt b.1 a.1 = true) l

theorem sortedKeys_iff_isChain {α : Type} (l : List (Bytes × α)) :
    SortedKeys l ↔ List.IsChain (fun a b => bytesLt a.1 b.1 = true) l := by
  induction l with
  | nil => simp [SortedKeys]
  | cons a t ih =>
    cases t with
    | nil => simp [SortedKeys]
    | cons b t => simp only [SortedKeys, List.isChain_cons_cons, ih]

theorem sortedKeys_reverse_of_desc {α : Type} (l : List (Bytes × α)) (h : Desc l) :
    SortedKeys l.reverse := by
  rw [sortedKeys_iff_isChain, List.isChain_reverse]
  exact h

/-- `std::string` order is total: neither smaller means equal -/
theorem bytesLt_trichotomy : ∀ (a b : Bytes), bytesLt a b = false → bytesLt b a = false → a = b
  | [], [], _, _ => rfl
  | [], _ :: _, h, _ => by simp [bytesLt] at h
  | _ :: _, [], _, h => by simp [bytesLt] at h
  | x :: xs, y :: ys, h1, h2 => by
    simp only [bytesLt] at h1 h2
    by_cases hxy : x < y
    · simp [hxy] at h1
    · by_cases hyx : y < x
      · simp [hyx] at h2
      · simp only [hxy, hyx, if_false] at h1 h2
        have : x = y := by omega
        rw [this, bytesLt_trichotomy xs ys h1 h2]

theorem insertDesc_head {α : Type} (k : Bytes) (v : α) (l : List (Bytes × α)) :
    ∀ y ∈ (insertDesc k v l).head?, y.1 = k ∨ y ∈ l.head? := by
  cases l with
  | nil => intro y hy; simp [insertDesc] at hy; left; rw [← hy]
  | cons a t =>
    obtain ⟨k', v'⟩ := a
    intro y hy
    simp only [insertDesc] at hy
    split at hy
    · simp at hy; left; rw [← hy]
    · split at hy
      · simp at hy; right; simp [hy]
      · simp at hy; left; rw [← hy]

theorem insertDesc_desc {α : Type} (k : Bytes) (v : α) (l : List (Bytes × α)) (h : Desc l) :
    Desc (insertDesc k v l) := by
  induction l with
  | nil => simp [insertDesc, Desc]
  | cons a t ih =>
    obtain ⟨k', v'⟩ := a
    simp only [insertDesc]
    split
    · rename_i hlt
      exact List.IsChain.cons_cons hlt h
    · split
      · rename_i _ hlt
        have ht : Desc t := List.IsChain.tail h
        refine List.isChain_cons.mpr ⟨?_, ih ht⟩
        intro y hy
        rcases insertDesc_head k v t y hy with hk | hk
        · rw [hk]; exact hlt
        · exact (List.isChain_cons.mp h).1 y hk
      · rename_i h1 h2
        have heq : k' = k := bytesLt_trichotomy k' k (by simpa using h1) (by simpa using h2)
        subst heq
        have := List.isChain_cons.mp h
        exact List.isChain_cons.mpr ⟨this.1, this.2⟩

theorem insertNewDesc_head {α : Type} (k : Bytes) (v : α) :
    ∀ (l l' : List (Bytes × α)), insertNewDesc k v l = some l' →
      ∀ y ∈ l'.head?, y.1 = k ∨ y ∈ l.head? := by
  intro l l' h y hy
  cases l with
  | nil => simp [insertNewDesc] at h; subst h; simp at hy; left; rw [← hy]
  | cons a t =>
    obtain ⟨k', v'⟩ := a
    simp only [insertNewDesc] at h
    split at h
    · cases h; simp at hy; left; rw [← hy]
    · split at h
      · split at h
        · cases h
        · cases h; simp at hy; right; simp [hy]
      · cases h

theorem insertNewDesc_desc {α : Type} (k : Bytes) (v : α) :
    ∀ (l l' : List (Bytes × α)), Desc l → insertNewDesc k v l = some l' → Desc l' := by
  intro l
  induction l with
  | nil => intro l' _ h; simp [insertNewDesc] at h; subst h; simp [Desc]
  | cons a t ih =>
    obtain ⟨k', v'⟩ := a
    intro l' hd h
    simp only [insertNewDesc] at h
    split at h
    · rename_i hlt
      cases h
      exact List.IsChain.cons_cons hlt hd
    · split at h
      · rename_i _ hlt
        split at h
        · cases h
        · rename_i t' ht'
          cases h
          have ht : Desc t := List.IsChain.tail hd
          refine List.isChain_cons.mpr ⟨?_, ih t' ht ht'⟩
          intro y hy
          rcases insertNewDesc_head k v t t' ht' y hy with hk | hk
          · rw [hk]; exact hlt
          · exact (List.isChain_cons.mp hd).1 y hk
      · cases h

theorem insertNewDesc_mem {α : Type} (k : Bytes) (v : α) :
    ∀ (l l' : List (Bytes × α)), insertNewDesc k v l = some l' →
      ∀ s ∈ l', s = (k, v) ∨ s ∈ l := by
  intro l
  induction l with
  | nil => intro l' h s hs; simp [insertNewDesc] at h; subst h; simp at hs; left; exact hs
  | cons a t ih =>
    obtain ⟨k', v'⟩ := a
    intro l' h s hs
    simp only [insertNewDesc] at h
    split at h
    · cases h
      rcases List.mem_cons.mp hs with h1 | h1
      · left; exact h1
      · right; exact h1
    · split at h
      · split at h
        · cases h
        · rename_i t' ht'
          cases h
          rcases List.mem_cons.mp hs with h1 | h1
          · right; rw [h1]; simp
          · rcases ih t' ht' s h1 with h2 | h2
            · left; exact h2
            · right; exact List.mem_cons_of_mem _ h2
      · cases h

theorem decodeEntries_desc (ae : Bool) : ∀ (n : Nat) (acc : List (Bytes × Bytes)) (bs : Bytes)
    (es : List (Bytes × Bytes)) (r : Bytes), Desc acc →
    decodeEntries ae n acc bs = some (es, r) → Desc es := by
  intro n
  induction n with
  | zero => intro acc bs es r hd h; simp only [decodeEntries] at h; cases h; exact hd
  | succ n ih =>
    intro acc bs es r hd h
    simp only [decodeEntries] at h
    split at h
    · cases h
    · exact ih _ _ _ _ (insertDesc_desc _ _ _ hd) h

theorem decodeSubsWith_desc (child : Rd Metadata)
    (hchild : ∀ bs m r, child bs = some (m, r) → m.Canonical) :
    ∀ (k : Nat) (acc : List (Bytes × Metadata)) (bs : Bytes) (ss : List (Bytes × Metadata))
      (r : Bytes), Desc acc → (∀ s ∈ acc, s.2.Canonical) →
      decodeSubsWith child k acc bs = some (ss, r) → Desc ss ∧ ∀ s ∈ ss, s.2.Canonical := by
  intro k
  induction k with
  | zero => intro acc bs ss r hd hc h; simp only [decodeSubsWith] at h; cases h; exact ⟨hd, hc⟩
  | succ k ih =>
    intro acc bs ss r hd hc h
    simp only [decodeSubsWith] at h
    split at h
    · cases h
    · rename_i name bs1 hn
      split at h
      · cases h
      · rename_i m bs2 hm
        split at h
        · cases h
        · rename_i acc' hi
          refine ih _ _ _ _ (insertNewDesc_desc _ _ _ _ hd hi) ?_ h
          intro s hs
          rcases insertNewDesc_mem _ _ _ _ hi s hs with h1 | h1
          · rw [h1]; exact hchild _ _ _ hm
          · exact hc s h1

theorem subsAll_of_mem {P} (ss : List (Bytes × Metadata)) (h : ∀ s ∈ ss, s.2.All P) :
    SubsAll P ss := by
  induction ss with
  | nil => trivial
  | cons a t ih =>
    obtain ⟨n, m⟩ := a
    simp only [SubsAll]
    exact ⟨h (n, m) (by simp), ih (fun s hs => h s (by simp [hs]))⟩

theorem decodeNode_canonical (ae : Bool) : ∀ (f : Nat) (hp : Bool) (lvl : Nat) (bs : Bytes)
    (m : Metadata) (r : Bytes), decodeNode ae f hp lvl bs = some (m, r) → m.Canonical := by
  intro f
  induction f with
  | zero => intro hp lvl bs m r h; cases h
  | succ f ih =>
    intro hp lvl bs m r h
    simp only [decodeNode] at h
    split at h
    · cases h
    · split at h
      · cases h
      · rename_i es bs2 h2
        split at h
        · cases h
        · rename_i numSubs bs3 h3
          by_cases h4 : numSubs > bs3.length
          · rw [if_pos h4] at h; cases h
          · rw [if_neg h4] at h
            by_cases h5 : numSubs ≠ 0 ∧
                (if hp = true then lvl + 1 else lvl) > kMaxSubmetadataLevel
            · rw [if_pos h5] at h; cases h
            · rw [if_neg h5] at h
              split at h
              · cases h
              · rename_i ss bs4 h6
                cases h
                have hes := decodeEntries_desc ae _ _ _ _ _ (by simp [Desc]) h2
                have hss := decodeSubsWith_desc _ (fun bs m r => ih true _ bs m r) _ _ _ _ _
                  (by simp [Desc]) (by simp) h6
                refine ⟨⟨sortedKeys_reverse_of_desc _ hes, sortedKeys_reverse_of_desc _ hss.1⟩,
                  subsAll_of_mem _ ?_⟩
                intro s hs
                exact hss.2 s (List.mem_reverse.mp hs)

/-- The decoder only produces canonical trees. -/
theorem decodeMetadata_canonical (bs : Bytes) (m : Metadata) (r : Bytes)
    (h : decodeMetadata bs = some (m, r)) : m.Canonical :=
  decodeNode_canonical false _ _ _ _ _ _ h

theorem decodeMetadataFixed_canonical (bs : Bytes) (m : Metadata) (r : Bytes)
    (h : decodeMetadataFixed bs = some (m, r)) : m.Canonical :=
  decodeNode_canonical true _ _ _ _ _ _ h

end Draco
