import DracoProofs.RobustAllocWalk
import DracoModel.KdTreeAttr
/-
  C18 on the kd-tree path.  The invariant calculus of DracoProofs/RobustAlloc.lean with one more
  disjunct: an allocation event is either within the linear bound `allocBound` or it is one of an
  explicitly named class `X` of events (here: the four member vectors that the constructor of
  `DynamicIntegerPointsKdTreeDecoder` sizes by the declared dimension — the known finding).
-/
namespace Draco.Robust
open Draco Draco.DecM

/-- `Inv` with the exceptional events `X` -/
structure InvC (bs : Bytes) (X : String × Nat → Prop) (d : Nat) (s : DSt) : Prop where
  suf : s.rest <:+ bs
  decl : d ≤ s.declared
  allocs : ∀ e ∈ s.allocs, e.2 ≤ allocBound bs.length s.declared ∨ X e

theorem Inv.toC {bs : Bytes} {X : String × Nat → Prop} {d : Nat} {s : DSt} (h : Inv bs d s) : InvC bs X d s :=
  ⟨h.suf, h.decl, fun e he => Or.inl (h.allocs e he)⟩

theorem InvC.weaken {bs : Bytes} {X} {d d' : Nat} {s : DSt} (h : InvC bs X d s) (hd : d' ≤ d) : InvC bs X d' s :=
  ⟨h.suf, Nat.le_trans hd h.decl, h.allocs⟩

theorem InvC.status {bs : Bytes} {X} {d : Nat} {s : DSt} (h : InvC bs X d s) (st : Status) :
    InvC bs X d { s with status := st } := ⟨h.suf, h.decl, h.allocs⟩

theorem InvC.len {bs : Bytes} {X} {d : Nat} {s : DSt} (h : InvC bs X d s) : s.rest.length ≤ bs.length :=
  h.suf.length_le

def TrC {α} (bs : Bytes) (X : String × Nat → Prop) (d : Nat) (m : DecM α) (D : α → Nat) (F : α → Prop) : Prop :=
  ∀ s, InvC bs X d s →
    (∀ s', m s = (none, s') → InvC bs X 0 s') ∧ (∀ a s', m s = (some a, s') → InvC bs X (D a) s' ∧ F a)

variable {bs : Bytes} {X : String × Nat → Prop}

theorem trc_bind {α β} {m : DecM α} {f : α → DecM β} {d : Nat} {D1 : α → Nat} {D2 : β → Nat} {F : α → Prop}
    {F2 : β → Prop} (hm : TrC bs X d m D1 F) (hf : ∀ a, F a → TrC bs X (D1 a) (f a) D2 F2) :
    TrC bs X d (m >>= f) D2 F2 := by
  intro s hs
  have h1 := hm s hs
  rcases bind_cases m f s with ⟨s1, e1, e2⟩ | ⟨a, s1, e1, e2⟩
  · rw [e2]
    refine ⟨fun s' h => ?_, fun a s' h => ?_⟩
    · cases h; exact h1.1 _ e1
    · cases h
  · rw [e2]
    have h2 := h1.2 a s1 e1
    exact hf a h2.2 s1 h2.1

theorem trc_weaken {α} {m : DecM α} {d : Nat} {D D' : α → Nat} {F F' : α → Prop} (hm : TrC bs X d m D F)
    (hd : ∀ a, F a → D' a ≤ D a) (hF : ∀ a, F a → F' a) : TrC bs X d m D' F' := by
  intro s hs
  have h1 := hm s hs
  exact ⟨h1.1, fun a s' h => ⟨(h1.2 a s' h).1.weaken (hd a (h1.2 a s' h).2), hF a (h1.2 a s' h).2⟩⟩

theorem trc_pure {α} {a : α} {d : Nat} {F : α → Prop} (h : F a) : TrC bs X d (pure a) (fun _ => d) F := by
  intro s hs
  refine ⟨fun s' h' => ?_, fun b s' h' => ?_⟩
  · simp [pure, DecM.ret] at h'
  · obtain ⟨rfl, rfl⟩ := pure_ok h'
    exact ⟨hs, h⟩

theorem trc_fail {α} {d : Nat} {D : α → Nat} {F : α → Prop} : TrC bs X d (DecM.fail : DecM α) D F := by
  intro s hs
  refine ⟨fun s' h => ?_, fun a s' h => (fail_ok h).elim⟩
  simp only [DecM.fail, Prod.mk.injEq, true_and] at h
  rw [← h]
  split <;> first | exact (hs.weaken (Nat.zero_le _)).status _ | exact hs.weaken (Nat.zero_le _)

theorem trc_failWith {α} {st : Status} {d : Nat} {D : α → Nat} {F : α → Prop} :
    TrC bs X d (DecM.failWith st : DecM α) D F := by
  intro s hs
  refine ⟨fun s' h => ?_, fun a s' h => (failWith_ok h).elim⟩
  simp only [DecM.failWith, Prod.mk.injEq, true_and] at h
  rw [← h]; exact (hs.weaken (Nat.zero_le _)).status _

theorem trc_require {c : Bool} {d : Nat} : TrC bs X d (require c) (fun _ => d) (fun _ => c = true) := by
  unfold require
  split
  · rename_i hc; exact trc_pure hc
  · exact trc_fail

theorem trc_remaining {d : Nat} : TrC bs X d remaining (fun _ => d) (fun n => n ≤ bs.length) := by
  intro s hs
  refine ⟨fun s' h => ?_, fun a s' h => ?_⟩
  · simp [remaining] at h
  obtain ⟨rfl, rfl⟩ := remaining_ok h
  exact ⟨hs, hs.len⟩

theorem trc_version {d : Nat} : TrC bs X d version (fun _ => d) (fun _ => True) := by
  intro s hs
  refine ⟨fun s' h => ?_, fun a s' h => ?_⟩
  · simp [version] at h
  obtain ⟨_, rfl⟩ := version_ok h
  exact ⟨hs, trivial⟩

theorem trc_declare {n d : Nat} : TrC bs X d (declare n) (fun _ => d + n) (fun _ => True) := by
  intro s hs
  refine ⟨fun s' h => ?_, fun a s' h => ?_⟩
  · simp [declare] at h
  simp only [declare, Prod.mk.injEq] at h
  rw [← h.2]
  refine ⟨⟨hs.suf, Nat.add_le_add_right hs.decl n, fun e he => ?_⟩, trivial⟩
  rcases hs.allocs e he with h1 | h1
  · exact Or.inl (Nat.le_trans h1 (allocBound_mono (Nat.le_add_right _ _)))
  · exact Or.inr h1

/-- an event within the linear bound -/
theorem trc_alloc {site : String} {n d : Nat} (h : n ≤ allocBound bs.length d) :
    TrC bs X d (alloc site n) (fun _ => d) (fun _ => True) := by
  intro s hs
  refine ⟨fun s' h' => ?_, fun a s' h' => ?_⟩
  · simp [alloc] at h'
  simp only [alloc, Prod.mk.injEq] at h'
  rw [← h'.2]
  refine ⟨⟨hs.suf, hs.decl, fun e he => ?_⟩, trivial⟩
  rcases List.mem_cons.mp he with rfl | he
  · exact Or.inl (Nat.le_trans h (allocBound_mono hs.decl))
  · exact hs.allocs e he

/-- an exceptional event -/
theorem trc_allocX {site : String} {n d : Nat} (h : X (site, n)) :
    TrC bs X d (alloc site n) (fun _ => d) (fun _ => True) := by
  intro s hs
  refine ⟨fun s' h' => ?_, fun a s' h' => ?_⟩
  · simp [alloc] at h'
  simp only [alloc, Prod.mk.injEq] at h'
  rw [← h'.2]
  refine ⟨⟨hs.suf, hs.decl, fun e he => ?_⟩, trivial⟩
  rcases List.mem_cons.mp he with rfl | he
  · exact Or.inr h
  · exact hs.allocs e he

theorem trc_lift {α} {r : Rd α} {d : Nat} {F : α → Prop} (hr : SufRd r)
    (hF : ∀ x a rest, x <:+ bs → r x = some (a, rest) → F a) : TrC bs X d (lift r) (fun _ => d) F := by
  intro s hs
  refine ⟨fun s' h => ?_, fun a s' h => ?_⟩
  · unfold lift at h
    split at h
    · simp only [Prod.mk.injEq, true_and] at h
      rw [← h]
      split <;> first | exact (hs.weaken (Nat.zero_le _)).status _ | exact hs.weaken (Nat.zero_le _)
    · cases h
  · obtain ⟨rest, heq, rfl⟩ := lift_ok h
    exact ⟨⟨(hr _ _ _ heq).trans hs.suf, hs.decl, hs.allocs⟩, hF _ _ _ hs.suf heq⟩

theorem trc_lift_any {α} {r : Rd α} {d : Nat} (hr : SufRd r) : TrC bs X d (lift r) (fun _ => d) (fun _ => True) :=
  trc_lift hr (fun _ _ _ _ _ => trivial)

theorem trc_ite {α} {c : Prop} [Decidable c] {x y : DecM α} {d : Nat} {D : α → Nat} {F : α → Prop}
    (hx : c → TrC bs X d x D F) (hy : ¬c → TrC bs X d y D F) : TrC bs X d (if c then x else y) D F := by
  split
  · rename_i h; exact hx h
  · rename_i h; exact hy h

theorem trc_mapM' {α β} (f : α → DecM β) (P : α → Prop) (Q : β → Prop) (d : Nat)
    (hf : ∀ a, P a → TrC bs X d (f a) (fun _ => d) Q) :
    ∀ (l : List α), (∀ a ∈ l, P a) →
      TrC bs X d (mapM' f l) (fun _ => d) (fun l' => l'.length = l.length ∧ ∀ b ∈ l', Q b) := by
  intro l
  induction l with
  | nil => intro _; simp only [mapM']; exact trc_pure ⟨rfl, by simp⟩
  | cons a as ih =>
    intro hP
    simp only [mapM']
    refine trc_bind (hf a (hP a (by simp))) (fun b hb => ?_)
    refine trc_bind (ih (fun x hx => hP x (by simp [hx]))) (fun l' hl' => ?_)
    refine trc_pure ⟨by simp [hl'.1], ?_⟩
    intro x hx
    rcases List.mem_cons.mp hx with rfl | hx
    · exact hb
    · exact hl'.2 x hx

theorem trc_replicateM' {α} (f : DecM α) (Q : α → Prop) (d : Nat) (hf : TrC bs X d f (fun _ => d) Q) (n : Nat) :
    TrC bs X d (replicateM' n f) (fun _ => d) (fun l => l.length = n ∧ ∀ a ∈ l, Q a) := by
  unfold replicateM'
  have := trc_mapM' (bs := bs) (X := X) (fun _ : Unit => f) (fun _ => True) Q d (fun _ _ => hf)
    (List.replicate n ()) (fun _ _ => trivial)
  exact trc_weaken this (fun _ _ => Nat.le_refl _) (fun l h => by simpa using h)

theorem trc_rdU8 (hb : IsBytes bs) {d : Nat} : TrC bs X d rdU8 (fun _ => d) (fun b => b < 256) := by
  refine trc_lift readU8_suf (fun x a rest hx h => ?_)
  cases x with
  | nil => simp [readU8] at h
  | cons b t =>
    simp only [readU8, Option.some.injEq, Prod.mk.injEq] at h
    rw [← h.1]; exact isBytes_suffix hb hx b (by simp)

theorem trc_rdU8_any {d : Nat} : TrC bs X d rdU8 (fun _ => d) (fun _ => True) := trc_lift_any readU8_suf
theorem trc_rdU16 {d : Nat} : TrC bs X d rdU16 (fun _ => d) (fun _ => True) := trc_lift_any (readLE_suf 2)
theorem trc_rdU32 {d : Nat} : TrC bs X d rdU32 (fun _ => d) (fun _ => True) := trc_lift_any (readLE_suf 4)
theorem trc_varint {w d : Nat} : TrC bs X d (varint w) (fun _ => d) (fun _ => True) := trc_lift_any (decVarint_suf w)

theorem trc_rdI32 {d : Nat} : TrC bs X d rdI32 (fun _ => d) (fun _ => True) := by
  unfold rdI32
  exact trc_bind trc_rdU32 (fun _ _ => trc_pure trivial)

end Draco.Robust
