import DracoProofs.QuantExact
import Mathlib.Order.Lattice
import Mathlib.Algebra.Order.Field.Rat
/-
  `ComputeParameters` over the exact instance: minimum per component, range = largest extent
  (1 when all extents are 0).
-/
namespace Draco
namespace Quant

attribute [local instance] exactOps

theorem scanComp_exact (mn mx v : ℚ) : scanComp mn mx v = some (min mn v, max mx v) := by
  have h : scanComp mn mx v
      = some (if decide (v < mn) then v else mn, if decide (mx < v) then v else mx) := rfl
  rw [h]
  congr 2
  · by_cases hc : v < mn
    · simp [hc, min_eq_right hc.le]
    · simp [hc, min_eq_left (not_lt.mp hc)]
  · by_cases hc : mx < v
    · simp [hc, max_eq_right hc.le]
    · simp [hc, max_eq_left (not_lt.mp hc)]

theorem scanRow_exact : ∀ (mn mx v : List ℚ), mn.length = mx.length →
    scanRow mn mx v = some (List.zipWith min mn v, List.zipWith max mx v)
  | [], mx, v, h => by
    cases mx with
    | nil => simp [scanRow]
    | cons _ _ => simp at h
  | _ :: _, [], _, h => by simp at h
  | a :: as, b :: bs, [], _ => by simp [scanRow]
  | a :: as, b :: bs, v :: vs, h => by
    have ih := scanRow_exact as bs vs (by simpa using h)
    simp [scanRow, scanComp_exact, ih]

theorem scanRows_exact : ∀ (rows : List (List ℚ)) (mn mx : List ℚ), mn.length = mx.length →
    scanRows mn mx rows
      = some (rows.foldl (List.zipWith min) mn, rows.foldl (List.zipWith max) mx)
  | [], _, _, _ => rfl
  | v :: rest, mn, mx, h => by
    have ih := scanRows_exact rest (List.zipWith min mn v) (List.zipWith max mx v)
      (by simp [h])
    simp [scanRows, scanRow_exact mn mx v h, ih]

theorem getD_zipWith (f : ℚ → ℚ → ℚ) : ∀ (a b : List ℚ) (c : Nat), c < a.length → c < b.length →
    (List.zipWith f a b).getD c 0 = f (a.getD c 0) (b.getD c 0)
  | [], _, _, h, _ => by simp at h
  | _ :: _, [], _, _, h => by simp at h
  | x :: xs, y :: ys, 0, _, _ => by simp
  | x :: xs, y :: ys, c+1, h1, h2 => by
    simpa using getD_zipWith f xs ys c (by simpa using h1) (by simpa using h2)

/-- the running minimum: below the start value and every row, and attained -/
theorem foldl_min_spec (n : Nat) : ∀ (rows : List (List ℚ)) (mn : List ℚ), mn.length = n →
    (∀ v ∈ rows, v.length = n) →
    (rows.foldl (List.zipWith min) mn).length = n ∧
    ∀ c < n, (rows.foldl (List.zipWith min) mn).getD c 0 ≤ mn.getD c 0 ∧
      (∀ v ∈ rows, (rows.foldl (List.zipWith min) mn).getD c 0 ≤ v.getD c 0) ∧
      ((rows.foldl (List.zipWith min) mn).getD c 0 = mn.getD c 0 ∨
        ∃ v ∈ rows, (rows.foldl (List.zipWith min) mn).getD c 0 = v.getD c 0)
  | [], mn, h, _ => by simp [h]
  | r :: rest, mn, h, hl => by
    have hr : r.length = n := hl r (by simp)
    have hz : (List.zipWith min mn r).length = n := by simp [h, hr]
    obtain ⟨l, ih⟩ := foldl_min_spec n rest (List.zipWith min mn r) hz
      (fun v hv => hl v (by simp [hv]))
    refine ⟨by simpa using l, fun c hc => ?_⟩
    obtain ⟨i1, i2, i3⟩ := ih c hc
    have hg := getD_zipWith min mn r c (by omega) (by omega)
    simp only [List.foldl_cons]
    rw [hg] at i1 i3
    refine ⟨le_trans i1 (min_le_left _ _), ?_, ?_⟩
    · intro v hv
      rcases List.mem_cons.mp hv with rfl | hv
      · exact le_trans i1 (min_le_right _ _)
      · exact i2 v hv
    · rcases i3 with e | ⟨v, hv, e⟩
      · rcases min_choice (mn.getD c 0) (r.getD c 0) with e' | e'
        · left; rw [e, e']
        · right; exact ⟨r, by simp, by rw [e, e']⟩
      · right; exact ⟨v, by simp [hv], e⟩

/-- the running maximum -/
theorem foldl_max_spec (n : Nat) : ∀ (rows : List (List ℚ)) (mx : List ℚ), mx.length = n →
    (∀ v ∈ rows, v.length = n) →
    (rows.foldl (List.zipWith max) mx).length = n ∧
    ∀ c < n, mx.getD c 0 ≤ (rows.foldl (List.zipWith max) mx).getD c 0 ∧
      (∀ v ∈ rows, v.getD c 0 ≤ (rows.foldl (List.zipWith max) mx).getD c 0) ∧
      ((rows.foldl (List.zipWith max) mx).getD c 0 = mx.getD c 0 ∨
        ∃ v ∈ rows, (rows.foldl (List.zipWith max) mx).getD c 0 = v.getD c 0)
  | [], mx, h, _ => by simp [h]
  | r :: rest, mx, h, hl => by
    have hr : r.length = n := hl r (by simp)
    have hz : (List.zipWith max mx r).length = n := by simp [h, hr]
    obtain ⟨l, ih⟩ := foldl_max_spec n rest (List.zipWith max mx r) hz
      (fun v hv => hl v (by simp [hv]))
    refine ⟨by simpa using l, fun c hc => ?_⟩
    obtain ⟨i1, i2, i3⟩ := ih c hc
    have hg := getD_zipWith max mx r c (by omega) (by omega)
    simp only [List.foldl_cons]
    rw [hg] at i1 i3
    refine ⟨le_trans (le_max_left _ _) i1, ?_, ?_⟩
    · intro v hv
      rcases List.mem_cons.mp hv with rfl | hv
      · exact le_trans (le_max_right _ _) i1
      · exact i2 v hv
    · rcases i3 with e | ⟨v, hv, e⟩
      · rcases max_choice (mx.getD c 0) (r.getD c 0) with e' | e'
        · left; rw [e, e']
        · right; exact ⟨r, by simp, by rw [e, e']⟩
      · right; exact ⟨v, by simp [hv], e⟩

/-- final loop over the exact instance: the result is the maximum of the start value and all
    extents -/
theorem finalRange_exact : ∀ (mn mx : List ℚ) (r : ℚ), mn.length = mx.length →
    ∃ r', finalRange mn mx r = some r' ∧ r ≤ r' ∧
      (∀ c < mn.length, mx.getD c 0 - mn.getD c 0 ≤ r') ∧
      (r' = r ∨ ∃ c < mn.length, r' = mx.getD c 0 - mn.getD c 0)
  | [], mx, r, h => by
    cases mx with
    | nil => exact ⟨r, rfl, le_refl _, by simp, Or.inl rfl⟩
    | cons _ _ => simp at h
  | _ :: _, [], _, h => by simp at h
  | a :: as, b :: bs, r, h => by
    have hstep : finalRange (a :: as) (b :: bs) r = finalRange as bs (max r (b - a)) := by
      have h1 : finalRange (a :: as) (b :: bs) r
          = finalRange as bs (if decide (r < b - a) then b - a else r) := rfl
      rw [h1]
      congr 1
      by_cases hc : r < b - a
      · simp [hc, max_eq_right hc.le]
      · simp [hc, max_eq_left (not_lt.mp hc)]
    obtain ⟨r', e, i1, i2, i3⟩ := finalRange_exact as bs (max r (b - a)) (by simpa using h)
    refine ⟨r', by rw [hstep, e], le_trans (le_max_left _ _) i1, ?_, ?_⟩
    · intro c hc
      cases c with
      | zero => simpa using le_trans (le_max_right _ _) i1
      | succ c => simpa using i2 c (by simpa using hc)
    · rcases i3 with e' | ⟨c, hc, e'⟩
      · rcases max_choice r (b - a) with e'' | e''
        · left; rw [e', e'']
        · right; exact ⟨0, by simp, by simp [e', e'']⟩
      · right; exact ⟨c + 1, by simpa using hc, by simpa using e'⟩

/-- `ComputeParameters` over the exact instance. -/
theorem computeParameters_exact_spec (n : Nat) (first : List ℚ) (rest : List (List ℚ))
    (hlen : ∀ v ∈ first :: rest, v.length = n) :
    ∃ p : QParams ℚ, computeParameters n (first :: rest) = some p ∧
      p.minValues.length = n ∧ 0 < p.range ∧
      (∀ v ∈ first :: rest, ∀ c < n,
          p.minValues.getD c 0 ≤ v.getD c 0 ∧ v.getD c 0 ≤ p.minValues.getD c 0 + p.range) ∧
      (∀ c < n, ∃ v ∈ first :: rest, v.getD c 0 = p.minValues.getD c 0) ∧
      ((∃ c < n, ∃ v ∈ first :: rest, ∃ w ∈ first :: rest,
            v.getD c 0 = p.minValues.getD c 0 ∧ p.range = w.getD c 0 - v.getD c 0) ∨
       (p.range = 1 ∧ ∀ c < n, ∀ v ∈ first :: rest, ∀ w ∈ first :: rest,
            v.getD c 0 = w.getD c 0)) := by
  have hf : first.length = n := hlen first (by simp)
  have hrest : ∀ v ∈ rest, v.length = n := fun v hv => hlen v (by simp [hv])
  have htake : first.take n = first := by rw [← hf]; exact List.take_length
  set mn := rest.foldl (List.zipWith min) first with hmn
  set mx := rest.foldl (List.zipWith max) first with hmx
  obtain ⟨lmn, smn⟩ := foldl_min_spec n rest first hf hrest
  obtain ⟨lmx, smx⟩ := foldl_max_spec n rest first hf hrest
  rw [← hmn] at lmn smn
  rw [← hmx] at lmx smx
  obtain ⟨r, er, r0, rext, ratt⟩ := finalRange_exact mn mx 0 (by rw [lmn, lmx])
  rw [lmn] at rext ratt
  have hcp : computeParameters n (first :: rest)
      = some { minValues := mn, range := if decide (r = 0) then 1 else r } := by
    simp only [computeParameters, htake, scanRows_exact rest first first rfl, ← hmn, ← hmx]
    have er' : finalRange mn mx (FloatOps.zero : ℚ) = some r := er
    rw [er']
    rfl
  -- membership facts about min / max
  have hmin_le : ∀ v ∈ first :: rest, ∀ c < n, mn.getD c 0 ≤ v.getD c 0 := by
    intro v hv c hc
    rcases List.mem_cons.mp hv with rfl | hv
    · exact (smn c hc).1
    · exact (smn c hc).2.1 v hv
  have hle_max : ∀ v ∈ first :: rest, ∀ c < n, v.getD c 0 ≤ mx.getD c 0 := by
    intro v hv c hc
    rcases List.mem_cons.mp hv with rfl | hv
    · exact (smx c hc).1
    · exact (smx c hc).2.1 v hv
  have hmin_att : ∀ c < n, ∃ v ∈ first :: rest, v.getD c 0 = mn.getD c 0 := by
    intro c hc
    rcases (smn c hc).2.2 with e | ⟨v, hv, e⟩
    · exact ⟨first, by simp, e.symm⟩
    · exact ⟨v, by simp [hv], e.symm⟩
  have hmax_att : ∀ c < n, ∃ v ∈ first :: rest, v.getD c 0 = mx.getD c 0 := by
    intro c hc
    rcases (smx c hc).2.2 with e | ⟨v, hv, e⟩
    · exact ⟨first, by simp, e.symm⟩
    · exact ⟨v, by simp [hv], e.symm⟩
  have rg1 : r = 0 → (if decide (r = 0) then (1:ℚ) else r) = 1 := fun h => by simp [h]
  have rg2 : ¬ r = 0 → (if decide (r = 0) then (1:ℚ) else r) = r := fun h => by simp [h]
  refine ⟨_, hcp, lmn, ?_, ?_, hmin_att, ?_⟩
  · -- 0 < range
    show (0:ℚ) < if decide (r = 0) then 1 else r
    by_cases h0 : r = 0
    · rw [rg1 h0]; norm_num
    · rw [rg2 h0]; exact lt_of_le_of_ne r0 (Ne.symm h0)
  · intro v hv c hc
    refine ⟨hmin_le v hv c hc, ?_⟩
    show v.getD c 0 ≤ mn.getD c 0 + if decide (r = 0) then 1 else r
    have h1 := hle_max v hv c hc
    have h2 := rext c hc
    by_cases h0 : r = 0
    · rw [rg1 h0]; linarith
    · rw [rg2 h0]; linarith
  · by_cases h0 : r = 0
    · right
      refine ⟨rg1 h0, ?_⟩
      intro c hc v hv w hw
      have e := rext c hc
      have a1 := hmin_le v hv c hc
      have a2 := hle_max v hv c hc
      have b1 := hmin_le w hw c hc
      have b2 := hle_max w hw c hc
      rw [h0] at e
      linarith
    · left
      rcases ratt with e | ⟨c, hc, e⟩
      · exact absurd e h0
      · obtain ⟨v, hv, ev⟩ := hmin_att c hc
        obtain ⟨w, hw, ew⟩ := hmax_att c hc
        refine ⟨c, hc, v, hv, w, hw, ev, ?_⟩
        show (if decide (r = 0) then 1 else r) = _
        rw [rg2 h0, e, ev, ew]

end Quant
end Draco
