import DracoModel.Dedup
/-
  DracoProofs.DedupCore — the first-occurrence loop `dedupAux` and the buffer chunking.
-/
namespace Draco

theorem getD_eq_getElem' {α : Type} (l : List α) (d : α) {n : Nat} (h : n < l.length) :
    l.getD n d = l[n] := by
  simp [List.getD_eq_getElem?_getD, h]

theorem toArray_getD' {α : Type} (l : List α) (i : Nat) (d : α) : l.toArray.getD i d = l.getD i d := by
  simp [Array.getD, List.getD_eq_getElem?_getD]
  split <;> simp_all

/-- the array-backed index function is `mapped_index` -/
theorem idxOf_mapArray (a : Attribute) : idxOf a.mapArray = a.mappedIndex := by
  funext p
  unfold idxOf Attribute.mapArray Attribute.mappedIndex
  cases a.map with
  | none => rfl
  | some m => simp

/-! ### findIx -/

theorem findIx_some {e : List Nat} {l : List (List Nat)} {j : Nat} (h : findIx e l = some j) :
    l[j]? = some e := by
  induction l generalizing j with
  | nil => simp [findIx] at h
  | cons x xs ih =>
    unfold findIx at h
    split at h
    · rename_i hx
      cases h
      simp [hx]
    · cases hf : findIx e xs with
      | none => simp [hf] at h
      | some k =>
        simp [hf] at h
        subst h
        simpa using ih hf

theorem findIx_none {e : List Nat} {l : List (List Nat)} : findIx e l = none ↔ e ∉ l := by
  induction l with
  | nil => simp [findIx]
  | cons x xs ih =>
    unfold findIx
    by_cases hx : x = e
    · simp [hx]
    · have hx' : ¬ e = x := fun h => hx h.symm
      simp [hx, hx', ih]

theorem findIx_lt {e : List Nat} {l : List (List Nat)} {j : Nat} (h : findIx e l = some j) :
    j < l.length := by
  have := findIx_some h
  exact (List.getElem?_eq_some_iff.1 this).1

theorem findIx_append_left {e : List Nat} {l t : List (List Nat)} {j : Nat}
    (h : findIx e l = some j) : findIx e (l ++ t) = some j := by
  induction l generalizing j with
  | nil => simp [findIx] at h
  | cons x xs ih =>
    simp only [List.cons_append]
    unfold findIx at h ⊢
    split
    · rename_i hx
      simpa [hx] using h
    · rename_i hx
      simp only [hx, if_false] at h
      cases hf : findIx e xs with
      | none => simp [hf] at h
      | some k =>
        simp only [hf, Option.map_some] at h
        simp [ih hf, h]

theorem findIx_nodup {e : List Nat} {l : List (List Nat)} {j : Nat} (hn : l.Nodup)
    (h : l[j]? = some e) : findIx e l = some j := by
  induction l generalizing j with
  | nil => simp at h
  | cons x xs ih =>
    rw [List.nodup_cons] at hn
    unfold findIx
    cases j with
    | zero =>
      simp at h
      simp [h]
    | succ k =>
      simp at h
      have hmem : e ∈ xs := List.mem_of_getElem? h
      have hx : x ≠ e := fun hxe => hn.1 (hxe ▸ hmem)
      simp [hx, ih hn.2 h]

/-! ### dedupAux -/

theorem dedupAux_length (seen es : List (List Nat)) : (dedupAux seen es).2.length = es.length := by
  induction es generalizing seen with
  | nil => simp [dedupAux]
  | cons e es ih =>
    unfold dedupAux
    split <;> simp [ih]

theorem dedupAux_prefix (seen es : List (List Nat)) : ∃ t, (dedupAux seen es).1 = seen ++ t := by
  induction es generalizing seen with
  | nil => exact ⟨[], by simp [dedupAux]⟩
  | cons e es ih =>
    unfold dedupAux
    split
    · exact ih seen
    · obtain ⟨t, ht⟩ := ih (seen ++ [e])
      exact ⟨e :: t, by simp [ht]⟩

theorem dedupAux_mem (seen es : List (List Nat)) (x : List Nat) :
    x ∈ (dedupAux seen es).1 ↔ x ∈ seen ∨ x ∈ es := by
  induction es generalizing seen with
  | nil => simp [dedupAux]
  | cons e es ih =>
    unfold dedupAux
    split
    · rename_i j hj
      have he : e ∈ seen := List.mem_of_getElem? (findIx_some hj)
      simp only [ih, List.mem_cons]
      constructor
      · rintro (h | h)
        · exact Or.inl h
        · exact Or.inr (Or.inr h)
      · rintro (h | h | h)
        · exact Or.inl h
        · exact Or.inl (h ▸ he)
        · exact Or.inr h
    · simp only [ih, List.mem_append, List.mem_cons, List.not_mem_nil, or_false]
      constructor
      · rintro ((h | h) | h)
        · exact Or.inl h
        · exact Or.inr (Or.inl h)
        · exact Or.inr (Or.inr h)
      · rintro (h | h | h)
        · exact Or.inl (Or.inl h)
        · exact Or.inl (Or.inr h)
        · exact Or.inr h

theorem dedupAux_nodup (seen es : List (List Nat)) (hn : seen.Nodup) : (dedupAux seen es).1.Nodup := by
  induction es generalizing seen with
  | nil => simpa [dedupAux] using hn
  | cons e es ih =>
    unfold dedupAux
    split
    · exact ih seen hn
    · rename_i hnone
      apply ih
      rw [List.nodup_append]
      refine ⟨hn, by simp, ?_⟩
      intro a ha b hb
      simp at hb
      subst hb
      intro hab
      exact (findIx_none.1 hnone) (hab ▸ ha)

theorem dedupAux_length_le (seen es : List (List Nat)) :
    (dedupAux seen es).1.length ≤ seen.length + es.length := by
  induction es generalizing seen with
  | nil => simp [dedupAux]
  | cons e es ih =>
    unfold dedupAux
    split
    · have := ih seen
      simp only [List.length_cons]
      omega
    · have := ih (seen ++ [e])
      simp only [List.length_append, List.length_cons, List.length_nil] at this ⊢
      omega

theorem dedupAux_seen_le (seen es : List (List Nat)) :
    seen.length ≤ (dedupAux seen es).1.length := by
  obtain ⟨t, ht⟩ := dedupAux_prefix seen es
  rw [ht]; simp

/-- all numbers handed out are numbers of existing keys -/
theorem dedupAux_bound (seen es : List (List Nat)) :
    ∀ j ∈ (dedupAux seen es).2, j < (dedupAux seen es).1.length := by
  induction es generalizing seen with
  | nil => simp [dedupAux]
  | cons e es ih =>
    unfold dedupAux
    split
    · rename_i j hj
      intro k hk
      simp only [List.mem_cons] at hk
      rcases hk with hk | hk
      · subst hk
        exact Nat.lt_of_lt_of_le (findIx_lt hj) (dedupAux_seen_le seen es)
      · exact ih seen k hk
    · intro k hk
      simp only [List.mem_cons] at hk
      rcases hk with hk | hk
      · subst hk
        have := dedupAux_seen_le (seen ++ [e]) es
        simp only [List.length_append, List.length_cons, List.length_nil] at this
        show seen.length < (dedupAux (seen ++ [e]) es).1.length
        omega
      · exact ih (seen ++ [e]) k hk

/-- the key with number `value_map[i]` is key `i` -/
theorem dedupAux_get (seen es : List (List Nat)) (i : Nat) (hi : i < es.length) :
    (dedupAux seen es).1[((dedupAux seen es).2.getD i 0)]? = some es[i] := by
  induction es generalizing seen i with
  | nil => simp at hi
  | cons e es ih =>
    unfold dedupAux
    split
    · rename_i j hj
      cases i with
      | zero =>
        simp only [List.getD_cons_zero, List.getElem_cons_zero]
        obtain ⟨t, ht⟩ := dedupAux_prefix seen es
        rw [ht, List.getElem?_append_left (findIx_lt hj)]
        exact findIx_some hj
      | succ k =>
        simp only [List.getD_cons_succ, List.getElem_cons_succ]
        exact ih seen k (by simpa using hi)
    · cases i with
      | zero =>
        simp only [List.getD_cons_zero, List.getElem_cons_zero]
        obtain ⟨t, ht⟩ := dedupAux_prefix (seen ++ [e]) es
        rw [ht, List.getElem?_append_left (by simp)]
        simp
      | succ k =>
        simp only [List.getD_cons_succ, List.getElem_cons_succ]
        exact ih (seen ++ [e]) k (by simpa using hi)

/-- on keys without repetition nothing is merged -/
theorem dedupAux_idem (seen es : List (List Nat)) (hn : (seen ++ es).Nodup) :
    dedupAux seen es = (seen ++ es, List.range' seen.length es.length) := by
  induction es generalizing seen with
  | nil => simp [dedupAux]
  | cons e es ih =>
    have hnot : e ∉ seen := by
      intro he
      rw [List.nodup_append] at hn
      exact hn.2.2 e he e (by simp) rfl
    unfold dedupAux
    rw [findIx_none.2 hnot]
    have hn' : ((seen ++ [e]) ++ es).Nodup := by simpa using hn
    rw [ih (seen ++ [e]) hn']
    simp [List.range'_succ]

/-- if no key was merged, the keys were pairwise different -/
theorem dedupAux_full (seen es : List (List Nat)) (hn : seen.Nodup)
    (h : (dedupAux seen es).1.length = seen.length + es.length) : (seen ++ es).Nodup := by
  induction es generalizing seen with
  | nil => simpa using hn
  | cons e es ih =>
    unfold dedupAux at h
    split at h
    · have := dedupAux_length_le seen es
      simp only [List.length_cons] at h
      omega
    · rename_i hnone
      have hn1 : (seen ++ [e]).Nodup := by
        rw [List.nodup_append]
        refine ⟨hn, by simp, ?_⟩
        intro a ha b hb
        simp at hb
        subst hb
        intro hab
        exact (findIx_none.1 hnone) (hab ▸ ha)
      have := ih (seen ++ [e]) hn1 (by simpa [Nat.add_assoc, Nat.add_comm 1] using h)
      simpa using this

theorem dedupAux_nil_nodup_iff (es : List (List Nat)) :
    (dedupAux [] es).1.length = es.length ↔ es.Nodup := by
  constructor
  · intro h
    simpa using dedupAux_full [] es List.nodup_nil (by simpa using h)
  · intro h
    rw [dedupAux_idem [] es (by simpa using h)]
    simp

/-! ### chunk -/

theorem chunk_length (s n : Nat) (bs : Bytes) : (chunk s n bs).length = n := by
  induction n generalizing bs with
  | zero => simp [chunk]
  | succ n ih => simp [chunk, ih]

theorem chunk_elem_length (s n : Nat) (bs : Bytes) (h : n * s ≤ bs.length) :
    ∀ e ∈ chunk s n bs, e.length = s := by
  induction n generalizing bs with
  | zero => simp [chunk]
  | succ n ih =>
    intro e he
    simp only [chunk, List.mem_cons] at he
    have h1 : s ≤ bs.length := by
      have : (n + 1) * s = n * s + s := Nat.succ_mul n s
      omega
    rcases he with he | he
    · subst he
      simp [List.length_take, Nat.min_eq_left h1]
    · apply ih (bs.drop s) _ e he
      have : (n + 1) * s = n * s + s := Nat.succ_mul n s
      simp only [List.length_drop]
      omega

theorem chunk_flatten (s : Nat) (u : List Bytes) (h : ∀ e ∈ u, e.length = s) (rest : Bytes) :
    chunk s u.length (u.flatten ++ rest) = u := by
  induction u with
  | nil => simp [chunk]
  | cons e u ih =>
    have he : e.length = s := h e (by simp)
    simp only [List.length_cons, chunk, List.flatten_cons, List.append_assoc]
    rw [List.take_append_of_le_length (by omega), List.take_of_length_le (by omega)]
    rw [List.drop_append_of_le_length (by omega), List.drop_of_length_le (by omega)]
    simp only [List.nil_append]
    rw [ih (fun e he => h e (by simp [he]))]

theorem flatten_length_of (s : Nat) (u : List Bytes) (h : ∀ e ∈ u, e.length = s) :
    u.flatten.length = u.length * s := by
  induction u with
  | nil => simp
  | cons e u ih =>
    simp only [List.flatten_cons, List.length_append, List.length_cons]
    rw [ih (fun e he => h e (by simp [he])), h e (by simp), Nat.succ_mul]
    omega

end Draco
