import DracoProofs.KdSpecCheck
import Mathlib.Data.List.Perm.Subperm
import Mathlib.Data.List.Nodup
/-
  The Edgebreaker branch of the executable specification RoundTripOK (`Spec.checkCore .edgebreaker`,
  DracoModel/Spec.lean) reduced to a face-level criterion:

  * `subMultiset_sortRows_of_subperm`: `Spec.subMultiset` on sorted row lists accepts every
    multiset inclusion (`List.Subperm`);
  * `canonTri_rot`, `canonTri_rot'`: `Spec.canonTri` does not depend on the rotation of the triangle;
  * `checkCore_edgebreaker_of_faces`: if every decoded face is (as canonical corner-tuple triangle)
    an input face under an injective map of face indices whose image contains every non-degenerate
    input face, the check accepts.
-/
namespace Draco.EbEnc
open Draco KdEnc

/-! ### (1) `subMultiset` of sorted lists decides multiset inclusion (one direction) -/

/-- sorted with respect to `Spec.lexLe` -/
def RowsSorted (l : List (List Nat)) : Prop := l.Pairwise (fun a b => Spec.lexLe a b = true)

theorem sortRows_sorted (l : List (List Nat)) : RowsSorted (Spec.sortRows l) :=
  List.pairwise_mergeSort (fun a b c => lexLe_trans a b c) lexLe_total l

theorem sortRows_perm_self (l : List (List Nat)) : (Spec.sortRows l).Perm l :=
  List.mergeSort_perm l _

theorem subMultiset_of_sorted_subperm : ∀ (Y X : List (List Nat)), RowsSorted X → RowsSorted Y →
    X.Subperm Y → Spec.subMultiset X Y = true := by
  intro Y
  induction Y with
  | nil =>
    intro X _ _ h
    have : X = [] := List.subperm_nil.mp h
    subst this
    simp [Spec.subMultiset]
  | cons b bs ih =>
    intro X hX hY h
    cases X with
    | nil => simp [Spec.subMultiset]
    | cons a as =>
      have hY' : RowsSorted bs := (List.pairwise_cons.mp hY).2
      have hX' : RowsSorted as := (List.pairwise_cons.mp hX).2
      rw [Spec.subMultiset]
      by_cases hab : a = b
      · subst hab
        simp only [beq_self_eq_true, if_true]
        exact ih as hX' hY' ((List.subperm_cons a).mp h)
      · have hab' : (a == b) = false := by simpa using hab
        simp only [hab', Bool.false_eq_true, if_false]
        by_cases hba : Spec.lexLe b a = true
        · simp only [hba, if_true]
          apply ih (a :: as) hX hY'
          have hnot : b ∉ a :: as := by
            intro hb
            rcases List.mem_cons.mp hb with hb | hb
            · exact hab hb.symm
            · have := (List.pairwise_cons.mp hX).1 b hb
              exact hab (lexLe_antisymm a b this hba)
          have := List.Subperm.erase b h
          rw [List.erase_of_not_mem hnot, List.erase_cons_head] at this
          exact this
        · exfalso
          have ha : a ∈ b :: bs := h.subset (List.mem_cons_self)
          rcases List.mem_cons.mp ha with ha | ha
          · exact hab ha
          · exact hba ((List.pairwise_cons.mp hY).1 a ha)

/-- **(1)** multiset inclusion of row lists is accepted by `Spec.subMultiset` after `Spec.sortRows` -/
theorem subMultiset_sortRows_of_subperm (A B : List (List Nat)) (h : A.Subperm B) :
    Spec.subMultiset (Spec.sortRows A) (Spec.sortRows B) = true := by
  apply subMultiset_of_sorted_subperm _ _ (sortRows_sorted A) (sortRows_sorted B)
  exact ((sortRows_perm_self A).subperm_right.mpr h).trans (sortRows_perm_self B).symm.subperm

example : Spec.subMultiset (Spec.sortRows [[3, 1], [2]]) (Spec.sortRows [[2], [5], [3, 1], [2]]) = true :=
  subMultiset_sortRows_of_subperm _ _ (by decide)

/-! ### (2) `canonTri` is invariant under rotation -/

/-- the smaller of two rows -/
def lmin (x y : List Nat) : List Nat := if Spec.lexLe x y then x else y

theorem lmin_le_left (x y : List Nat) : Spec.lexLe (lmin x y) x = true := by
  unfold lmin
  split
  · have := lexLe_total x x; simpa using this
  · have := lexLe_total x y
    rw [Bool.or_eq_true] at this
    rcases this with h | h
    · contradiction
    · exact h

theorem lmin_le_right (x y : List Nat) : Spec.lexLe (lmin x y) y = true := by
  unfold lmin
  split
  · assumption
  · have := lexLe_total y y; simpa using this

theorem lmin_mem (x y : List Nat) : lmin x y = x ∨ lmin x y = y := by
  unfold lmin
  split
  · exact Or.inl rfl
  · exact Or.inr rfl

/-- a lower bound of three rows that is one of them is their `lmin` -/
theorem lmin3_unique (x y z m : List Nat) (hm : m = x ∨ m = y ∨ m = z)
    (hx : Spec.lexLe m x = true) (hy : Spec.lexLe m y = true) (hz : Spec.lexLe m z = true) :
    lmin (lmin x y) z = m := by
  have h1 : Spec.lexLe (lmin (lmin x y) z) x = true :=
    lexLe_trans _ _ _ (lmin_le_left _ _) (lmin_le_left _ _)
  have h2 : Spec.lexLe (lmin (lmin x y) z) y = true :=
    lexLe_trans _ _ _ (lmin_le_left _ _) (lmin_le_right _ _)
  have h3 : Spec.lexLe (lmin (lmin x y) z) z = true := lmin_le_right _ _
  apply lexLe_antisymm
  · rcases hm with rfl | rfl | rfl <;> assumption
  · rcases lmin_mem (lmin x y) z with h | h
    · rcases lmin_mem x y with h' | h'
      · rw [h, h']; exact hx
      · rw [h, h']; exact hy
    · rw [h]; exact hz

theorem canonTri_eq_lmin (a b c : List Nat) :
    Spec.canonTri a b c = lmin (lmin (a ++ [1000000] ++ b ++ [1000000] ++ c)
      (b ++ [1000000] ++ c ++ [1000000] ++ a)) (c ++ [1000000] ++ a ++ [1000000] ++ b) := rfl

/-- **(2)** `canonTri` of a rotated triangle -/
theorem canonTri_rot (a b c : List Nat) : Spec.canonTri b c a = Spec.canonTri a b c := by
  rw [canonTri_eq_lmin, canonTri_eq_lmin]
  generalize a ++ [1000000] ++ b ++ [1000000] ++ c = x
  generalize b ++ [1000000] ++ c ++ [1000000] ++ a = y
  generalize c ++ [1000000] ++ a ++ [1000000] ++ b = z
  apply lmin3_unique
  · rcases lmin_mem (lmin x y) z with h | h
    · rcases lmin_mem x y with h' | h'
      · rw [h, h']; exact Or.inr (Or.inr rfl)
      · rw [h, h']; exact Or.inl rfl
    · rw [h]; exact Or.inr (Or.inl rfl)
  · exact lexLe_trans _ _ _ (lmin_le_left _ _) (lmin_le_right _ _)
  · exact lmin_le_right _ _
  · exact lexLe_trans _ _ _ (lmin_le_left _ _) (lmin_le_left _ _)

theorem canonTri_rot' (a b c : List Nat) : Spec.canonTri c a b = Spec.canonTri a b c :=
  (canonTri_rot c a b).symm

/-! ### (3) the face-level criterion for `Spec.checkCore .edgebreaker` -/

/-- the canonical triangle of expected corner tuples of an input face, as in `Spec.checkCore` -/
def T_exp (ms : List Spec.Matched) : Nat × Nat × Nat → List Nat :=
  fun (a, b, c) => Spec.canonTri (Spec.expTupleL ms a) (Spec.expTupleL ms b) (Spec.expTupleL ms c)

/-- the canonical triangle of decoded corner tuples of a decoded face, as in `Spec.checkCore` -/
def T_dec (ms : List Spec.Matched) : Nat × Nat × Nat → List Nat :=
  fun (a, b, c) => Spec.canonTri (Spec.decTupleL ms a) (Spec.decTupleL ms b) (Spec.decTupleL ms c)

/-- position value index of a point, as in `Spec.checkCore` -/
def posIdx (g : Geometry) (p : Nat) : Nat :=
  match g.atts.find? (·.attType == 0) with
  | some a => Spec.valueIndex a (a.map.map List.toArray) p
  | none => p

/-- the face uses three different position entries (faces that do not may be omitted by the codec) -/
def nondegFace (g : Geometry) : Nat × Nat × Nat → Bool :=
  fun (a, b, c) => posIdx g a != posIdx g b && posIdx g b != posIdx g c && posIdx g a != posIdx g c

/-- `Spec.checkCore .edgebreaker` in terms of `T_exp`, `T_dec`, `nondegFace` -/
theorem checkCore_edgebreaker_eq (req : Spec.QuantReq) (g g' gs : Geometry) (ms : List Spec.Matched)
    (hlen : g.atts.length = g'.atts.length)
    (huid : (g.atts.map (·.uniqueId)).Nodup)
    (hms : Spec.collect (g.atts.map (Spec.matchOne req g' gs)) = some ms) :
    Spec.checkCore .edgebreaker req g g' gs =
      (Spec.subMultiset (Spec.sortRows ((g.faces.filter (nondegFace g)).map (T_exp ms)))
          (Spec.sortRows (g'.faces.map (T_dec ms))) &&
        Spec.subMultiset (Spec.sortRows (g'.faces.map (T_dec ms)))
          (Spec.sortRows (g.faces.map (T_exp ms)))) := by
  unfold Spec.checkCore
  rw [hms]
  have hed : (g.atts.map (·.uniqueId)).eraseDups.length = (g.atts.map (·.uniqueId)).length := by
    rw [eraseDups_of_nodup _ huid]
  simp only [← hlen, beq_self_eq_true, hed, Bool.true_and]
  rfl

theorem subperm_map {α β : Type} (f : α → β) {l₁ l₂ : List α} (h : l₁.Subperm l₂) :
    (l₁.map f).Subperm (l₂.map f) := by
  obtain ⟨l, hp, hs⟩ := h
  exact ⟨l.map f, hp.map f, hs.map f⟩

theorem map_range_getD {α : Type} (l : List α) (d : α) :
    (List.range l.length).map (fun j => l.getD j d) = l := by
  apply List.ext_getElem
  · simp
  · intro i h1 h2
    simp only [List.getElem_map, List.getElem_range]
    simp [List.getD, h2]

theorem filter_map_eq_index {α β : Type} (l : List α) (d : α) (P : α → Bool) (f : α → β) :
    (l.filter P).map f =
      ((List.range l.length).filter (fun j => P (l.getD j d))).map (fun j => f (l.getD j d)) := by
  have : ∀ (L : List α), L = (List.range l.length).map (fun j => l.getD j d) →
      (L.filter P).map f =
        ((List.range l.length).filter (fun j => P (l.getD j d))).map (fun j => f (l.getD j d)) := by
    intro L hL
    subst hL
    rw [List.filter_map, List.map_map]
    rfl
  exact this l (map_range_getD l d).symm

/-- the two multiset inclusions behind the face-level criterion, for arbitrary face lists and
    face invariants -/
theorem faces_subperm {α β γ : Type} (d : α) (l : List α) (l' : List β) (f : α → γ) (f' : β → γ)
    (P : α → Bool) (σ : Nat → Nat)
    (hσlt : ∀ i, i < l'.length → σ i < l.length)
    (hσinj : ∀ i j, i < l'.length → j < l'.length → σ i = σ j → i = j)
    (hface : ∀ i (hi : i < l'.length), f' (l'[i]) = f (l[σ i]'(hσlt i hi)))
    (hcover : ∀ j (hj : j < l.length), P (l[j]) = true → ∃ i, i < l'.length ∧ σ i = j) :
    ((l.filter P).map f).Subperm (l'.map f') ∧ (l'.map f').Subperm (l.map f) := by
  have hidx_nd : ((List.range l'.length).map σ).Nodup := by
    apply List.Nodup.map_on _ List.nodup_range
    intro x hx y hy hxy
    exact hσinj x y (List.mem_range.mp hx) (List.mem_range.mp hy) hxy
  have hidx_map : ((List.range l'.length).map σ).map (fun j => f (l.getD j d)) = l'.map f' := by
    rw [List.map_map]
    apply List.ext_getElem
    · simp
    · intro i h1 h2
      have hi : i < l'.length := by simpa using h2
      simp only [List.getElem_map, List.getElem_range, Function.comp]
      rw [hface i hi]
      have := hσlt i hi
      simp [List.getD, this]
  constructor
  · rw [filter_map_eq_index l d P f, ← hidx_map]
    apply subperm_map
    apply List.subperm_of_subset (List.Nodup.filter _ List.nodup_range)
    intro j hj
    rw [List.mem_filter, List.mem_range] at hj
    obtain ⟨hjl, hP⟩ := hj
    have hg : l.getD j d = l[j] := by simp [List.getD, hjl]
    rw [hg] at hP
    obtain ⟨i, hi, rfl⟩ := hcover j hjl hP
    exact List.mem_map.mpr ⟨i, List.mem_range.mpr hi, rfl⟩
  · rw [← hidx_map]
    have : l.map f = (List.range l.length).map (fun j => f (l.getD j d)) := by
      conv_lhs => rw [← map_range_getD l d]
      rw [List.map_map]
      rfl
    rw [this]
    apply subperm_map
    apply List.subperm_of_subset hidx_nd
    intro j hj
    obtain ⟨i, hi, rfl⟩ := List.mem_map.mp hj
    exact List.mem_range.mpr (hσlt i (List.mem_range.mp hi))

/-- **(3)** the face-level criterion: `σ` maps decoded face indices injectively to input face
    indices, each decoded face has the canonical triangle of its input face, and every
    non-degenerate input face is hit -/
theorem checkCore_edgebreaker_of_faces (req : Spec.QuantReq) (g g' gs : Geometry) (ms : List Spec.Matched)
    (hlen : g.atts.length = g'.atts.length)
    (huid : (g.atts.map (·.uniqueId)).Nodup)
    (hms : Spec.collect (g.atts.map (Spec.matchOne req g' gs)) = some ms)
    (σ : Nat → Nat)
    (hσlt : ∀ i, i < g'.faces.length → σ i < g.faces.length)
    (hσinj : ∀ i j, i < g'.faces.length → j < g'.faces.length → σ i = σ j → i = j)
    (hface : ∀ i (hi : i < g'.faces.length),
      T_dec ms (g'.faces[i]) = T_exp ms (g.faces[σ i]'(hσlt i hi)))
    (hcover : ∀ j (hj : j < g.faces.length), nondegFace g (g.faces[j]) = true →
      ∃ i, i < g'.faces.length ∧ σ i = j) :
    Spec.checkCore .edgebreaker req g g' gs = true := by
  rw [checkCore_edgebreaker_eq req g g' gs ms hlen huid hms]
  obtain ⟨h1, h2⟩ := faces_subperm (0, 0, 0) g.faces g'.faces (T_exp ms) (T_dec ms) (nondegFace g) σ
    hσlt hσinj hface hcover
  rw [subMultiset_sortRows_of_subperm _ _ h1, subMultiset_sortRows_of_subperm _ _ h2]
  rfl

end Draco.EbEnc
