import DracoProofs.IODecimalExact
/-
  DracoProofs.IODecimalParse — what `parser::ParseFloat` does on the text `printf("%F")` produces,
  for arbitrary `double` operations: the integer digits are folded by `v = v * 10 + d`, the fraction
  digits by `fr = fr * 0.1; v = v + d * fr`, nothing is left unread.
-/
namespace Draco.IO.Dec

variable {D : Type} [ops : DecOps D]

/-- `v *= 10.0; v += d` over the integer digits -/
def intFold : List Nat → D → D
  | [], v => v
  | d :: r, v => intFold r (ops.add (ops.mul v ops.ten) (ops.ofDigit d))

/-- `fraction *= 0.1; v += d * fraction` over the fraction digits -/
def fracFold : List Nat → D → D → D
  | [], v, _ => v
  | d :: r, v, fr => fracFold r (ops.add v (ops.mul (ops.ofDigit d) (ops.mul fr ops.tenth))) (ops.mul fr ops.tenth)

theorem digitChar_facts (d : Nat) (h : d < 10) :
    isDigitC (digitChar d) = true ∧ (digitChar d).toNat - 48 = d ∧ digitChar d ≠ '-' ∧ digitChar d ≠ '+' ∧
    digitChar d ≠ '.' ∧ digitChar d ≠ 'e' ∧ digitChar d ≠ 'E' := by
  interval_cases d <;> decide

theorem intLoop_digits (ds : List Nat) (hds : ∀ d ∈ ds, d < 10) (rest : List Char)
    (hrest : ∀ c r, rest = c :: r → isDigitC c = false) (v : D) (hd : Bool) :
    intLoop (ds.map digitChar ++ rest) v hd = (intFold ds v, hd || !ds.isEmpty, rest) := by
  induction ds generalizing v hd with
  | nil =>
    cases rest with
    | nil => simp [intLoop, intFold]
    | cons c r => simp [intLoop, intFold, hrest c r rfl]
  | cons d ds ih =>
    obtain ⟨h1, h2, -⟩ := digitChar_facts d (hds d (by simp))
    simp only [List.map_cons, List.cons_append, intLoop, h1, if_true, h2, intFold]
    rw [ih (fun x hx => hds x (by simp [hx]))]
    simp

theorem fracLoop_digits (ds : List Nat) (hds : ∀ d ∈ ds, d < 10) (v fr : D) (hd : Bool) :
    fracLoop (ds.map digitChar) v fr hd = (fracFold ds v fr, hd || !ds.isEmpty, []) := by
  induction ds generalizing v fr hd with
  | nil => simp [fracLoop, fracFold]
  | cons d ds ih =>
    obtain ⟨h1, h2, -⟩ := digitChar_facts d (hds d (by simp))
    simp only [List.map_cons, fracLoop, h1, if_true, h2, fracFold]
    rw [ih (fun x hx => hds x (by simp [hx]))]
    simp

/-- `ParseFloat` on `<integer digits>.<fraction digits>` after the sign -/
theorem parseMag_decimal (neg : Bool) (ints fracs : List Nat) (hi : ints ≠ [])
    (hil : ∀ d ∈ ints, d < 10) (hfl : ∀ d ∈ fracs, d < 10) :
    parseMag (D := D) neg (ints.map digitChar ++ '.' :: fracs.map digitChar) =
      some ⟨neg, fracFold fracs (intFold ints ops.zero) ops.one, false, []⟩ := by
  unfold parseMag
  have h1 := intLoop_digits (D := D) ints hil ('.' :: fracs.map digitChar)
    (by intro c r h; cases h; decide) ops.zero false
  have hne : ints.isEmpty = false := by cases ints <;> simp_all
  rw [h1]
  simp only [hne, Bool.not_false, Bool.false_or, if_true]
  rw [fracLoop_digits fracs hfl]
  simp

theorem splitSign_neg (cs : List Char) : splitSign ('-' :: cs) = (true, cs) := by
  simp [splitSign]

theorem splitSign_digit (d : Nat) (h : d < 10) (cs : List Char) :
    splitSign (digitChar d :: cs) = (false, digitChar d :: cs) := by
  obtain ⟨-, -, h1, h2, -⟩ := digitChar_facts d h
  simp [splitSign, h1, h2]

/-- `ParseFloat` on an optional `-` followed by `<integer digits>.<fraction digits>` -/
theorem parseCore_decimal (neg : Bool) (ints fracs : List Nat) (hi : ints ≠ [])
    (hil : ∀ d ∈ ints, d < 10) (hfl : ∀ d ∈ fracs, d < 10) :
    parseCore (D := D) ((if neg then ['-'] else []) ++ ints.map digitChar ++ '.' :: fracs.map digitChar) =
      some ⟨neg, fracFold fracs (intFold ints ops.zero) ops.one, false, []⟩ := by
  unfold parseCore
  cases neg with
  | true =>
    simp only [if_true, List.cons_append, List.nil_append, List.isEmpty_cons, Bool.false_eq_true, if_false,
      splitSign_neg]
    exact parseMag_decimal true ints fracs hi hil hfl
  | false =>
    cases ints with
    | nil => exact absurd rfl hi
    | cons d ds =>
      simp only [Bool.false_eq_true, if_false, List.nil_append, List.map_cons, List.cons_append,
        List.isEmpty_cons, splitSign_digit d (hil d (by simp))]
      have := parseMag_decimal (D := D) false (d :: ds) fracs hi hil hfl
      simpa using this

theorem parseCore_INF : parseCore (D := D) ['I', 'N', 'F'] = none := by
  have h : isDigitC 'I' = false := by decide
  simp [parseCore, splitSign, parseMag, intLoop, h]

theorem parseCore_NAN : parseCore (D := D) ['N', 'A', 'N'] = none := by
  have h : isDigitC 'N' = false := by decide
  simp [parseCore, splitSign, parseMag, intLoop, h]

theorem parseCore_negINF : parseCore (D := D) ['-', 'I', 'N', 'F'] = none := by
  have h : isDigitC 'I' = false := by decide
  simp [parseCore, splitSign, parseMag, intLoop, h]

theorem parseCore_negNAN : parseCore (D := D) ['-', 'N', 'A', 'N'] = none := by
  have h : isDigitC 'N' = false := by decide
  simp [parseCore, splitSign, parseMag, intLoop, h]

/-- the writer never prints something the reader accepts for a non-finite value: `INF`, `-INF`,
    `NAN`, `-NAN` are rejected (the reader knows `inf`, `Inf`, `nan`, `NaN` only) -/
theorem parseCore_nonfinite (bits : Nat) (h : f32Finite bits = false) :
    parseCore (D := D) (fmtChars bits) = none := by
  unfold fmtChars fmtCharsFull
  simp only [h, Bool.not_false, if_true]
  by_cases hn : f32Neg bits = true <;> by_cases hm : bits % 2^23 = 0
  · simp only [hn, hm, if_true]; exact parseCore_negINF
  · simp only [hn, hm, if_true, if_false]; exact parseCore_negNAN
  · simp only [hn, hm, if_true]; exact parseCore_INF
  · simp only [hn, hm, if_false]; exact parseCore_NAN

end Draco.IO.Dec
