import DracoProofs.Tagged
import DracoProofs.RansComplete
/-
  `EncodeSymbols` fails exactly where the C++ says so: for an oracle satisfying `OracleOK`
  (`ProbOracle.Regular`) neither `RAnsSymbolEncoder::Create` nor the rANS coder can fail, so the
  only `none` results of `encodeSymbolsWith` are the structural ones.
-/
namespace Draco

/-- `OracleOK` for every positive total frequency and every precision -/
def ProbOracle.Regular (o : ProbOracle) : Prop := ∀ T P, 0 < T → OracleOK o T P

theorem exactOracle_regular : ProbOracle.exact.Regular := fun T P hT => exactOracle_ok T P hT

/-- `num_unique_symbols` as computed by `ComputeShannonEntropy` for the raw scheme -/
def numUniqueSymbols (syms : List Nat) : Nat :=
  ((countFreqs (listMax syms + 1) syms).toList.filter (· > 0)).length

/-! ### the precision chosen by the raw scheme is large enough -/

/-- `EncodeRawSymbols`: for every compression level (also outside 0..10) the rANS precision
    selected for `u` distinct symbols, `u` of bit length ≤ 18, exceeds `4·u`. -/
theorem rawPrecision_suffices (u level : Nat) (h : bitLength u ≤ 18) :
    4 * u ≤ 2 ^ ransPrecisionBits (rawBitLength u level) := by
  have hu := lt_two_pow_bitLength u
  have hb : 1 ≤ bitLength u := by simp only [bitLength]; split <;> omega
  simp only [rawBitLength]
  generalize bitLength u = b at h hu hb ⊢
  have hadj : b - 2 ≤ (if level < 4 then b - 2 else if level < 6 then b - 1
      else if level > 9 then b + 2 else if level > 7 then b + 1 else b) := by
    split
    · omega
    · split
      · omega
      · split
        · omega
        · split <;> omega
  generalize (if level < 4 then b - 2 else if level < 6 then b - 1
      else if level > 9 then b + 2 else if level > 7 then b + 1 else b) = a at hadj ⊢
  have hc1 : b - 2 ≤ min (max 1 a) 18 := by omega
  have hc2 : 1 ≤ min (max 1 a) 18 := by omega
  generalize min (max 1 a) 18 = c at hc1 hc2 ⊢
  have key : b + 2 ≤ ransPrecisionBits c := by
    simp only [ransPrecisionBits]
    split
    · omega
    · split <;> omega
  have h1 : 2 ^ (b + 2) ≤ 2 ^ ransPrecisionBits c := Nat.pow_le_pow_right (by decide) key
  have h2 : 2 ^ (b + 2) = 4 * 2 ^ b := by rw [Nat.pow_add]; omega
  omega

/-! ### the two schemes cannot fail -/

theorem sum_pos_of_getD_pos (l : List Nat) (s : Nat) (h : 0 < l.getD s 0) : 0 < sumNat l := by
  rw [sumNat_eq_sum]
  have hs := getD_pos_lt_length l s h
  have : l.getD s 0 ∈ l := by
    rw [List.getD_eq_getElem?_getD, List.getElem?_eq_getElem hs]
    exact List.getElem_mem hs
  have := mem_le_sum l _ this
  omega

theorem rawInternal_complete (o : ProbOracle) (hreg : o.Regular) (bitLen : Nat) (syms : List Nat)
    (maxValue : Nat) (hne : syms ≠ []) (hmax : ∀ s ∈ syms, s ≤ maxValue) (hmv : maxValue < 2 ^ 31)
    (hlen : syms.length < 2 ^ 32)
    (hu : ((countFreqs (maxValue + 1) syms).toList.filter (· > 0)).length
      < 2 ^ ransPrecisionBits bitLen) :
    ∃ bs, encodeRawSymbolsInternal o bitLen syms maxValue = some bs := by
  obtain ⟨s0, hs0⟩ := List.exists_mem_of_ne_nil syms hne
  have hpos0 := countFreqs_pos (maxValue + 1) syms s0 hs0 (by have := hmax s0 hs0; omega)
  have hT := sum_pos_of_getD_pos _ _ hpos0
  have hpb := ransPrecisionBits_le bitLen
  have hfl : (countFreqs (maxValue + 1) syms).toList.length < 2 ^ 32 := by
    rw [countFreqs_length]; omega
  obtain ⟨probs, tbl, hc⟩ := encoderCreate_complete o _ (by omega) _ hfl hT (hreg _ _ hT) hu
  obtain ⟨⟨t, ht⟩, _, hpos, _⟩ := encoderCreate_spec o _ hpb _ probs tbl hfl hc
  have hsyms : ∀ s ∈ syms, 0 < probs.getD s 0 := by
    intro s hs
    exact hpos s (countFreqs_pos _ syms s hs (by have := hmax s hs; omega))
  obtain ⟨body, he, _⟩ := rans_roundtrip_aux _ hpb probs syms t ht hsyms (by omega)
  exact ⟨tbl ++ body, by simp only [encodeRawSymbolsInternal, hc, he]⟩

theorem bitLength_le_32 (n : Nat) (h : n < 2 ^ 32) : bitLength n ≤ 32 := by
  simp only [bitLength]
  split
  · have : Nat.log2 n < 32 := (Nat.log2_lt (by omega)).mpr h
    omega
  · omega

theorem tagged_complete (o : ProbOracle) (hreg : o.Regular) (groups : List (List Nat))
    (hne : groups ≠ []) (hmax : ∀ g ∈ groups, listMax g < 2 ^ 32) (hlen : groups.length < 2 ^ 32) :
    ∃ bs, encodeTaggedSymbols o groups (groups.map fun g => bitLength (listMax g)) = some bs := by
  generalize hbls : (groups.map fun g => bitLength (listMax g)) = bls
  have hblen : bls.length = groups.length := by rw [← hbls]; simp
  have hlt33 : ∀ bl ∈ bls, bl < 33 := by
    intro bl hbl
    rw [← hbls] at hbl
    obtain ⟨g, hg, rfl⟩ := List.mem_map.mp hbl
    have := bitLength_le_32 _ (hmax g hg)
    omega
  have hany : bls.any (· ≥ 33) = false := by
    rw [List.any_eq_false]
    intro bl hbl
    have := hlt33 bl hbl
    simp; omega
  obtain ⟨b0, hb0⟩ : ∃ b0, b0 ∈ bls := by
    apply List.exists_mem_of_ne_nil
    intro h; rw [h] at hblen; simp at hblen
    exact hne (List.length_eq_zero_iff.mp hblen.symm)
  have hpos0 := countFreqs_pos 33 bls b0 hb0 (hlt33 b0 hb0)
  have hT := sum_pos_of_getD_pos _ _ hpos0
  have hpb := ransPrecisionBits_le 5
  have hfl : (countFreqs 33 bls).toList.length < 2 ^ 32 := by rw [countFreqs_length]; decide
  have hused : ((countFreqs 33 bls).toList.filter (· > 0)).length < 2 ^ ransPrecisionBits 5 := by
    have h1 := List.length_filter_le (· > 0) (countFreqs 33 bls).toList
    rw [countFreqs_length] at h1
    have : (2:Nat) ^ ransPrecisionBits 5 = 4096 := by decide
    omega
  obtain ⟨probs, tbl, hc⟩ := encoderCreate_complete o _ (by omega) _ hfl hT (hreg _ _ hT) hused
  obtain ⟨⟨t, ht⟩, _, hpos, _⟩ := encoderCreate_spec o _ hpb _ probs tbl hfl hc
  have hsyms : ∀ s ∈ bls, 0 < probs.getD s 0 := by
    intro s hs
    exact hpos s (countFreqs_pos _ bls s hs (hlt33 s hs))
  obtain ⟨tags, he, _⟩ := rans_roundtrip_aux _ hpb probs bls t ht hsyms (by omega)
  simp only [encodeTaggedSymbols, hany, Bool.false_eq_true, if_false, hc, he]
  exact ⟨_, rfl⟩

/-! ### `EncodeSymbols` -/

theorem listMax_le_of_mem_chunks (c : Nat) : ∀ (f : Nat) (l : List Nat) (g : List Nat),
    g ∈ chunksOf c f l → ∀ v ∈ g, v ∈ l := by
  intro f
  induction f with
  | zero => intro l g hg; simp [chunksOf] at hg
  | succ f ih =>
    intro l g hg v hv
    simp only [chunksOf] at hg
    split at hg
    · simp at hg
    · rcases List.mem_cons.mp hg with h | h
      · subst h; exact List.mem_of_mem_take hv
      · exact List.mem_of_mem_drop (ih _ g h v hv)

theorem listMax_le (l : List Nat) (b : Nat) (h : ∀ v ∈ l, v ≤ b) : listMax l ≤ b := by
  have : ∀ (l : List Nat) (a : Nat), a ≤ b → (∀ v ∈ l, v ≤ b) → l.foldl max a ≤ b := by
    intro l
    induction l with
    | nil => intro a ha _; exact ha
    | cons x l ih =>
      intro a ha hx
      simp only [List.foldl_cons]
      exact ih _ (Nat.max_le.mpr ⟨ha, hx x (by simp)⟩) (fun v hv => hx v (by simp [hv]))
  exact this l 0 (Nat.zero_le _) h

/-- `encodeSymbolsWith … = none` exactly in the structural cases -/
theorem encodeSymbolsWith_none_iff (o : ProbOracle) (hreg : o.Regular) (choice : Scheme)
    (level comps : Nat) (syms : List Nat) (hlen : syms.length < 2 ^ 32) :
    encodeSymbolsWith o choice level comps syms = none ↔
      syms ≠ [] ∧
      (syms.length % (if comps = 0 then 1 else comps) ≠ 0 ∨ listMax syms ≥ 2 ^ 32 ∨
        (choice = .raw ∧ (listMax syms ≥ 2 ^ 31 ∨ bitLength (numUniqueSymbols syms) > 18))) := by
  simp only [encodeSymbolsWith]
  by_cases hem : syms = []
  · subst hem; simp
  · have hem' : syms.isEmpty = false := by cases syms <;> simp_all
    simp only [hem', Bool.false_eq_true, if_false, ne_eq, hem, not_false_eq_true, true_and]
    generalize hcdef : (if comps = 0 then 1 else comps) = c
    have hc : 0 < c := by rw [← hcdef]; split <;> omega
    by_cases hmod : syms.length % c = 0
    · simp only [hmod, not_true_eq_false, if_false, false_or]
      by_cases hmv : listMax syms ≥ 2 ^ 32
      · simp only [hmv, if_true, true_or]
      · simp only [hmv, if_false, false_or]
        cases choice with
        | tagged =>
          simp only [chunksOfTR_eq, List.reverse_nil, List.nil_append, reduceCtorEq, false_and,
            iff_false]
          have hm : syms.length = syms.length / c * c :=
            (Nat.div_mul_cancel (Nat.dvd_of_mod_eq_zero hmod)).symm
          have hle : syms.length / c ≤ syms.length := Nat.div_le_self _ _
          obtain ⟨g1, g2, g3⟩ := chunksOf_spec c hc (syms.length / c) syms.length syms hm hle
          have hgne : chunksOf c syms.length syms ≠ [] := by
            intro h0
            rw [h0] at g1
            exact hem (by simpa using g1.symm)
          obtain ⟨bs, hb⟩ := tagged_complete o hreg (chunksOf c syms.length syms) hgne
            (by
              intro g hg
              have : listMax g ≤ listMax syms :=
                listMax_le g _ (fun v hv =>
                  le_listMax syms v (listMax_le_of_mem_chunks c _ _ g hg v hv))
              omega)
            (by omega)
          rw [hb]; simp
        | raw =>
          simp only [true_and]
          by_cases h31 : listMax syms ≥ 2 ^ 31
          · simp only [h31, if_true, true_or]
          · simp only [h31, if_false, false_or]
            show (match encodeRawSymbols o level syms (listMax syms) (numUniqueSymbols syms) with
              | none => none
              | some bs => some (Scheme.toByte .raw :: bs)) = none ↔ _
            simp only [encodeRawSymbols]
            by_cases h18 : bitLength (numUniqueSymbols syms) > 18
            · simp only [h18, if_true]
            · simp only [h18, if_false, iff_false]
              have hp := rawPrecision_suffices (numUniqueSymbols syms) level (by omega)
              obtain ⟨bs, hb⟩ := rawInternal_complete o hreg (rawBitLength (numUniqueSymbols syms) level)
                syms (listMax syms) hem (fun s hs => le_listMax syms s hs) (by omega) hlen
                (by
                  show numUniqueSymbols syms < _
                  have : 0 < 2 ^ ransPrecisionBits (rawBitLength (numUniqueSymbols syms) level) :=
                    Nat.two_pow_pos _
                  omega)
              rw [hb]; simp
    · simp [hmod]

end Draco
