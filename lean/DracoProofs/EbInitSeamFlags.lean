import DracoProofs.EbValuesRefine
/-
  The seam-edge flags `InitFromAttribute` (model `initFromAttribute`, seam-marking loop `ValuesRefine.seamLoop`) produces:
  `initFromAttribute_flags` — for a table with `CTOK` and an involutive `Opposite`, the flags `is_edge_on_seam_` are
  SYMMETRIC across every interior edge and SET at every boundary corner of a non-degenerate face: the hypotheses `hsym`,
  `hbnd` of `ConnGlueAtt.seamLink_of_link` / `link_of_loop_att` (and of `Seams.seam_flags_correspond`).
  Method: EXACT (not only monotone) descriptions of what `inStep` / the comparison loop / `outStep` set (`inStep_exact`,
  `inLoop_exact`, `outStep_exact`: nothing, `{c}`, or `{c, Opposite c}`), and the loop invariant `FlagInv`.
-/
namespace Draco.EbEnc.InitSeamFlags
open Draco
open Draco.Eb hiding iabs nextC prevC
open Draco.EbEnc.EncCounts Draco.EbEnc.Seams Draco.EbEnc.ValuesRefine

/-- the flags `es'` are the flags `es` with the corners in `P` set -/
def SetOn (es es' : Array Bool) (P : Nat → Prop) [DecidablePred P] : Prop :=
  es'.size = es.size ∧ ∀ x, x < es.size → es'[x]! = if P x then true else es[x]!

theorem SetOn.none (es : Array Bool) : SetOn es es (fun _ => False) := ⟨rfl, fun x _ => by simp⟩

/-- one comparison, exactly: the two flags `c`, `o` are set and the loop ends, or nothing changes -/
theorem inStep_exact {t : CT} {cv : Array Nat} {c o x : Nat} {s : ISt} {r : ForInStep ISt}
    (h : inStep t cv c o x s = .ok r) :
    (∃ s', r = .done s' ∧ c < s.1.size ∧ o < s.1.size ∧ SetOn s.1 s'.1 (fun x => x = c ∨ x = o)) ∨
      (∃ s', r = .yield s' ∧ s'.1 = s.1) := by
  unfold inStep at h
  obtain ⟨a, ha, h⟩ := (bind_ok_iff _ _ _).mp h
  obtain ⟨b, hb, h⟩ := (bind_ok_iff _ _ _).mp h
  rcases ite_ok h with ⟨hc, h⟩ | ⟨hc, h⟩
  · left
    obtain ⟨es1, h1, h⟩ := (bind_ok_iff _ _ _).mp h
    obtain ⟨es2, h2, h⟩ := (bind_ok_iff _ _ _).mp h
    obtain ⟨v1, _, h⟩ := (bind_ok_iff _ _ _).mp h
    obtain ⟨vs1, _, h⟩ := (bind_ok_iff _ _ _).mp h
    obtain ⟨v2, _, h⟩ := (bind_ok_iff _ _ _).mp h
    obtain ⟨vs2, _, h⟩ := (bind_ok_iff _ _ _).mp h
    obtain ⟨v3, _, h⟩ := (bind_ok_iff _ _ _).mp h
    obtain ⟨vs3, _, h⟩ := (bind_ok_iff _ _ _).mp h
    obtain ⟨v4, _, h⟩ := (bind_ok_iff _ _ _).mp h
    obtain ⟨vs4, _, h⟩ := (bind_ok_iff _ _ _).mp h
    obtain ⟨a1, a2, a3⟩ := wrB_ok h1
    obtain ⟨b1, b2, b3⟩ := wrB_ok h2
    refine ⟨_, pure_ok h, a1, by omega, by show es2.size = _; omega, fun x hx => ?_⟩
    show es2[x]! = _
    rw [b3 x (by omega), a3 x hx]
    by_cases e1 : x = o <;> by_cases e2 : x = c <;> simp [e1, e2]
  · right
    exact ⟨_, pure_ok h, rfl⟩

/-- the comparison loop of one edge, exactly -/
theorem inLoop_exact {t : CT} {cv : Array Nat} {c o : Nat} {s r : ISt}
    (h : forIn [:2] s (inStep t cv c o) = .ok r) :
    (c < s.1.size ∧ o < s.1.size ∧ SetOn s.1 r.1 (fun x => x = c ∨ x = o)) ∨ r.1 = s.1 := by
  rw [range_forIn] at h
  simp only [List.range'_succ, List.range'_zero, List.forIn_cons, List.forIn_nil] at h
  obtain ⟨r1, h1, h⟩ := (bind_ok_iff _ _ _).mp h
  rcases inStep_exact h1 with ⟨s1, rfl, k1, k2, k3⟩ | ⟨s1, rfl, k1⟩
  · have := pure_ok h; subst this
    exact Or.inl ⟨k1, k2, k3⟩
  · simp only at h
    obtain ⟨r2, h2, h⟩ := (bind_ok_iff _ _ _).mp h
    rcases inStep_exact h2 with ⟨s2, rfl, j1, j2, j3⟩ | ⟨s2, rfl, j1⟩
    · have := pure_ok h; subst this
      rw [k1] at j1 j2 j3
      exact Or.inl ⟨j1, j2, j3⟩
    · simp only at h
      have := pure_ok h; subst this
      exact Or.inr (j1.trans k1)

/-- the body for the corner `c`, exactly: nothing changes (and `c` is not a boundary corner of a non-degenerate face), or
    the flag of the boundary corner `c` is set, or the flags of `c` and of its opposite corner are set -/
theorem outStep_exact {t : CT} {cv : Array Nat} (hk : CTOK t) {c : Nat} (hc : c < t.numCorners) {s : ValuesRefine.OSt}
    {r : ForInStep ValuesRefine.OSt} (h : outStep t cv c s = .ok r) :
    ∃ s', r = .yield s' ∧
      ((s'.1 = s.1 ∧ ¬ (isDegenA t.c2v (c / 3) = false ∧ t.opp[c]! = inv)) ∨
       (t.opp[c]! = inv ∧ c < s.1.size ∧ SetOn s.1 s'.1 (fun x => x = c)) ∨
       (t.opp[c]! ≠ inv ∧ c < s.1.size ∧ t.opp[c]! < s.1.size ∧ SetOn s.1 s'.1 (fun x => x = c ∨ x = t.opp[c]!))) := by
  have h3 := hk.three
  have hfit := hk.fits
  unfold CT.numCorners at hc
  have hci : c ≠ inv := by omega
  unfold outStep at h
  obtain ⟨d, hd, h⟩ := (bind_ok_iff _ _ _).mp h
  have hdA := isDegenerated_ok hk (f := c / 3) (by omega) hd
  rcases ite_ok h with ⟨hdt, h⟩ | ⟨hdt, h⟩
  · refine ⟨_, pure_ok h, Or.inl ⟨rfl, fun hh => ?_⟩⟩
    rw [← hdA, hdt] at hh
    exact absurd hh.1 (by decide)
  obtain ⟨o, ho, h⟩ := (bind_ok_iff _ _ _).mp h
  have hov := opposite_ok ho hci
  rcases ite_ok h with ⟨hoi, h⟩ | ⟨hoi, h⟩
  · obtain ⟨es, he, h⟩ := (bind_ok_iff _ _ _).mp h
    obtain ⟨v1, _, h⟩ := (bind_ok_iff _ _ _).mp h
    obtain ⟨vs1, _, h⟩ := (bind_ok_iff _ _ _).mp h
    obtain ⟨v2, _, h⟩ := (bind_ok_iff _ _ _).mp h
    obtain ⟨vs2, _, h⟩ := (bind_ok_iff _ _ _).mp h
    obtain ⟨a1, a2, a3⟩ := wrB_ok he
    have : o = inv := by simpa using hoi
    refine ⟨_, pure_ok h, Or.inr (Or.inl ⟨by rw [← hov]; exact this, a1, a2, fun x hx => ?_⟩)⟩
    exact a3 x hx
  have hone : t.opp[c]! ≠ inv := by rw [← hov]; simpa using hoi
  rcases ite_ok h with ⟨_, h⟩ | ⟨_, h⟩
  · exact ⟨_, pure_ok h, Or.inl ⟨rfl, fun hh => hone hh.2⟩⟩
  obtain ⟨q, hq, h⟩ := (bind_ok_iff _ _ _).mp h
  refine ⟨_, pure_ok h, ?_⟩
  rcases inLoop_exact hq with ⟨k1, k2, k3⟩ | k
  · rw [hov] at k2 k3
    exact Or.inr (Or.inr ⟨hone, k1, k2, k3⟩)
  · exact Or.inl ⟨k, fun hh => hone hh.2⟩

/-- the invariant of the seam-marking loop: the flags are symmetric across interior edges, and set at the boundary
    corners of the non-degenerate faces already handled -/
def FlagInv (t : CT) (k : Nat) (es : Array Bool) : Prop :=
  es.size = t.numCorners ∧ (∀ c, c < t.numCorners → t.opp[c]! ≠ inv → es[t.opp[c]!]! = es[c]!) ∧
    ∀ c, c < k → isDegenA t.c2v (c / 3) = false → t.opp[c]! = inv → es[c]! = true

theorem flagInv_step {t : CT} {cv : Array Nat} (hk : CTOK t)
    (hinvol : ∀ c, c < t.numCorners → t.opp[c]! ≠ inv → t.opp[t.opp[c]!]! = c)
    {j : Nat} (hj : j < t.numCorners) {s : ValuesRefine.OSt} {r : ForInStep ValuesRefine.OSt}
    (hI : FlagInv t j s.1) (h : outStep t cv j s = .ok r) : ∃ s', r = .yield s' ∧ FlagInv t (j + 1) s'.1 := by
  have hfit : t.numCorners ≤ inv := hk.fits
  have hlt : ∀ c, c < t.numCorners → t.opp[c]! ≠ inv → t.opp[c]! < t.numCorners := by
    intro c hc hne
    have := hk.opp_lt c hc (by rw [ValuesRefine.vget_eq]; exact hne)
    rw [ValuesRefine.vget_eq] at this
    exact this
  obtain ⟨hsz, hsym, hbnd⟩ := hI
  obtain ⟨s', rfl, hcase⟩ := outStep_exact hk hj h
  refine ⟨s', rfl, ?_⟩
  rcases hcase with ⟨e, hn⟩ | ⟨ho, hjs, h1, h2⟩ | ⟨ho, hjs, hos, h1, h2⟩
  · rw [e]
    refine ⟨hsz, hsym, fun c hc hd hoc => ?_⟩
    by_cases ecj : c = j
    · subst ecj; exact absurd ⟨hd, hoc⟩ hn
    · exact hbnd c (by omega) hd hoc
  · refine ⟨h1.trans hsz, fun c hc hne => ?_, fun c hc hd hoc => ?_⟩
    · have hcj : c ≠ j := by intro e; subst e; exact hne ho
      have hocj : t.opp[c]! ≠ j := by
        intro e
        have := hinvol c hc hne
        rw [e, ho] at this
        omega
      rw [h2 _ (by rw [hsz]; exact hlt c hc hne), h2 c (by rw [hsz]; exact hc), if_neg hocj, if_neg hcj]
      exact hsym c hc hne
    · rw [h2 c (by rw [hsz]; omega)]
      by_cases ecj : c = j
      · rw [if_pos ecj]
      · rw [if_neg ecj]; exact hbnd c (by omega) hd hoc
  · have hoj : t.opp[t.opp[j]!]! = j := hinvol j hj ho
    have holt := hlt j hj ho
    refine ⟨h1.trans hsz, fun c hc hne => ?_, fun c hc hd hoc => ?_⟩
    · rw [h2 _ (by rw [hsz]; exact hlt c hc hne), h2 c (by rw [hsz]; exact hc)]
      by_cases e1 : c = j
      · subst e1; simp
      · by_cases e2 : c = t.opp[j]!
        · rw [e2, hoj]; simp
        · have g1 : t.opp[c]! ≠ j := by
            intro e
            have := hinvol c hc hne
            rw [e] at this
            exact e2 this.symm
          have g2 : t.opp[c]! ≠ t.opp[j]! := by
            intro e
            have := hinvol c hc hne
            rw [e, hoj] at this
            exact e1 this.symm
          rw [if_neg (by rintro (e | e); exact g1 e; exact g2 e), if_neg (by rintro (e | e); exact e1 e; exact e2 e)]
          exact hsym c hc hne
    · have e1 : c ≠ j := by intro e; subst e; exact ho hoc
      have e2 : c ≠ t.opp[j]! := by
        intro e
        rw [e, hoj] at hoc
        omega
      rw [h2 c (by rw [hsz]; omega), if_neg (by rintro (e | e); exact e1 e; exact e2 e)]
      exact hbnd c (by omega) hd hoc

/-- **the seam flags of the seam-marking loop**: symmetric across interior edges, set on the boundary edges of the
    non-degenerate faces -/
theorem seamLoop_flags {t : CT} {cv : Array Nat} (hk : CTOK t)
    (hinvol : ∀ c, c < t.numCorners → t.opp[c]! ≠ inv → t.opp[t.opp[c]!]! = c)
    {s : ValuesRefine.OSt} (h : ValuesRefine.seamLoop t cv = .ok s) : FlagInv t t.numCorners s.1 := by
  unfold ValuesRefine.seamLoop at h
  rw [Seams.range_forIn] at h
  have key := Seams.loop_inv_ok (outStep t cv) (fun k s => FlagInv t k s.1) t.numCorners 0
    (fun j s r _ hj hI hr => flagInv_step hk hinvol (by omega) hI hr) _ s
    ⟨by simp, fun c hc hne => by
      have hlt : t.opp[c]! < t.numCorners := by
        have := hk.opp_lt c hc (by rw [ValuesRefine.vget_eq]; exact hne)
        rw [ValuesRefine.vget_eq] at this
        exact this
      simp [hc, hlt], fun c hc => by omega⟩ h
  simpa using key

/-- **(3) the seam flags of `InitFromAttribute`** (`hsym`, `hbnd` of `seamLink_of_link` / `link_of_loop_att`): for a table
    with `CTOK` and an involutive `Opposite`, the flags of a successful `initFromAttribute` are symmetric across interior
    edges and set at every boundary corner of a non-degenerate face -/
theorem initFromAttribute_flags {t : CT} {cv : Array Nat} {a : AttConn} (hk : CTOK t)
    (hinvol : ∀ c, c < t.numCorners → t.opp[c]! ≠ inv → t.opp[t.opp[c]!]! = c)
    (h : initFromAttribute t cv = .ok a) :
    a.edgeSeam.size = t.numCorners ∧
    (∀ c, c < t.numCorners → t.opp[c]! ≠ inv → a.edgeSeam[t.opp[c]!]! = a.edgeSeam[c]!) ∧
    (∀ c, c < t.numCorners → isDegenA t.c2v (c / 3) = false → t.opp[c]! = inv → a.edgeSeam[c]! = true) := by
  obtain ⟨s, hs, e1, _⟩ := initFromAttribute_ok h
  rw [e1]
  exact seamLoop_flags hk hinvol hs

end Draco.EbEnc.InitSeamFlags
