import DracoProofs.DedupCore
/-
  DracoProofs.DedupFast — the hash-table loop `dedupFast` run by the model computes exactly the
  specification `dedupAux []`, whatever the hash function and the number of buckets.
-/
namespace Draco

theorem findIx_append_new {e e' : List Nat} {seen : List (List Nat)} (hne : e ≠ e') :
    findIx e (seen ++ [e']) = findIx e seen := by
  induction seen with
  | nil =>
    have : ¬ e' = e := fun h => hne h.symm
    simp [findIx, this]
  | cons x xs ih =>
    simp only [List.cons_append, findIx]
    split
    · rfl
    · rw [ih]

theorem findIx_append_self {e : List Nat} {seen : List (List Nat)} (h : e ∉ seen) :
    findIx e (seen ++ [e]) = some seen.length := by
  induction seen with
  | nil => simp [findIx]
  | cons x xs ih =>
    have hx : x ≠ e := fun hh => h (by simp [hh])
    have hxs : e ∉ xs := fun hh => h (by simp [hh])
    simp only [List.cons_append, findIx, hx, if_false, ih hxs, Option.map_some, List.length_cons]

/-- the table represents the keys `seen` (in the order of their numbers) -/
structure DTable.Rel (t : DTable) (seen : List (List Nat)) : Prop where
  size : 0 < t.buckets.size
  count : t.count = seen.length
  find : ∀ e, t.find e = findIx e seen

theorem DTable.insert_rel {t : DTable} {seen : List (List Nat)} (h : t.Rel seen) (e : List Nat)
    (hnew : t.find e = none) : (t.insert e).Rel (seen ++ [e]) := by
  have hne : e ∉ seen := by
    have := h.find e
    rw [hnew] at this
    exact findIx_none.1 this.symm
  have hsz : (t.insert e).buckets.size = t.buckets.size := by simp [DTable.insert]
  have hslotlt : t.slot e < t.buckets.size := Nat.mod_lt _ h.size
  refine ⟨by rw [hsz]; exact h.size, by simp [DTable.insert, h.count], ?_⟩
  intro e'
  have hslot : (t.insert e).slot e' = t.slot e' := by simp [DTable.slot, hsz]
  unfold DTable.find
  rw [hslot]
  have hb : (t.insert e).buckets.getD (t.slot e') [] =
      if t.slot e = t.slot e' then (e, t.count) :: t.buckets.getD (t.slot e') [] else t.buckets.getD (t.slot e') [] := by
    simp only [DTable.insert, Array.getD_eq_getD_getElem?, Array.getElem?_modify]
    by_cases hs : t.slot e = t.slot e'
    · have hlt : t.slot e' < t.buckets.size := by rw [← hs]; exact hslotlt
      simp [hs, hlt]
    · simp [hs]
  rw [hb]
  by_cases he : e' = e
  · subst he
    simp only [if_true, List.find?_cons, beq_self_eq_true, Option.map_some]
    rw [findIx_append_self hne, h.count]
  · have hold : ((t.buckets.getD (t.slot e') []).find? (fun p => p.1 == e')).map (·.2) = findIx e' seen := h.find e'
    rw [findIx_append_new he]
    by_cases hs : t.slot e = t.slot e'
    · have : (e == e') = false := by simpa using fun hh : e = e' => he hh.symm
      simp only [hs, if_true, List.find?_cons, this]
      exact hold
    · simp only [hs, if_false]
      exact hold

theorem dedupFastLoop_eq (t : DTable) (seen : List (List Nat)) (h : t.Rel seen) (rm : List Nat)
    (es : List (List Nat)) :
    dedupFastLoop t seen.reverse rm es = ((dedupAux seen es).1, rm.reverse ++ (dedupAux seen es).2) := by
  induction es generalizing t seen rm with
  | nil => simp [dedupFastLoop, dedupAux]
  | cons e es ih =>
    unfold dedupFastLoop dedupAux
    rw [h.find e]
    cases hf : findIx e seen with
    | some j =>
      simp only
      rw [ih t seen h]
      simp
    | none =>
      simp only
      have hnew : t.find e = none := by rw [h.find e, hf]
      have := ih (t.insert e) (seen ++ [e]) (DTable.insert_rel h e hnew) (t.count :: rm)
      rw [List.reverse_append] at this
      simp only [List.reverse_cons, List.reverse_nil, List.nil_append, List.singleton_append] at this
      rw [this, h.count]
      simp

theorem DTable.empty_rel (n : Nat) : DTable.Rel { buckets := Array.replicate (n + 1) [], count := 0 } [] := by
  refine ⟨by simp, rfl, ?_⟩
  intro e
  simp [DTable.find, findIx, Array.getD_eq_getD_getElem?]
  intro a b h
  have : (Array.replicate (n + 1) ([] : List (List Nat × Nat)))[DTable.slot
      { buckets := Array.replicate (n + 1) [], count := 0 } e]? = some [] := by
    rw [Array.getElem?_replicate]
    have : DTable.slot { buckets := Array.replicate (n + 1) [], count := 0 } e < n + 1 := by
      unfold DTable.slot
      simp only [Array.size_replicate]
      exact Nat.mod_lt _ (by omega)
    simp [this]
  rw [this] at h
  simp at h

/-- the implementation equals the specification -/
theorem dedupFast_eq (es : List (List Nat)) : dedupFast es = dedupAux [] es := by
  unfold dedupFast
  have h := DTable.empty_rel es.length
  have := dedupFastLoop_eq _ [] h [] es
  simpa using this

end Draco
