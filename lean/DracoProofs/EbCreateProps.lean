import DracoProofs.CornerTableCoherent
import DracoProofs.EbPredEquiv
import DracoProofs.EbTravEquiv
/-
  The structural properties `OppInvol` and `Hedge` of the ENCODER's view of a table built by
  `CornerTable.create` (the proved model of `CornerTable::Create`), and — through `OppInvol.of_image` /
  `Hedge.of_iso` — of every DECODER view embedded into it by a `TVIso`.

  `CT.ofTable` writes the `none` of `opposite_corners_` as `inv`; an opposite `some o` of a created table has
  `o < 3 * faces.size`, and `create` succeeds only on inputs with `3 * faces.size < 2 ^ 31 ≤ inv`, so `o ≠ inv`.
-/
namespace Draco.EbEnc
open Draco
open Draco.Eb hiding iabs nextC prevC

/-! ### sizes of a created table -/

/-- `create` succeeds only inside `inDomain`: the corners fit `int` -/
theorem create_numCorners_lt {faces : Faces} {table : CornerTable} (hc : CornerTable.create faces = some table) :
    3 * faces.size < 2 ^ 31 := by
  have h := CornerTable.create_isSome_iff faces
  rw [hc] at h
  have hd : CornerTable.inDomain faces = true := by simpa using h.symm
  unfold CornerTable.inDomain at hd
  rw [Bool.and_eq_true] at hd
  exact of_decide_eq_true hd.1

/-- the corners of a created table are below the invalid index -/
theorem create_fits {faces : Faces} {table : CornerTable} (hc : CornerTable.create faces = some table) :
    3 * faces.size ≤ inv := by
  have := create_numCorners_lt hc
  unfold inv
  omega

theorem create_c2v_size {faces : Faces} {table : CornerTable} (hc : CornerTable.create faces = some table) :
    table.cornerToVertex.size = 3 * faces.size :=
  (CornerTable.createF_vinv hc).1

theorem create_opp_size {faces : Faces} {table : CornerTable} (hc : CornerTable.create faces = some table) :
    table.oppositeCorners.size = 3 * faces.size :=
  (CornerTable.createF_opp_inv hc).1

theorem ofTable_view_numFaces {faces : Faces} {table : CornerTable} (hc : CornerTable.create faces = some table) :
    (CT.ofTable table).view.numFaces = faces.size := by
  show table.cornerToVertex.size / 3 = faces.size
  rw [create_c2v_size hc]
  omega

/-! ### the two index arithmetics agree below the invalid index -/

theorem eb_nextC_eq (c : Nat) (h : c < inv) : Eb.nextC c = Draco.nextC c := by
  rw [Eb.nextC_eq c h]
  unfold Draco.nextC
  split <;> (try split) <;> omega

theorem eb_prevC_eq (c : Nat) (h : c < inv) : Eb.prevC c = Draco.prevC c := by
  unfold Eb.prevC Draco.prevC
  have e1 : (c == inv) = false := by simp; omega
  simp only [e1, Bool.false_eq_true, ↓reduceIte, beq_iff_eq]
  split <;> (try split) <;> omega

/-! ### the checked accessors of the view in terms of the table -/

/-- `Opposite` of the view on a valid corner: the entry of the table, `none` written as `inv` -/
theorem ofTable_view_opposite {faces : Faces} {table : CornerTable} (hc : CornerTable.create faces = some table)
    (c : Nat) (hlt : c < 3 * faces.size) :
    (CT.ofTable table).view.opposite c = .ok ((table.opposite (some c)).getD inv) := by
  have hf := create_fits hc
  have hsz := create_opp_size hc
  have e1 : (c == inv) = false := by simp; omega
  have hlt' : c < (table.oppositeCorners.map fun o => o.getD inv).size := by
    rw [Array.size_map, hsz]; exact hlt
  have hlt2 : c < table.oppositeCorners.size := by rw [hsz]; exact hlt
  unfold TView.opposite CT.view CT.ofTable
  simp only [e1, Bool.false_eq_true, ↓reduceIte]
  unfold rd
  rw [dif_pos hlt']
  simp only [pure, Except.pure, Array.getElem_map]
  show Except.ok _ = Except.ok ((oget table.oppositeCorners c).getD inv)
  unfold oget
  rw [Array.getD_eq_getD_getElem?, Array.getElem?_eq_getElem hlt2]
  rfl

/-- `Vertex` of the view on a valid corner -/
theorem ofTable_view_vertex {faces : Faces} {table : CornerTable} (hc : CornerTable.create faces = some table)
    (c : Nat) (hlt : c < 3 * faces.size) :
    (CT.ofTable table).view.vertex c = .ok (vget table.cornerToVertex c) := by
  have hsz := create_c2v_size hc
  have hlt2 : c < table.cornerToVertex.size := by rw [hsz]; exact hlt
  have hf := create_fits hc
  have e1 : (c == inv) = false := by simp; omega
  unfold TView.vertex CT.view CT.ofTable
  simp only [e1, Bool.and_false, Bool.false_eq_true, ↓reduceIte]
  unfold rd
  rw [dif_pos hlt2]
  simp only [pure, Except.pure]
  unfold vget
  rw [Array.getD_eq_getD_getElem?, Array.getElem?_eq_getElem hlt2]
  rfl

/-- a valid `Opposite` of the view is the `some` of the table -/
theorem ofTable_view_opposite_some {faces : Faces} {table : CornerTable}
    (hc : CornerTable.create faces = some table) (c o : Nat) (hlt : c < 3 * faces.size)
    (hco : (CT.ofTable table).view.opposite c = .ok o) (hne : o ≠ inv) :
    table.opposite (some c) = some o := by
  rw [ofTable_view_opposite hc c hlt] at hco
  cases hx : table.opposite (some c) with
  | none =>
    rw [hx] at hco
    injection hco with hco
    exact absurd hco.symm hne
  | some o' =>
    rw [hx] at hco
    injection hco with hco
    rw [show o' = o from hco]

/-! ### (1) the structural properties of the encoder's view -/

/-- `Opposite` of the view of a created table is an involution where it is defined -/
theorem oppInvol_ofTable {faces : Faces} {table : CornerTable} (hc : CornerTable.create faces = some table) :
    OppInvol (CT.ofTable table).view := by
  intro c o hlt hco hne
  rw [ofTable_view_numFaces hc] at hlt
  have hto := ofTable_view_opposite_some hc c o hlt hco hne
  obtain ⟨_, holt, hoc, _, _⟩ := CornerTable.createF_opposite_symm hc c o hto
  rw [ofTable_view_opposite hc o holt, hoc]
  rfl

/-- the two other corners of the face opposite to an edge have the vertices of the edge -/
theorem hedge_ofTable {faces : Faces} {table : CornerTable} (hc : CornerTable.create faces = some table) :
    Hedge (CT.ofTable table).view := by
  intro c hlt o hco hne
  rw [ofTable_view_numFaces hc] at hlt
  have hf := create_fits hc
  have hto := ofTable_view_opposite_some hc c o hlt hco hne
  obtain ⟨_, holt, _, _, _⟩ := CornerTable.createF_opposite_symm hc c o hto
  obtain ⟨e1, e2⟩ := CornerTable.create_opposite_edge_strong hc c o hto
  rw [eb_nextC_eq o (by omega), eb_prevC_eq c (by omega), eb_prevC_eq o (by omega), eb_nextC_eq c (by omega)]
  rw [ofTable_view_vertex hc _ (Draco.nextC_lt holt), ofTable_view_vertex hc _ (Draco.prevC_lt hlt),
    ofTable_view_vertex hc _ (Draco.prevC_lt holt), ofTable_view_vertex hc _ (Draco.nextC_lt hlt)]
  exact ⟨by rw [e2], by rw [e1]⟩

/-! ### (2) the decoder's view -/

/-- `OppInvol` is inherited by an embedded view -/
theorem OppInvol.of_iso {d e : TView} {φ ψ : Nat → Nat} (h : TVIso d e φ ψ) (he : OppInvol e) : OppInvol d :=
  OppInvol.of_image h fun c o hc hco hne => he (φ c) o (h.phi_lt c hc) hco hne

/-- `Hedge` is inherited by an embedded view -/
theorem Hedge.of_iso_hedge {d e : TView} {φ ψ : Nat → Nat} (h : TVIso d e φ ψ) (he : Hedge e) : Hedge d :=
  Hedge.of_iso h fun c hc o hco hne => he (φ c) (h.phi_lt c hc) o hco hne

/-- every view embedded into the view of a created table (the decoder's view, `EbIsoCheck` / `EbCTIso`) has an
    involutive `Opposite` and the half-edge property -/
theorem structural_of_create {faces : Faces} {table : CornerTable} (hc : CornerTable.create faces = some table)
    {d : TView} {φ ψ : Nat → Nat} (h : TVIso d (CT.ofTable table).view φ ψ) :
    OppInvol d ∧ Hedge d :=
  ⟨OppInvol.of_iso h (oppInvol_ofTable hc), Hedge.of_iso_hedge h (hedge_ofTable hc)⟩

end Draco.EbEnc
