import DracoModel.Quantizer
/-
  `ComputeParameters` rejects attributes containing NaN or ±Inf. Stated for any `FloatOps`
  instance whose comparison treats NaN and the infinities the IEEE way (`SpecialOrder`).
-/
namespace Draco
namespace Quant
open FloatOps

/-- The facts about IEEE comparison that the rejection argument uses. `isPInf`/`isNInf`
    split `isInf` by sign. -/
structure SpecialOrder {F : Type} (ops : FloatOps F) (isPInf isNInf : F → Prop) : Prop where
  inf_of_pinf : ∀ x, isPInf x → ops.isInf x = true
  inf_of_ninf : ∀ x, isNInf x → ops.isInf x = true
  inf_cases : ∀ x, ops.isInf x = true → isPInf x ∨ isNInf x
  lt_nan_left : ∀ a b, ops.isNaN a = true → ops.lt a b = false
  lt_nan_right : ∀ a b, ops.isNaN b = true → ops.lt a b = false
  lt_ninf_right : ∀ a b, isNInf b → ops.lt a b = false
  lt_pinf_left : ∀ a b, isPInf a → ops.lt a b = false
  lt_pinf_right : ∀ a b, isPInf b → ops.isNaN a = false → ¬ isPInf a → ops.lt a b = true
  lt_ninf_left : ∀ a b, isNInf a → ops.isNaN b = false → ¬ isNInf b → ops.lt a b = true

section
variable {F : Type} [inst : FloatOps F] {P N : F → Prop} (S : SpecialOrder inst P N)

/-- a (min, max) pair that the final test rejects and that no later value can repair -/
def badComp (P N : F → Prop) (mn mx : F) : Prop :=
  isNaN mn = true ∨ N mn ∨ isNaN mx = true ∨ P mx

def BadPair (P N : F → Prop) : List F → List F → Prop
  | mn :: mns, mx :: mxs => badComp P N mn mx ∨ BadPair P N mns mxs
  | _, _ => False

include S

theorem scanComp_keep (mn mx v : F) (hb : badComp P N mn mx) :
    scanComp mn mx v = none ∨ ∃ a b, scanComp mn mx v = some (a, b) ∧ badComp P N a b := by
  unfold scanComp
  by_cases hv : isNaN v = true
  · left; simp [hv]
  · right
    refine ⟨_, _, by rw [if_neg hv], ?_⟩
    unfold badComp
    rcases hb with h | h | h | h
    · left; simp [S.lt_nan_right v mn h, h]
    · right; left; simp [S.lt_ninf_right v mn h, h]
    · right; right; left; simp [S.lt_nan_left mx v h, h]
    · right; right; right; simp [S.lt_pinf_left mx v h, h]

theorem scanComp_new (mn mx v : F) (hv : isNaN v = true ∨ isInf v = true) :
    scanComp mn mx v = none ∨ ∃ a b, scanComp mn mx v = some (a, b) ∧ badComp P N a b := by
  unfold scanComp
  by_cases hn : isNaN v = true
  · left; simp [hn]
  · right
    refine ⟨_, _, by rw [if_neg hn], ?_⟩
    unfold badComp
    have hinf : isInf v = true := by
      rcases hv with h | h
      · exact absurd h hn
      · exact h
    have hn' : isNaN v = false := by simpa using hn
    rcases S.inf_cases v hinf with hp | hq
    · -- +inf: the maximum becomes (or already is) +inf / NaN
      right; right
      by_cases hl : lt mx v = true
      · right; simp [hl, hp]
      · have hl' : lt mx v = false := by simpa using hl
        by_cases hmx : isNaN mx = true
        · left; simp [hl', hmx]
        · right
          have hmx' : isNaN mx = false := by simpa using hmx
          by_cases hpm : P mx
          · simp [hl', hpm]
          · have := S.lt_pinf_right mx v hp hmx' hpm
            rw [hl'] at this; exact absurd this (by simp)
    · -- -inf: the minimum becomes (or already is) -inf / NaN
      by_cases hl : lt v mn = true
      · right; left; simp [hl, hq]
      · have hl' : lt v mn = false := by simpa using hl
        by_cases hmn : isNaN mn = true
        · left; simp [hl', hmn]
        · right; left
          have hmn' : isNaN mn = false := by simpa using hmn
          by_cases hqm : N mn
          · simp [hl', hqm]
          · have := S.lt_ninf_left v mn hq hmn' hqm
            rw [hl'] at this; exact absurd this (by simp)

omit S in
theorem scanRow_len : ∀ (mn mx v a b : List F), mn.length = v.length → mx.length = v.length →
    scanRow mn mx v = some (a, b) → a.length = v.length ∧ b.length = v.length
  | [], _, v, a, b, h1, _, h => by
    cases v with
    | nil => simp [scanRow] at h; simp [h]
    | cons _ _ => simp at h1
  | _ :: _, [], v, _, _, h1, h2, _ => by
    cases v with
    | nil => simp at h1
    | cons _ _ => simp at h2
  | _ :: _, _ :: _, [], _, _, h1, _, _ => by simp at h1
  | m :: ms, x :: xs, v :: vs, a, b, h1, h2, h => by
    unfold scanRow at h
    cases hc : scanComp m x v with
    | none => simp [hc] at h
    | some ab =>
      obtain ⟨a0, b0⟩ := ab
      cases hr : scanRow ms xs vs with
      | none => simp [hc, hr] at h
      | some r =>
        obtain ⟨as, bs⟩ := r
        simp [hc, hr] at h
        obtain ⟨rfl, rfl⟩ := h
        have := scanRow_len ms xs vs as bs (by simpa using h1) (by simpa using h2) hr
        simp [this.1, this.2]

theorem scanRow_keep : ∀ (mn mx v : List F), mn.length = v.length → mx.length = v.length →
    BadPair P N mn mx →
    scanRow mn mx v = none ∨ ∃ a b, scanRow mn mx v = some (a, b) ∧ BadPair P N a b
  | [], _, _, _, _, hb => by simp [BadPair] at hb
  | _ :: _, [], _, _, _, hb => by simp [BadPair] at hb
  | _ :: _, _ :: _, [], h1, _, _ => by simp at h1
  | m :: ms, x :: xs, v :: vs, h1, h2, hb => by
    unfold scanRow
    cases hc : scanComp m x v with
    | none => left; rfl
    | some ab =>
      obtain ⟨a0, b0⟩ := ab
      cases hr : scanRow ms xs vs with
      | none => left; rfl
      | some r =>
        obtain ⟨as, bs⟩ := r
        right
        refine ⟨a0 :: as, b0 :: bs, rfl, ?_⟩
        rcases hb with hb | hb
        · rcases scanComp_keep S m x v hb with h | ⟨a, b, h, hbad⟩
          · rw [hc] at h; simp at h
          · rw [hc] at h; simp at h; obtain ⟨rfl, rfl⟩ := h
            exact Or.inl hbad
        · rcases scanRow_keep ms xs vs (by simpa using h1) (by simpa using h2) hb with
            h | ⟨a, b, h, hbad⟩
          · rw [hr] at h; simp at h
          · rw [hr] at h; simp at h; obtain ⟨rfl, rfl⟩ := h
            exact Or.inr hbad

theorem scanRow_new : ∀ (mn mx v : List F), mn.length = v.length → mx.length = v.length →
    (∃ y ∈ v, isNaN y = true ∨ isInf y = true) →
    scanRow mn mx v = none ∨ ∃ a b, scanRow mn mx v = some (a, b) ∧ BadPair P N a b
  | _, _, [], _, _, hb => by simp at hb
  | [], _, _ :: _, h1, _, _ => by simp at h1
  | _ :: _, [], _ :: _, _, h2, _ => by simp at h2
  | m :: ms, x :: xs, v :: vs, h1, h2, hb => by
    unfold scanRow
    cases hc : scanComp m x v with
    | none => left; rfl
    | some ab =>
      obtain ⟨a0, b0⟩ := ab
      cases hr : scanRow ms xs vs with
      | none => left; rfl
      | some r =>
        obtain ⟨as, bs⟩ := r
        right
        refine ⟨a0 :: as, b0 :: bs, rfl, ?_⟩
        obtain ⟨y, hy, hbad⟩ := hb
        rcases List.mem_cons.mp hy with rfl | hy
        · rcases scanComp_new S m x y hbad with h | ⟨a, b, h, hbad'⟩
          · rw [hc] at h; simp at h
          · rw [hc] at h; simp at h; obtain ⟨rfl, rfl⟩ := h
            exact Or.inl hbad'
        · rcases scanRow_new ms xs vs (by simpa using h1) (by simpa using h2) ⟨y, hy, hbad⟩ with
            h | ⟨a, b, h, hbad'⟩
          · rw [hr] at h; simp at h
          · rw [hr] at h; simp at h; obtain ⟨rfl, rfl⟩ := h
            exact Or.inr hbad'

theorem scanRows_bad (n : Nat) : ∀ (rows : List (List F)) (mn mx : List F),
    mn.length = n → mx.length = n → (∀ v ∈ rows, v.length = n) →
    (BadPair P N mn mx ∨ ∃ v ∈ rows, ∃ y ∈ v, isNaN y = true ∨ isInf y = true) →
    scanRows mn mx rows = none ∨ ∃ a b, scanRows mn mx rows = some (a, b) ∧ BadPair P N a b
  | [], mn, mx, _, _, _, hb => by
    rcases hb with hb | ⟨v, hv, _⟩
    · right; exact ⟨mn, mx, rfl, hb⟩
    · simp at hv
  | r :: rest, mn, mx, h1, h2, hl, hb => by
    have hr : r.length = n := hl r (by simp)
    have hrest : ∀ v ∈ rest, v.length = n := fun v hv => hl v (by simp [hv])
    unfold scanRows
    cases hs : scanRow mn mx r with
    | none => left; rfl
    | some ab =>
      obtain ⟨a, b⟩ := ab
      obtain ⟨la, lb⟩ := scanRow_len mn mx r a b (by omega) (by omega) hs
      have key : BadPair P N a b ∨ ∃ v ∈ rest, ∃ y ∈ v, isNaN y = true ∨ isInf y = true := by
        rcases hb with hb | ⟨v, hv, hy⟩
        · rcases scanRow_keep S mn mx r (by omega) (by omega) hb with h | ⟨a', b', h, hbad⟩
          · rw [hs] at h; simp at h
          · rw [hs] at h; simp at h; obtain ⟨rfl, rfl⟩ := h
            exact Or.inl hbad
        · rcases List.mem_cons.mp hv with rfl | hv
          · rcases scanRow_new S mn mx v (by omega) (by omega) hy with h | ⟨a', b', h, hbad⟩
            · rw [hs] at h; simp at h
            · rw [hs] at h; simp at h; obtain ⟨rfl, rfl⟩ := h
              exact Or.inl hbad
          · exact Or.inr ⟨v, hv, hy⟩
      exact scanRows_bad n rest a b (by omega) (by omega) hrest key

theorem finalRange_bad : ∀ (mn mx : List F) (r : F), BadPair P N mn mx →
    finalRange mn mx r = none
  | [], _, _, hb => by simp [BadPair] at hb
  | _ :: _, [], _, hb => by simp [BadPair] at hb
  | m :: ms, x :: xs, r, hb => by
    unfold finalRange
    rcases hb with hb | hb
    · have : (isNaN m || isInf m || isNaN x || isInf x) = true := by
        rcases hb with h | h | h | h
        · simp [h]
        · simp [S.inf_of_ninf m h]
        · simp [h]
        · simp [S.inf_of_pinf x h]
      simp [this]
    · by_cases hc : (isNaN m || isInf m || isNaN x || isInf x) = true
      · simp [hc]
      · simp only [hc]
        exact finalRange_bad ms xs _ hb

omit S in
theorem badPair_self : ∀ (v : List F), (∃ y ∈ v, isNaN y = true ∨ isInf y = true) →
    SpecialOrder inst P N → BadPair P N v v
  | [], h, _ => by simp at h
  | x :: xs, ⟨y, hy, hbad⟩, S => by
    rcases List.mem_cons.mp hy with rfl | hy
    · left
      rcases hbad with h | h
      · exact Or.inl h
      · rcases S.inf_cases y h with hp | hq
        · exact Or.inr (Or.inr (Or.inr hp))
        · exact Or.inr (Or.inl hq)
    · right; exact badPair_self xs ⟨y, hy, hbad⟩ S

/-- `ComputeParameters` returns `false` whenever some component of some value is NaN or ±Inf. -/
theorem computeParameters_reject (n : Nat) (values : List (List F))
    (hlen : ∀ v ∈ values, v.length = n)
    (hbad : ∃ v ∈ values, ∃ y ∈ v, isNaN y = true ∨ isInf y = true) :
    computeParameters n values = none := by
  cases values with
  | nil => rfl
  | cons first rest =>
    have hf : first.length = n := hlen first (by simp)
    have hrest : ∀ v ∈ rest, v.length = n := fun v hv => hlen v (by simp [hv])
    have htake : first.take n = first := by rw [← hf]; exact List.take_length
    have key : BadPair P N first first ∨ ∃ v ∈ rest, ∃ y ∈ v, isNaN y = true ∨ isInf y = true := by
      obtain ⟨v, hv, hy⟩ := hbad
      rcases List.mem_cons.mp hv with rfl | hv
      · exact Or.inl (badPair_self v hy S)
      · exact Or.inr ⟨v, hv, hy⟩
    simp only [computeParameters, htake]
    rcases scanRows_bad S n rest first first hf hf hrest key with h | ⟨a, b, h, hb⟩
    · rw [h]
    · rw [h]; simp only [finalRange_bad S a b _ hb]

end
end Quant
end Draco
