import DracoProofs.IOPlyParse
/-
  DracoProofs.IOPlyHeader — `PlyReader::ParseHeader` applied to the header `PlyEncoder` writes
  returns exactly the element / property structure the encoder meant, and leaves the body.
-/
namespace Draco.IO.Ply
open Draco Draco.IO

/-! ### expected structure -/

def scalarProps (dt : Nat) (names : List String) : List PProp := names.map (fun nm => ⟨ascii nm, dt, 0⟩)

def optProps (o : Option Attribute) (names : Attribute → List String) : List PProp :=
  match o with
  | none => []
  | some a => scalarProps a.dataType (names a)

/-- the properties of the `vertex` element -/
def vertexProps (s : Sel) : List PProp :=
  scalarProps s.pos.dataType ["x", "y", "z"] ++
  optProps s.nrm (fun _ => ["nx", "ny", "nz"]) ++
  optProps s.col (fun c => colourNames.take c.numComponents)

/-- the properties of the `face` element -/
def faceProps (s : Sel) : List PProp :=
  ⟨ascii "vertex_indices", dtINT32, dtUINT8⟩ ::
  (match s.tex with
   | none => []
   | some t => [⟨ascii "texcoord", t.dataType, dtUINT8⟩])

def elements (g : Geometry) (s : Sel) : List Element :=
  ⟨ascii "vertex", (g.numPoints : Int), vertexProps s⟩ ::
  (if g.isMesh then [⟨ascii "face", (g.faces.length : Int), faceProps s⟩] else [])

/-! ### header lines -/

def scalarLines (T : Bytes) (names : List String) : List Bytes := names.map (fun nm => propText T (ascii nm))

def elemText (name : Bytes) (n : Nat) : Bytes := ascii "element " ++ (name ++ 32 :: decimal n)

def tyText (dt : Nat) : Bytes := (typeName dt).getD []

def optScalarLines (o : Option Attribute) (names : Attribute → List String) : List Bytes :=
  match o with
  | none => []
  | some a => scalarLines (tyText a.dataType) (names a)

def texLine (T : Bytes) : Bytes := ascii "property list uchar " ++ (T ++ ascii " texcoord")

def hdrLines (g : Geometry) (s : Sel) : List Bytes :=
  [elemText (ascii "vertex") g.numPoints] ++
  scalarLines (tyText s.pos.dataType) ["x", "y", "z"] ++
  optScalarLines s.nrm (fun _ => ["nx", "ny", "nz"]) ++
  optScalarLines s.col (fun c => colourNames.take c.numComponents) ++
  (if g.isMesh then
    [elemText (ascii "face") g.faces.length, ascii "property list uchar int vertex_indices"] ++
    (match s.tex with
     | none => []
     | some t => [texLine (tyText t.dataType)])
   else [])

theorem effects_scalars (dt : Nat) (T : Bytes) (hT : typeName dt = some T) (names : List String)
    (hn : ∀ nm ∈ names, IsWord (ascii nm)) : ∀ (pre : List Element) (e : Element),
    effects (scalarLines T names) (pre ++ [e]) =
      .ok (pre ++ [{ e with props := e.props ++ scalarProps dt names }]) := by
  induction names with
  | nil => intro pre e; simp [scalarLines, effects, scalarProps]
  | cons nm ns ih =>
    intro pre e
    simp only [scalarLines, List.map_cons, effects]
    rw [lineEffect_scalar pre e dt T (ascii nm) hT (hn nm (by simp))]
    simp only
    have := ih (fun x hx => hn x (by simp [hx])) pre { e with props := e.props ++ [⟨ascii nm, dt, 0⟩] }
    simp only [scalarLines] at this
    rw [this]
    simp [scalarProps, List.append_assoc]

theorem goodLines_scalars (T : Bytes) (hT : IsWord T) (names : List String)
    (hn : ∀ nm ∈ names, IsWord (ascii nm)) : ∀ l ∈ scalarLines T names, GoodLine l := by
  intro l hl
  simp only [scalarLines, List.mem_map] at hl
  obtain ⟨nm, hnm, rfl⟩ := hl
  exact goodLine_prop T _ hT (hn nm hnm)

theorem decimal_word (n : Nat) : IsWord (decimal n) := by
  obtain ⟨h1, h2, -⟩ := decimal_spec n
  exact ⟨h1, fun c hc => ⟨isDigit_not_space c (h2 c hc), isDigit_not_delim c (h2 c hc)⟩⟩

theorem lineEffect_element (els : List Element) (name : Bytes) (hname : IsWord name) (n : Nat)
    (hn : n < 2 ^ 63) : lineEffect els (elemText name n) = .ok (els ++ [⟨name, (n : Int), []⟩]) := by
  have hd := decimal_word n
  have hsplit : splitWords (elemText name n) = [ascii "element", name, decimal n] := by
    have : elemText name n = ascii "element" ++ 32 :: (name ++ 32 :: decimal n) := by
      simp [elemText, ascii]
    rw [this]
    exact splitWords_three _ _ _ (by decide) (fun c hc => (hname.2 c hc).1) (fun c hc => (hd.2 c hc).1)
      (by decide) hname.1 hd.1
  unfold lineEffect
  simp only [hsplit]
  have h1 : (ascii "element" == ascii "element") = true := by decide
  rw [h1, if_pos rfl, strtoll_decimal n hn]

theorem goodLine_element (name : Bytes) (hname : IsWord name) (n : Nat) : GoodLine (elemText name n) := by
  have hd := decimal_word n
  refine ⟨?_, ?_, ?_, ?_⟩
  · intro c hc
    simp only [elemText, List.mem_append, List.mem_cons] at hc
    rcases hc with hc | hc | rfl | hc
    · revert c; decide
    · exact (hname.2 c hc).2
    · decide
    · exact (hd.2 c hc).2
  · intro c hc; simp [elemText, ascii] at hc; subst hc; decide
  · have h1 : 1 ≤ name.length := by
      cases name with
      | nil => exact absurd rfl hname.1
      | cons a b => simp
    have h2 : 1 ≤ (decimal n).length := by
      cases hdn : decimal n with
      | nil => exact absurd hdn hd.1
      | cons a b => simp
    simp [elemText, ascii]; omega
  · have e1 : elemText name n = 101 :: 108 :: (ascii "ement " ++ (name ++ 32 :: decimal n)) := rfl
    have e2 : ascii "end_header" = 101 :: 110 :: ascii "d_header" := by decide
    rw [e1, e2]
    simp [List.take_succ_cons]

theorem word_of_ascii_decide (s : String) (h : (ascii s ≠ [] ∧ ∀ c ∈ ascii s, isSpace c = false ∧ isDelim c = false)) :
    IsWord (ascii s) := h

/-- the line `property list uchar int vertex_indices` -/
theorem lineEffect_vi (pre : List Element) (e : Element) :
    lineEffect (pre ++ [e]) (ascii "property list uchar int vertex_indices") =
      .ok (pre ++ [{ e with props := e.props ++ [⟨ascii "vertex_indices", dtINT32, dtUINT8⟩] }]) := by
  have hsplit : splitWords (ascii "property list uchar int vertex_indices") =
      [ascii "property", ascii "list", ascii "uchar", ascii "int", ascii "vertex_indices"] := by decide
  unfold lineEffect
  simp only [hsplit]
  have h1 : (ascii "property" == ascii "element") = false := by decide
  have h2 : (pre ++ [e]).isEmpty = false := by simp
  rw [h1, h2]
  simp only [Bool.false_eq_true, if_false]
  have hpp : parseProperty [ascii "property", ascii "list", ascii "uchar", ascii "int", ascii "vertex_indices"] =
      some (.ok ⟨ascii "vertex_indices", dtINT32, dtUINT8⟩) := by rfl
  rw [hpp]
  simp only [addProp_snoc]

theorem goodLine_vi : GoodLine (ascii "property list uchar int vertex_indices") :=
  ⟨by decide, by decide, by decide, by decide⟩

theorem lineEffect_tex (pre : List Element) (e : Element) (dt : Nat) (T : Bytes) (hT : typeName dt = some T) :
    lineEffect (pre ++ [e]) (texLine T) =
      .ok (pre ++ [{ e with props := e.props ++ [⟨ascii "texcoord", dt, dtUINT8⟩] }]) := by
  have h2 : (pre ++ [e]).isEmpty = false := by simp
  rcases typeName_cases dt T hT with ⟨rfl, rfl⟩ | ⟨rfl, rfl⟩ | ⟨rfl, rfl⟩
  all_goals
    unfold lineEffect
    first
    | (have hsplit : splitWords (texLine (ascii "float")) =
          [ascii "property", ascii "list", ascii "uchar", ascii "float", ascii "texcoord"] := by decide
       simp only [hsplit]
       have h1 : (ascii "property" == ascii "element") = false := by decide
       rw [h1, h2]
       simp only [Bool.false_eq_true, if_false]
       have hpp : parseProperty [ascii "property", ascii "list", ascii "uchar", ascii "float", ascii "texcoord"] =
           some (.ok ⟨ascii "texcoord", dtFLOAT32, dtUINT8⟩) := by rfl
       rw [hpp]
       simp only [addProp_snoc])
    | (have hsplit : splitWords (texLine (ascii "uchar")) =
          [ascii "property", ascii "list", ascii "uchar", ascii "uchar", ascii "texcoord"] := by decide
       simp only [hsplit]
       have h1 : (ascii "property" == ascii "element") = false := by decide
       rw [h1, h2]
       simp only [Bool.false_eq_true, if_false]
       have hpp : parseProperty [ascii "property", ascii "list", ascii "uchar", ascii "uchar", ascii "texcoord"] =
           some (.ok ⟨ascii "texcoord", dtUINT8, dtUINT8⟩) := by rfl
       rw [hpp]
       simp only [addProp_snoc])
    | (have hsplit : splitWords (texLine (ascii "int")) =
          [ascii "property", ascii "list", ascii "uchar", ascii "int", ascii "texcoord"] := by decide
       simp only [hsplit]
       have h1 : (ascii "property" == ascii "element") = false := by decide
       rw [h1, h2]
       simp only [Bool.false_eq_true, if_false]
       have hpp : parseProperty [ascii "property", ascii "list", ascii "uchar", ascii "int", ascii "texcoord"] =
           some (.ok ⟨ascii "texcoord", dtINT32, dtUINT8⟩) := by rfl
       rw [hpp]
       simp only [addProp_snoc])

theorem goodLine_tex (dt : Nat) (T : Bytes) (hT : typeName dt = some T) : GoodLine (texLine T) := by
  rcases typeName_cases dt T hT with ⟨-, rfl⟩ | ⟨-, rfl⟩ | ⟨-, rfl⟩ <;>
    exact ⟨by decide, by decide, by decide, by decide⟩

/-! ### the whole header -/

/-- the encoder can name every data type it has to write -/
structure Nameable (g : Geometry) (s : Sel) : Prop where
  pos : ∃ T, typeName s.pos.dataType = some T
  nrm : ∀ n, s.nrm = some n → ∃ T, typeName n.dataType = some T
  col : ∀ c, s.col = some c → (∃ T, typeName c.dataType = some T) ∧ c.numComponents ≤ 4
  tex : g.isMesh = true → ∀ t, s.tex = some t → ∃ T, typeName t.dataType = some T

theorem tyText_eq (dt : Nat) (T : Bytes) (h : typeName dt = some T) : tyText dt = T := by
  simp [tyText, h]

theorem names_xyz : ∀ nm ∈ ["x", "y", "z"], IsWord (ascii nm) := by decide
theorem names_nxyz : ∀ nm ∈ ["nx", "ny", "nz"], IsWord (ascii nm) := by decide
theorem names_colour_all : ∀ nm ∈ colourNames, IsWord (ascii nm) := by decide
theorem names_colour (k : Nat) : ∀ nm ∈ colourNames.take k, IsWord (ascii nm) :=
  fun nm h => names_colour_all nm (List.mem_of_mem_take h)

theorem effects_opt (o : Option Attribute) (names : Attribute → List String)
    (hT : ∀ a, o = some a → ∃ T, typeName a.dataType = some T)
    (hn : ∀ a, o = some a → ∀ nm ∈ names a, IsWord (ascii nm)) (pre : List Element) (e : Element) :
    effects (optScalarLines o names) (pre ++ [e]) =
      .ok (pre ++ [{ e with props := e.props ++ optProps o names }]) := by
  cases o with
  | none => simp [optScalarLines, effects, optProps]
  | some a =>
    obtain ⟨T, hT'⟩ := hT a rfl
    simp only [optScalarLines, optProps, tyText_eq _ _ hT']
    exact effects_scalars a.dataType T hT' (names a) (hn a rfl) pre e

theorem goodLines_opt (o : Option Attribute) (names : Attribute → List String)
    (hT : ∀ a, o = some a → ∃ T, typeName a.dataType = some T)
    (hn : ∀ a, o = some a → ∀ nm ∈ names a, IsWord (ascii nm)) :
    ∀ l ∈ optScalarLines o names, GoodLine l := by
  cases o with
  | none => intro l hl; simp [optScalarLines] at hl
  | some a =>
    obtain ⟨T, hT'⟩ := hT a rfl
    simp only [optScalarLines, tyText_eq _ _ hT']
    exact goodLines_scalars T (typeName_word _ _ hT') (names a) (hn a rfl)

theorem effects_hdr (g : Geometry) (s : Sel) (hN : Nameable g s)
    (hnp : g.numPoints < 2 ^ 63) (hnf : g.faces.length < 2 ^ 63) :
    effects (hdrLines g s) [] = .ok (elements g s) := by
  obtain ⟨Tp, hTp⟩ := hN.pos
  have hv : IsWord (ascii "vertex") := by decide
  have hf : IsWord (ascii "face") := by decide
  unfold hdrLines
  -- element vertex
  have s1 : effects [elemText (ascii "vertex") g.numPoints] [] = .ok ([] ++ [⟨ascii "vertex", (g.numPoints : Int), []⟩]) := by
    simp only [effects, lineEffect_element [] _ hv _ hnp]
  have s2 := effects_scalars s.pos.dataType Tp hTp ["x", "y", "z"] names_xyz [] ⟨ascii "vertex", (g.numPoints : Int), []⟩
  have s3 := effects_opt s.nrm (fun _ => ["nx", "ny", "nz"]) hN.nrm (fun _ _ => names_nxyz) []
    (Element.mk (ascii "vertex") (g.numPoints : Int) ([] ++ scalarProps s.pos.dataType ["x", "y", "z"]))
  have s4 := effects_opt s.col (fun c => colourNames.take c.numComponents) (fun c hc => (hN.col c hc).1)
    (fun c _ => names_colour _) []
    (Element.mk (ascii "vertex") (g.numPoints : Int)
      (([] ++ scalarProps s.pos.dataType ["x", "y", "z"]) ++ optProps s.nrm (fun _ => ["nx", "ny", "nz"])))
  rw [List.append_assoc, List.append_assoc, List.append_assoc, effects_append _ _ _ _ s1, tyText_eq _ _ hTp,
    effects_append _ _ _ _ s2, effects_append _ _ _ _ s3, effects_append _ _ _ _ s4]
  by_cases hm : g.isMesh = true
  · simp only [hm, if_true]
    have hvert : ([] : List Element) ++ [Element.mk (ascii "vertex") (g.numPoints : Int)
          ((([] ++ scalarProps s.pos.dataType ["x", "y", "z"]) ++ optProps s.nrm (fun _ => ["nx", "ny", "nz"])) ++
          optProps s.col (fun c => colourNames.take c.numComponents))] =
        [⟨ascii "vertex", (g.numPoints : Int), vertexProps s⟩] := by
      simp [vertexProps]
    rw [hvert]
    simp only [List.cons_append, List.nil_append, effects]
    rw [lineEffect_element _ _ hf _ hnf]
    simp only
    have e1 : [Element.mk (ascii "vertex") (g.numPoints : Int) (vertexProps s)] ++
        [Element.mk (ascii "face") (g.faces.length : Int) []] =
        [Element.mk (ascii "vertex") (g.numPoints : Int) (vertexProps s)] ++
        [Element.mk (ascii "face") (g.faces.length : Int) []] := rfl
    rw [lineEffect_vi [⟨ascii "vertex", (g.numPoints : Int), vertexProps s⟩] ⟨ascii "face", (g.faces.length : Int), []⟩]
    simp only
    cases ht : s.tex with
    | none => simp [effects, elements, hm, faceProps, ht]
    | some t =>
      obtain ⟨Tt, hTt⟩ := hN.tex hm t ht
      simp only [effects, tyText_eq _ _ hTt]
      rw [lineEffect_tex [⟨ascii "vertex", (g.numPoints : Int), vertexProps s⟩] _ t.dataType Tt hTt]
      simp [elements, hm, faceProps, ht]
  · simp only [hm, Bool.false_eq_true, if_false, effects]
    simp [elements, hm, vertexProps]

theorem goodLines_hdr (g : Geometry) (s : Sel) (hN : Nameable g s) : ∀ l ∈ hdrLines g s, GoodLine l := by
  obtain ⟨Tp, hTp⟩ := hN.pos
  intro l hl
  unfold hdrLines at hl
  simp only [List.mem_append, List.mem_singleton] at hl
  rcases hl with (((rfl | hl) | hl) | hl) | hl
  · exact goodLine_element _ (by decide) _
  · rw [tyText_eq _ _ hTp] at hl
    exact goodLines_scalars Tp (typeName_word _ _ hTp) _ names_xyz l hl
  · exact goodLines_opt s.nrm _ hN.nrm (fun _ _ => names_nxyz) l hl
  · exact goodLines_opt s.col _ (fun c hc => (hN.col c hc).1) (fun c _ => names_colour _) l hl
  · by_cases hm : g.isMesh = true
    · simp only [hm, if_true, List.mem_append, List.mem_cons, List.not_mem_nil, or_false] at hl
      rcases hl with (rfl | rfl) | hl
      · exact goodLine_element _ (by decide) _
      · exact goodLine_vi
      · cases ht : s.tex with
        | none => rw [ht] at hl; simp at hl
        | some t =>
          rw [ht] at hl
          simp only [List.mem_singleton] at hl
          subst hl
          obtain ⟨Tt, hTt⟩ := hN.tex hm t ht
          rw [tyText_eq _ _ hTt]
          exact goodLine_tex _ _ hTt
    · simp [hm] at hl

end Draco.IO.Ply

namespace Draco.IO.Ply
open Draco Draco.IO

/-! ### the header text -/

theorem ascii_append (a b : String) : ascii (a ++ b) = ascii a ++ ascii b := by
  simp [ascii, String.toList_append]

theorem linesBytes_append (a b : List Bytes) : linesBytes (a ++ b) = linesBytes a ++ linesBytes b := by
  simp [linesBytes]

theorem linesBytes_cons (l : Bytes) (ls : List Bytes) : linesBytes (l :: ls) = l ++ 10 :: linesBytes ls := by
  simp [linesBytes]

theorem streamCat_prop (dt : Nat) (T : Bytes) (nm : String) (rest : List (Option Bytes))
    (h : typeName dt = some T) :
    streamCat (propLine (typeName dt) nm ++ rest) = propText T (ascii nm) ++ 10 :: streamCat rest := by
  have e : ascii (" " ++ nm) = 32 :: ascii nm := by rw [ascii_append]; rfl
  simp [propLine, h, streamCat, propText, e, List.append_assoc]

theorem streamCat_props (dt : Nat) (T : Bytes) (names : List String) (rest : List (Option Bytes))
    (h : typeName dt = some T) :
    streamCat ((names.map (propLine (typeName dt))).flatten ++ rest) =
      linesBytes (scalarLines T names) ++ streamCat rest := by
  induction names with
  | nil => simp [scalarLines, linesBytes]
  | cons nm ns ih =>
    simp only [List.map_cons, List.flatten_cons, List.append_assoc, scalarLines]
    rw [streamCat_prop dt T nm _ h, ih, linesBytes_cons]
    simp [scalarLines, List.append_assoc]

theorem streamCat_some (b : Bytes) (rest : List (Option Bytes)) : streamCat (some b :: rest) = b ++ streamCat rest := rfl

theorem streamCat_nrm (s : Sel) (hN : ∀ n, s.nrm = some n → ∃ T, typeName n.dataType = some T)
    (rest : List (Option Bytes)) :
    streamCat (nrmPieces s ++ rest) =
      linesBytes (optScalarLines s.nrm (fun _ => ["nx", "ny", "nz"])) ++ streamCat rest := by
  unfold nrmPieces
  cases hn : s.nrm with
  | none => simp [optScalarLines, linesBytes]
  | some n =>
    obtain ⟨T, hT⟩ := hN n hn
    simp only [optScalarLines, tyText_eq _ _ hT, List.append_assoc]
    rw [streamCat_prop _ T "nx" _ hT, streamCat_prop _ T "ny" _ hT, streamCat_prop _ T "nz" _ hT]
    simp [scalarLines, linesBytes, List.append_assoc]

theorem streamCat_col (s : Sel) (hN : ∀ c, s.col = some c → ∃ T, typeName c.dataType = some T)
    (rest : List (Option Bytes)) :
    streamCat (colPieces s ++ rest) =
      linesBytes (optScalarLines s.col (fun c => colourNames.take c.numComponents)) ++ streamCat rest := by
  unfold colPieces
  cases hc : s.col with
  | none => simp [optScalarLines, linesBytes]
  | some c =>
    obtain ⟨T, hT⟩ := hN c hc
    simp only [optScalarLines, tyText_eq _ _ hT]
    exact streamCat_props c.dataType T _ rest hT

/-- the lines of the face element -/
def faceLines (g : Geometry) (s : Sel) : List Bytes :=
  if g.isMesh then
    [elemText (ascii "face") g.faces.length, ascii "property list uchar int vertex_indices"] ++
    (match s.tex with
     | none => []
     | some t => [texLine (tyText t.dataType)])
  else []

theorem streamCat_face (g : Geometry) (s : Sel)
    (hN : g.isMesh = true → ∀ t, s.tex = some t → ∃ T, typeName t.dataType = some T)
    (rest : List (Option Bytes)) :
    streamCat (facePieces g s ++ rest) = linesBytes (faceLines g s) ++ streamCat rest := by
  unfold facePieces faceLines
  by_cases hm : g.isMesh = true
  · simp only [hm, if_true, List.cons_append, List.nil_append, streamCat_some]
    have h1 : ascii "property list uchar int vertex_indices\n" =
        ascii "property list uchar int vertex_indices" ++ [10] := by decide
    have h2 : ascii "element face " = ascii "element " ++ (ascii "face" ++ [32]) := by decide
    rw [h1, h2]
    unfold texPieces
    cases ht : s.tex with
    | none => simp [linesBytes, elemText, List.append_assoc]
    | some t =>
      obtain ⟨Tt, hTt⟩ := hN hm t ht
      simp [streamCat, linesBytes, elemText, List.append_assoc, hTt, texLine, tyText_eq _ _ hTt]
  · simp [hm, linesBytes]

theorem hdrLines_eq (g : Geometry) (s : Sel) :
    hdrLines g s = [elemText (ascii "vertex") g.numPoints] ++
      scalarLines (tyText s.pos.dataType) ["x", "y", "z"] ++
      optScalarLines s.nrm (fun _ => ["nx", "ny", "nz"]) ++
      optScalarLines s.col (fun c => colourNames.take c.numComponents) ++ faceLines g s := rfl

/-- the header the encoder writes is the list of lines `hdrLines` between the two fixed first lines
    and `end_header` -/
theorem header_text (g : Geometry) (s : Sel) (hN : Nameable g s) :
    streamCat (headerPieces g s) =
      ascii "ply" ++ 10 :: (ascii "format binary_little_endian 1.0" ++ 10 ::
        (linesBytes (hdrLines g s) ++ (ascii "end_header" ++ [10]))) := by
  obtain ⟨Tp, hTp⟩ := hN.pos
  unfold headerPieces
  simp only [List.cons_append, List.nil_append, streamCat_some]
  rw [streamCat_prop _ Tp "x" _ hTp, streamCat_prop _ Tp "y" _ hTp, streamCat_prop _ Tp "z" _ hTp,
    streamCat_nrm s hN.nrm, streamCat_col s (fun c hc => (hN.col c hc).1), streamCat_face g s hN.tex,
    hdrLines_eq, tyText_eq _ _ hTp]
  have h0 : ascii "ply\n" = ascii "ply" ++ [10] := by decide
  have h1 : ascii "format binary_little_endian 1.0\n" = ascii "format binary_little_endian 1.0" ++ [10] := by decide
  have h2 : ascii "end_header\n" = ascii "end_header" ++ [10] := by decide
  have h3 : ascii "element vertex " = ascii "element " ++ (ascii "vertex" ++ [32]) := by decide
  rw [h0, h1, h2, h3]
  simp [streamCat, scalarLines, elemText, List.append_assoc, linesBytes]

theorem linesBytes_length_ge (L : List Bytes) : L.length ≤ (linesBytes L).length := by
  induction L with
  | nil => simp [linesBytes]
  | cons l ls ih => rw [linesBytes_cons]; simp; omega

theorem parseString_ply (X : Bytes) : parseString (ascii "ply" ++ 10 :: X) = (ascii "ply", 10 :: X) := by
  have : ascii "ply" ++ 10 :: X = 112 :: 108 :: 121 :: 10 :: X := rfl
  rw [this]
  simp [parseString, skipWs, isSpace, List.takeWhile, List.dropWhile]
  decide

/-- **`PlyReader` on the encoder's header**: the element / property structure is recovered and the
    body is left untouched, whatever the body is. -/
theorem parseHeader_encoded (g : Geometry) (s : Sel) (hN : Nameable g s)
    (hnp : g.numPoints < 2 ^ 63) (hnf : g.faces.length < 2 ^ 63) (body : Bytes) :
    parseHeader (streamCat (headerPieces g s) ++ body) = .ok (.littleEndian, elements g s, body) := by
  rw [header_text g s hN]
  have hre : ascii "ply" ++ 10 :: (ascii "format binary_little_endian 1.0" ++ 10 ::
      (linesBytes (hdrLines g s) ++ (ascii "end_header" ++ [10]))) ++ body =
      ascii "ply" ++ 10 :: (ascii "format binary_little_endian 1.0" ++ 10 ::
      (linesBytes (hdrLines g s) ++ (ascii "end_header" ++ 10 :: body))) := by
    simp [List.append_assoc]
  rw [hre]
  unfold parseHeader
  rw [parseString_ply]
  simp only
  have h1 : (ascii "ply" != ascii "ply") = false := by decide
  rw [h1]
  simp only [Bool.false_eq_true, if_false]
  have hp0 : ∀ X : Bytes, parseLine (10 :: X) = ([], X) := fun X => parseLine_nl [] X (by simp)
  rw [hp0]
  simp only
  rw [parseLine_nl (ascii "format binary_little_endian 1.0") _ (by decide)]
  simp only
  have hsw : splitWords (ascii "format binary_little_endian 1.0") =
      [ascii "format", ascii "binary_little_endian", ascii "1.0"] := by decide
  rw [hsw]
  simp only
  have c1 : (ascii "format" != ascii "format") = false := by decide
  have c2 : (ascii "1.0" != ascii "1.0") = false := by decide
  have c3 : (ascii "binary_little_endian" == ascii "binary_big_endian") = false := by decide
  have c4 : (ascii "binary_little_endian" == ascii "ascii") = false := by decide
  rw [c1, c2, c3, c4]
  simp only [Bool.false_eq_true, if_false]
  -- the loop
  have hloop : headerLoop (1 + (hdrLines g s).length)
      (linesBytes (hdrLines g s) ++ (ascii "end_header" ++ 10 :: body)) [] = .ok (elements g s, body) := by
    rw [headerLoop_lines (hdrLines g s) [] (elements g s) _ 1 (goodLines_hdr g s hN) (effects_hdr g s hN hnp hnf)]
    exact headerLoop_end 0 body (elements g s)
  have hge := linesBytes_length_ge (hdrLines g s)
  have hfuel : (linesBytes (hdrLines g s) ++ (ascii "end_header" ++ 10 :: body)).length + 1 =
      (1 + (hdrLines g s).length) +
        ((linesBytes (hdrLines g s) ++ (ascii "end_header" ++ 10 :: body)).length - (hdrLines g s).length) := by
    simp only [List.length_append]; omega
  rw [hfuel, headerLoop_mono _ _ _ _ hloop]

end Draco.IO.Ply
