import DracoProofs.RansPass
/-
  `RAnsSymbolEncoder::Create` does not fail (and its `while (error > 0)` loop terminates within
  the fuel of the model) for an oracle with contractive, monotone `rescale`, provided the initial
  table satisfies `MinRoom`: the entry that is never rescaled (`sorted_probabilities[0]`) plus
  one unit for every other non-zero entry fits into the precision.
-/
namespace Draco

/-- 1 for a non-zero entry of the initial table -/
def ind0 (probs0 : Array Nat) (j : Nat) : Nat := if probs0.getD j 0 = 0 then 0 else 1

/-- invariant of the `while (error > 0)` loop; `s0 = sorted_probabilities[0]`, `ids` = the
    other ids, most probable first -/
structure LoopInv (P : Nat) (probs0 : Array Nat) (s0 : Nat) (ids : List Nat) (st : RescaleSt) :
    Prop where
  size : st.probs.size = probs0.size
  total : st.total = ((st.probs.getD s0 0 + sumOn st.probs ids : Nat) : Int)
  error : st.error = st.total - (P : Int)
  nonneg : 0 ≤ st.error
  first : st.probs.getD s0 0 = probs0.getD s0 0
  desc : 0 < st.error → ids.Pairwise (fun a b => st.probs.getD b 0 ≤ st.probs.getD a 0)
  zero : ∀ j ∈ ids, probs0.getD j 0 = 0 → st.probs.getD j 0 = 0

theorem rescaleLoop_complete (o : ProbOracle) (P : Nat)
    (hle : ∀ A p, P < A → o.rescale P A p ≤ p)
    (hmono : ∀ A p q, P < A → p ≤ q → o.rescale P A p ≤ o.rescale P A q)
    (probs0 : Array Nat) (s0 : Nat) (ids : List Nat) (hnd : (s0 :: ids).Nodup)
    (hlt : ∀ j ∈ ids, j < probs0.size)
    (hroom : probs0.getD s0 0 + (ids.map (ind0 probs0)).sum ≤ P) :
    ∀ (fuel : Nat) (st : RescaleSt), LoopInv P probs0 s0 ids st → st.error ≤ (fuel : Int) →
      ∃ st', rescaleLoop o P ids fuel st = some st' ∧ LoopInv P probs0 s0 ids st' ∧
        st'.error = 0 := by
  have hs0 : s0 ∉ ids := (List.nodup_cons.mp hnd).1
  have hndi : ids.Nodup := (List.nodup_cons.mp hnd).2
  intro fuel
  induction fuel with
  | zero =>
    intro st inv hf
    have h0 : st.error = 0 := by have := inv.nonneg; omega
    refine ⟨st, ?_, inv, h0⟩
    simp [rescaleLoop, h0]
  | succ f ih =>
    intro st inv hf
    simp only [rescaleLoop]
    by_cases hpos : 0 < st.error
    · simp only [hpos, if_true]
      have herr := inv.error
      have htot := inv.total
      -- the most probable symbol still has probability ≥ 2
      have hhead : ∃ s tl, ids = s :: tl ∧ 1 < st.probs.getD s 0 := by
        by_contra hcon
        have hall : ∀ j ∈ ids, st.probs.getD j 0 ≤ 1 := by
          cases hids : ids with
          | nil => intro j hj; simp at hj
          | cons s tl =>
            intro j hj
            have hs1 : st.probs.getD s 0 ≤ 1 := by
              by_contra h
              exact hcon ⟨s, tl, hids, by omega⟩
            have hd := inv.desc hpos
            rw [hids] at hd
            rcases List.mem_cons.mp hj with h | h
            · subst h; exact hs1
            · exact Nat.le_trans ((List.pairwise_cons.mp hd).1 j h) hs1
        have hsum : sumOn st.probs ids ≤ (ids.map (ind0 probs0)).sum := by
          apply sumOn_le
          intro j hj
          have h1 := hall j hj
          have h2 := inv.zero j hj
          simp only [ind0]
          split
          · rename_i h; rw [h2 h]
          · exact h1
        have hfirst := inv.first
        omega
      obtain ⟨s, tl, hids, hs1⟩ := hhead
      have hA : P < st.total.toNat := by omega
      have hsz := inv.size
      obtain ⟨st1, e, hsz1, hout, herr1, h01, hle1, hsum1, hbd, hmap, hprog⟩ :=
        rescalePass_spec o P st.total.toNat (fun p => hle _ p hA) ids st hndi
          (fun j hj => by rw [hsz]; exact hlt j hj) (inv.desc hpos) hpos herr
      have e' : rescalePass o P st.total.toNat ids true st = some st1 := by
        rw [hids, rescalePass_first o P _ s tl st hs1, ← hids]; exact e
      rw [e']
      have hlt1 : st1.error < st.error := hprog s tl hids hs1
      have inv1 : LoopInv P probs0 s0 ids st1 := by
        refine ⟨by rw [hsz1, hsz], ?_, herr1, h01, by rw [hout s0 hs0]; exact inv.first, ?_, ?_⟩
        · rw [hout s0 hs0]
          push_cast at htot ⊢
          omega
        · intro hpos1
          have hm := hmap hpos1
          refine (inv.desc hpos).imp_of_mem ?_
          intro a b ha hb hab
          rw [hm a ha, hm b hb]
          exact passMap_mono _ (fun p => hle _ p hA) (fun p q => hmono _ p q hA) _ _ hab
        · intro j hj hz
          exact (hbd j hj).2 (inv.zero j hj hz)
      obtain ⟨st', e2, inv', h0'⟩ := ih st1 inv1 (by omega)
      exact ⟨st', e2, inv', h0'⟩
    · simp only [hpos, if_false]
      exact ⟨st, rfl, inv, by have := inv.nonneg; omega⟩

/-! ### sums of arrays -/

theorem list_sum_set : ∀ (l : List Nat) (k v : Nat), k < l.length →
    (l.set k v).sum + l.getD k 0 = l.sum + v := by
  intro l
  induction l with
  | nil => intro k v h; simp at h
  | cons x l ih =>
    intro k v h
    cases k with
    | zero => simp; omega
    | succ k =>
      have := ih k v (by simpa using h)
      simp only [List.set_cons_succ, List.sum_cons, List.getD_cons_succ]
      omega

theorem map_getD_range (l : List Nat) : (List.range l.length).map (fun i => l.getD i 0) = l := by
  apply List.ext_getElem
  · simp
  · intro i h1 h2
    simp only [List.length_map, List.length_range] at h1
    simp [List.getD_eq_getElem?_getD, List.getElem?_eq_getElem h1]

theorem sumOn_range (a : Array Nat) : sumOn a (List.range a.size) = a.toList.sum := by
  have := map_getD_range a.toList
  simp only [Array.length_toList] at this
  simp only [sumOn]
  conv => rhs; rw [← this]
  congr 1
  apply List.map_congr_left
  intro i _
  exact array_getD_toList a i 0

theorem ind_sum_filter (l : List Nat) :
    (l.map (fun p => if p = 0 then 0 else 1)).sum = (l.filter (· > 0)).length := by
  induction l with
  | nil => rfl
  | cons x l ih =>
    simp only [List.map_cons, List.sum_cons, List.filter_cons]
    by_cases hx : x = 0
    · subst hx; simpa using ih
    · have : x > 0 := by omega
      simp only [hx, if_false, this, decide_true, if_true, List.length_cons]
      omega

theorem ind0_sum_range (l : List Nat) :
    ((List.range l.length).map (ind0 l.toArray)).sum = (l.filter (· > 0)).length := by
  have h1 : (List.range l.length).map (ind0 l.toArray)
      = ((List.range l.length).map (fun i => l.getD i 0)).map (fun p => if p = 0 then 0 else 1) := by
    rw [List.map_map]
    apply List.map_congr_left
    intro i _
    simp [ind0]
  rw [h1, map_getD_range, ind_sum_filter]

theorem getLastD_mem {α} (l : List α) (d : α) (h : l ≠ []) : l.getLastD d ∈ l := by
  cases l with
  | nil => exact absurd rfl h
  | cons x xs =>
    rw [List.getLastD_eq_getLast?, List.getLast?_eq_some_getLast (by simp)]
    simp only [Option.getD_some]
    exact List.getLast_mem _

/-! ### the normalisation block -/

/-- `MinRoom P probs0`: a smallest entry plus the number of the other non-zero entries is at
    most `P`.  (The smallest entry of the sorted order is never rescaled, every other entry can
    be lowered to 1 but not below.) -/
def MinRoom (P : Nat) (probs0 : List Nat) : Prop :=
  ∀ i, i < probs0.length → (∀ j, j < probs0.length → probs0.getD i 0 ≤ probs0.getD j 0) →
    probs0.getD i 0 + (probs0.filter (· > 0)).length ≤ P + (if probs0.getD i 0 = 0 then 0 else 1)

theorem normaliseProbs_complete (o : ProbOracle) (P : Nat)
    (hle : ∀ A p, P < A → o.rescale P A p ≤ p)
    (hmono : ∀ A p q, P < A → p ≤ q → o.rescale P A p ≤ o.rescale P A q)
    (probs0 : List Nat) (hne : probs0 ≠ []) (hroom : MinRoom P probs0) :
    ∃ probs, normaliseProbs o P probs0 = some probs ∧ probs.sum = P := by
  have hn : 0 < probs0.length := List.length_pos_iff.mpr hne
  simp only [normaliseProbs, sumNat_eq_sum]
  by_cases h1 : probs0.sum = P
  · simp only [h1, if_true]
    exact ⟨probs0, rfl, h1⟩
  · simp only [h1, if_false]
    have hperm := sortedIds_perm probs0.toArray
    have hsorted := sortedIds_sorted probs0.toArray
    have hlen := sortedIds_length probs0.toArray
    have hnod := sortedIds_nodup probs0.toArray
    simp only [List.size_toArray] at hperm hlen
    have hsne : sortedIds probs0.toArray ≠ [] := by
      intro h; rw [h] at hlen; simp at hlen; omega
    by_cases h2 : probs0.sum < P
    · -- under-allocation: the missing precision goes to the most probable symbol
      simp only [h2, if_true]
      refine ⟨_, rfl, ?_⟩
      have hmem := getLastD_mem (sortedIds probs0.toArray) 0 hsne
      have hlast : (sortedIds probs0.toArray).getLastD 0 < probs0.length := by
        have := sortedIds_lt _ _ hmem; simpa using this
      rw [Array.toList_setIfInBounds]
      have := list_sum_set probs0 ((sortedIds probs0.toArray).getLastD 0)
        (probs0.toArray.getD ((sortedIds probs0.toArray).getLastD 0) 0 + (P - probs0.sum)) hlast
      rw [list_getD_toArray] at this ⊢
      show (probs0.set _ _).sum = P
      omega
    · -- over-allocation: the rescaling loop
      simp only [h2, if_false]
      obtain ⟨s0, tl, hs⟩ : ∃ s0 tl, sortedIds probs0.toArray = s0 :: tl := by
        cases h : sortedIds probs0.toArray with
        | nil => exact absurd h hsne
        | cons a b => exact ⟨a, b, rfl⟩
      rw [hs] at hperm hsorted hnod
      simp only [hs, List.drop_one, List.tail_cons]
      have hs0 : s0 < probs0.length := by
        have := sortedIds_lt probs0.toArray s0 (by rw [hs]; simp); simpa using this
      have htl : ∀ j ∈ tl, j < probs0.length := by
        intro j hj
        have := sortedIds_lt probs0.toArray j (by rw [hs]; simp [hj]); simpa using this
      have hsumall : probs0.toArray.getD s0 0 + sumOn probs0.toArray tl = probs0.sum := by
        rw [← sumOn_cons, sumOn_perm _ _ _ hperm]
        have := sumOn_range probs0.toArray
        simpa using this
      have hmin : ∀ j, j < probs0.length → probs0.getD s0 0 ≤ probs0.getD j 0 := by
        intro j hj
        have hjm : j ∈ s0 :: tl := (hperm.mem_iff).mpr (by simpa using hj)
        rcases List.mem_cons.mp hjm with h | h
        · subst h; exact Nat.le_refl _
        · have := (List.pairwise_cons.mp hsorted).1 j h
          simpa using this
      have hcount : ind0 probs0.toArray s0 + (tl.map (ind0 probs0.toArray)).sum
          = (probs0.filter (· > 0)).length := by
        rw [← ind0_sum_range, ← (hperm.map (ind0 probs0.toArray)).sum_nat]
        simp
      have hroom' : probs0.toArray.getD s0 0 + (tl.reverse.map (ind0 probs0.toArray)).sum ≤ P := by
        have := hroom s0 hs0 hmin
        rw [List.map_reverse, List.sum_reverse]
        rw [list_getD_toArray]
        simp only [ind0, list_getD_toArray] at hcount
        omega
      have hinv : LoopInv P probs0.toArray s0 tl.reverse
          ⟨probs0.toArray, (probs0.sum : Nat), ((probs0.sum - P : Nat) : Int)⟩ := by
        refine ⟨rfl, ?_, ?_, by simp only; omega, rfl, ?_, fun _ _ h => h⟩
        · simp only; rw [sumOn_reverse, hsumall]
        · simp only; omega
        · intro _
          simp only
          rw [List.pairwise_reverse]
          exact (List.pairwise_cons.mp hsorted).2
      obtain ⟨st', e, inv', h0⟩ := rescaleLoop_complete o P hle hmono probs0.toArray s0 tl.reverse
        (by
          have := hnod
          rw [List.nodup_cons] at this ⊢
          exact ⟨by simpa using this.1, ((List.reverse_perm tl).nodup_iff).mpr this.2⟩)
        (fun j hj => by simpa using htl j (by simpa using hj)) hroom'
        (probs0.sum - P) _ hinv (by simp only; omega)
      rw [e]
      refine ⟨_, rfl, ?_⟩
      have ht := inv'.total
      have he := inv'.error
      have hsz := inv'.size
      rw [sumOn_reverse, ← sumOn_cons, sumOn_perm _ _ _ hperm] at ht
      have hr := sumOn_range st'.probs
      rw [hsz] at hr
      simp only [List.size_toArray] at hr
      rw [hr] at ht
      omega

/-! ### `max_valid_symbol` -/

theorem maxValidSymbolAux_pos : ∀ (fs : List Nat) (i m : Nat),
    ((∀ j, fs.getD j 0 = 0) ∧ maxValidSymbolAux fs i m = m) ∨
    (i ≤ maxValidSymbolAux fs i m ∧ 0 < fs.getD (maxValidSymbolAux fs i m - i) 0) := by
  intro fs
  induction fs with
  | nil => intro i m; left; simp [maxValidSymbolAux]
  | cons f fs ih =>
    intro i m
    simp only [maxValidSymbolAux]
    rcases ih (i + 1) (if f > 0 then i else m) with ⟨hz, hr⟩ | ⟨hle, hpos⟩
    · rw [hr]
      by_cases hf : f > 0
      · right; simp [hf]
      · left
        simp only [hf, if_false, and_true]
        intro j
        cases j with
        | zero => simp; omega
        | succ j => simpa using hz j
    · right
      refine ⟨by omega, ?_⟩
      have : maxValidSymbolAux fs (i + 1) (if f > 0 then i else m) - i
          = (maxValidSymbolAux fs (i + 1) (if f > 0 then i else m) - (i + 1)) + 1 := by omega
      rw [this, List.getD_cons_succ]
      exact hpos

theorem sum_eq_zero_of_getD : ∀ (l : List Nat), (∀ j, l.getD j 0 = 0) → l.sum = 0 := by
  intro l
  induction l with
  | nil => intro _; rfl
  | cons x l ih =>
    intro h
    have h0 := h 0
    simp only [List.getD_cons_zero] at h0
    have := ih (fun j => by simpa using h (j + 1))
    simp [h0, this]

theorem maxValidSymbol_pos (fs : List Nat) (h : 0 < fs.sum) :
    0 < fs.getD (maxValidSymbol fs) 0 := by
  rcases maxValidSymbolAux_pos fs 0 0 with ⟨hz, _⟩ | ⟨_, hp⟩
  · have := sum_eq_zero_of_getD fs hz; omega
  · simpa [maxValidSymbol] using hp

/-- the entries behind `max_valid_symbol` do not contribute to `total_freq` -/
theorem sum_take_maxValid (fs : List Nat) : (fs.take (maxValidSymbol fs + 1)).sum = fs.sum := by
  have hd : (fs.drop (maxValidSymbol fs + 1)).sum = 0 := by
    apply sum_eq_zero_of_getD
    intro j
    by_contra hne
    have hp : 0 < fs.getD (maxValidSymbol fs + 1 + j) 0 := by
      have : (fs.drop (maxValidSymbol fs + 1)).getD j 0 = fs.getD (maxValidSymbol fs + 1 + j) 0 := by
        simp [List.getD_eq_getElem?_getD, List.getElem?_drop]
      omega
    have := le_maxValidSymbol fs _ hp
    omega
  have := List.sum_append (l₁ := fs.take (maxValidSymbol fs + 1)) (l₂ := fs.drop (maxValidSymbol fs + 1))
  rw [List.take_append_drop] at this
  omega

/-! ### `Create` -/

/-- What the completeness proof uses of the two `double` expressions of
    `RAnsSymbolEncoder::Create`, for total frequency `T` and precision `P`:
    * a zero frequency gets probability 0;
    * `x / x * P + 0.5` does not exceed `P` after truncation;
    * the estimate is at most one above the exact value `f·P/T`;
    * rescaling with a factor `P / A < 1` does not increase a value and is monotone. -/
structure OracleOK (o : ProbOracle) (T P : Nat) : Prop where
  est_zero : o.est 0 T P = 0
  est_full : o.est T T P ≤ P
  est_le : ∀ f, 0 < f → f ≤ T → T * o.est f T P ≤ f * P + T
  rescale_le : ∀ A p, P < A → o.rescale P A p ≤ p
  rescale_mono : ∀ A p q, P < A → p ≤ q → o.rescale P A p ≤ o.rescale P A q

theorem mem_le_sum' : ∀ (l : List Nat) (p : Nat), p ∈ l → p ≤ l.sum := by
  intro l
  induction l with
  | nil => intro p h; simp at h
  | cons x l ih =>
    intro p h
    rcases List.mem_cons.mp h with h | h
    · subst h; simp
    · have := ih p h; simp only [List.sum_cons]; omega

theorem length_mul_le_sum (a P T : Nat) : ∀ (l : List Nat), (∀ x ∈ l, a ≤ x * P + T) →
    l.length * a ≤ l.sum * P + l.length * T := by
  intro l
  induction l with
  | nil => intro _; simp
  | cons x l ih =>
    intro h
    have h1 := h x (by simp)
    have h2 := ih (fun y hy => h y (by simp [hy]))
    simp only [List.length_cons, List.sum_cons, Nat.add_mul, Nat.one_mul]
    omega

/-- the first loop of `Create`: one entry -/
def initProb (o : ProbOracle) (P T f : Nat) : Nat :=
  if o.est f T P = 0 ∧ f > 0 then 1 else o.est f T P

theorem initialProbs_eq (o : ProbOracle) (P T : Nat) (fs : List Nat) :
    initialProbs o P T fs = fs.map (initProb o P T) := rfl

theorem initProb_pos_iff (o : ProbOracle) (T P f : Nat) (h0 : o.est 0 T P = 0) :
    0 < initProb o P T f ↔ 0 < f := by
  simp only [initProb]
  constructor
  · intro h
    by_contra hf
    have : f = 0 := by omega
    subst this
    simp [h0] at h
  · intro hf
    split <;> omega

theorem filter_pos_initialProbs (o : ProbOracle) (T P : Nat) (h0 : o.est 0 T P = 0) (fs : List Nat) :
    ((fs.map (initProb o P T)).filter (· > 0)).length = (fs.filter (· > 0)).length := by
  rw [List.filter_map, List.length_map]
  congr 1
  apply List.filter_congr
  intro x _
  have := initProb_pos_iff o T P x h0
  simp only [Function.comp, gt_iff_lt, decide_eq_decide]
  exact this

theorem filter_all_pos (l : List Nat) (h : ∀ x ∈ l, 0 < x) : (l.filter (· > 0)).length = l.length := by
  rw [List.filter_eq_self.mpr]
  intro x hx
  simpa using h x hx

theorem minRoom_initialProbs (o : ProbOracle) (T P : Nat) (fs : List Nat) (hT : 0 < T)
    (hsum : fs.sum = T) (ok : OracleOK o T P) (hused : (fs.filter (· > 0)).length < P) :
    MinRoom P (fs.map (initProb o P T)) := by
  intro i hi hmin
  rw [filter_pos_initialProbs o T P ok.est_zero]
  simp only [List.length_map] at hi hmin
  have hget : ∀ j, j < fs.length → (fs.map (initProb o P T)).getD j 0 = initProb o P T (fs.getD j 0) := by
    intro j hj
    simp [List.getD_eq_getElem?_getD, List.getElem?_eq_getElem hj]
  rw [hget i hi]
  generalize hm : initProb o P T (fs.getD i 0) = m
  by_cases hm0 : m = 0
  · simp only [hm0, if_true]; omega
  · simp only [hm0, if_false]
    -- every entry is positive, hence every frequency
    have hall : ∀ x ∈ fs, m ≤ initProb o P T x := by
      intro x hx
      obtain ⟨j, hj, rfl⟩ := List.getElem_of_mem hx
      have := hmin j hj
      rw [hget i hi, hget j hj, hm] at this
      simpa [List.getD_eq_getElem?_getD, List.getElem?_eq_getElem hj] using this
    have hpos : ∀ x ∈ fs, 0 < x := by
      intro x hx
      have := hall x hx
      exact (initProb_pos_iff o T P x ok.est_zero).mp (by omega)
    rw [filter_all_pos fs hpos] at hused ⊢
    have hbound : ∀ x ∈ fs, T * m ≤ x * P + T := by
      intro x hx
      have h1 := hall x hx
      have hxT : x ≤ T := by rw [← hsum]; exact mem_le_sum' fs x hx
      have hx0 := hpos x hx
      have h2 : T * initProb o P T x ≤ x * P + T := by
        simp only [initProb]
        split
        · have : 0 ≤ x * P := Nat.zero_le _
          omega
        · exact ok.est_le x hx0 hxT
      exact Nat.le_trans (Nat.mul_le_mul_left T h1) h2
    have hs := length_mul_le_sum (T * m) P T fs hbound
    rw [hsum] at hs
    -- n·T·m ≤ T·P + n·T, hence n·m ≤ P + n
    have hnm : fs.length * m ≤ P + fs.length := by
      have : T * (fs.length * m) ≤ T * (P + fs.length) := by
        have e1 : T * (fs.length * m) = fs.length * (T * m) := by
          rw [Nat.mul_left_comm]
        rw [e1, Nat.mul_add, Nat.mul_comm T fs.length]
        exact hs
      exact Nat.le_of_mul_le_mul_left this hT
    by_cases hn1 : fs.length = 1
    · -- a single symbol: its frequency is the total
      have hf : fs.getD i 0 = T := by
        match fs, hn1, hi, hsum with
        | [x], _, hi, hsum =>
          have : i = 0 := by simp at hi; omega
          subst this
          simpa using hsum
      have : m ≤ P := by
        rw [← hm, hf]
        simp only [initProb]
        have := ok.est_full
        split <;> omega
      omega
    · have hn2 : 2 ≤ fs.length := by omega
      -- a := m - 1 satisfies n·a ≤ P;  a + n ≤ P follows from n < P
      obtain ⟨a, rfl⟩ : ∃ a, m = a + 1 := ⟨m - 1, by omega⟩
      have hna : fs.length * a ≤ P := by
        rw [Nat.mul_add, Nat.mul_one] at hnm; omega
      by_cases ha : a ≤ 1
      · have : a = 0 ∨ a = 1 := by omega
        rcases this with rfl | rfl <;> omega
      · have h1 : fs.length * 2 ≤ fs.length * a := Nat.mul_le_mul_left _ (by omega)
        have h2 : 2 * a ≤ fs.length * a := Nat.mul_le_mul_right _ hn2
        omega

theorem createProbs_complete (o : ProbOracle) (pb : Nat) (freqs : List Nat)
    (hT : 0 < sumNat freqs) (ok : OracleOK o (sumNat freqs) (2 ^ pb))
    (hused : (freqs.filter (· > 0)).length < 2 ^ pb) :
    ∃ probs, createProbs o pb freqs = some probs := by
  rw [sumNat_eq_sum] at hT ok
  have hne : freqs ≠ [] := by intro h; subst h; simp at hT
  have hempty : freqs.isEmpty = false := by cases freqs <;> simp_all
  have hT0 : (freqs.sum == 0) = false := by simp; omega
  simp only [createProbs, sumNat_eq_sum, hempty, hT0, Bool.or_self, Bool.false_eq_true, if_false]
  have hsum := sum_take_maxValid freqs
  have hsub : ((freqs.take (maxValidSymbol freqs + 1)).filter (· > 0)).length
      ≤ (freqs.filter (· > 0)).length :=
    ((List.take_sublist _ _).filter _).length_le
  have hroom := minRoom_initialProbs o freqs.sum (2 ^ pb) (freqs.take (maxValidSymbol freqs + 1)) hT hsum ok
    (by omega)
  have hne' : (freqs.take (maxValidSymbol freqs + 1)).map (initProb o (2 ^ pb) freqs.sum) ≠ [] := by
    cases freqs with
    | nil => exact absurd rfl hne
    | cons x xs => simp
  obtain ⟨probs, e, hs⟩ := normaliseProbs_complete o (2 ^ pb) ok.rescale_le ok.rescale_mono _ hne' hroom
  rw [initialProbs_eq, e]
  simp only [hs, ne_eq, not_true_eq_false, if_false]
  exact ⟨probs, rfl⟩

theorem createProbs_length (o : ProbOracle) (pb : Nat) (freqs probs : List Nat)
    (h : createProbs o pb freqs = some probs) :
    probs.length = min (maxValidSymbol freqs + 1) freqs.length := by
  simp only [createProbs] at h
  split at h
  · simp at h
  · cases hn : normaliseProbs o (2 ^ pb)
        (initialProbs o (2 ^ pb) (sumNat freqs) (freqs.take (maxValidSymbol freqs + 1))) with
    | none => simp [hn] at h
    | some ps =>
      simp only [hn] at h
      split at h
      · simp at h
      · simp only [Option.some.injEq] at h; subst h
        obtain ⟨_, l1⟩ := normaliseProbs_pos o (2 ^ pb) (fun _ => False) _ ps (fun _ h => h.elim) hn
        rw [l1]; simp [initialProbs, List.length_take]

/-- `RAnsSymbolEncoder::Create` returns true: the table is produced and `EncodeTable` accepts it -/
theorem encoderCreate_complete (o : ProbOracle) (pb : Nat) (hpb : pb ≤ 21) (freqs : List Nat)
    (hlen : freqs.length < 2 ^ 32) (hT : 0 < sumNat freqs)
    (ok : OracleOK o (sumNat freqs) (2 ^ pb))
    (hused : (freqs.filter (· > 0)).length < 2 ^ pb) :
    ∃ probs tbl, ransSymbolEncoderCreate o pb freqs = some (probs, tbl) := by
  obtain ⟨probs, hc⟩ := createProbs_complete o pb freqs hT ok hused
  obtain ⟨hsum, hl, hpos⟩ := createProbs_sound o pb freqs probs hc
  have hplen := createProbs_length o pb freqs probs hc
  have hT' : 0 < freqs.sum := by rw [← sumNat_eq_sum]; exact hT
  have hmv := maxValidSymbol_pos freqs hT'
  have hmvlt := getD_pos_lt_length freqs _ hmv
  have hlast : probs.getLast? ≠ some 0 := by
    have hlen' : probs.length = maxValidSymbol freqs + 1 := by omega
    have h1 := hpos _ hmv
    rw [List.getLast?_eq_getElem?, hlen']
    simp only [Nat.add_sub_cancel]
    intro h0
    rw [List.getD_eq_getElem?_getD, h0] at h1
    simp at h1
  have hP : 2 ^ pb ≤ 2 ^ 21 := Nat.pow_le_pow_right (by decide) hpb
  have hok : TableOk probs :=
    ⟨fun p hp => by have := mem_le_sum' probs p hp; omega, hlast⟩
  obtain ⟨bs, he, _⟩ := table_roundtrip_aux probs (by omega) hok
  exact ⟨probs, bs, by simp only [ransSymbolEncoderCreate, hc, he]⟩

/-! ### the exact rational instance satisfies the hypotheses -/

theorem exactOracle_ok (T P : Nat) (hT : 0 < T) : OracleOK ProbOracle.exact T P where
  est_zero := by
    simp only [ProbOracle.exact, Nat.mul_zero, Nat.zero_mul, Nat.zero_add]
    exact Nat.div_eq_of_lt (by omega)
  est_full := by
    simp only [ProbOracle.exact]
    have : 2 * T * P + T = 2 * T * P + T := rfl
    rw [Nat.mul_add_div (by omega : 0 < 2 * T), Nat.div_eq_of_lt (by omega : T < 2 * T)]
    omega
  est_le := by
    intro f _ _
    simp only [ProbOracle.exact]
    have h := Nat.div_mul_le_self (2 * f * P + T) (2 * T)
    have e1 : (2 * f * P + T) / (2 * T) * (2 * T) = 2 * (T * ((2 * f * P + T) / (2 * T))) := by
      rw [Nat.mul_comm _ (2 * T), Nat.mul_assoc]
    have e2 : 2 * f * P = 2 * (f * P) := Nat.mul_assoc _ _ _
    rw [e1] at h
    rw [e2] at h ⊢
    omega
  rescale_le := by
    intro A p hA
    simp only [ProbOracle.exact]
    apply Nat.div_le_of_le_mul
    exact Nat.mul_le_mul_right p (Nat.le_of_lt hA)
  rescale_mono := by
    intro A p q _ hpq
    simp only [ProbOracle.exact]
    exact Nat.div_le_div_right (Nat.mul_le_mul_left P hpq)

end Draco
