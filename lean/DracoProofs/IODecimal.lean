import DracoProofs.IODecimalRound
/-
  DracoProofs.IODecimal — `parser::ParseFloat ∘ printf("%F")` on a finite float32 of magnitude
  below 2³⁶: the text fits the 20-byte buffer, is read completely, and the value read is within
  0.5·10⁻⁶ + rounding slack of the float.
-/
namespace Draco.IO.Dec

theorem f32Mant_lt (bits : Nat) : f32Mant bits < 2^24 := by
  unfold f32Mant
  have := Nat.mod_lt bits (by norm_num : 2^23 > 0)
  simp only
  split <;> omega

/-- magnitudes below 2³⁶ print with at most 11 integer digits -/
theorem dec6Scaled_lt (bits : Nat) (he : (bits / 2^23) % 256 < 163) : dec6Scaled bits < 10^17 := by
  have hc := (abs_le.mp (dec6Scaled_close bits)).2
  have hm : (f32Mant bits : ℚ) < 2^24 := by exact_mod_cast f32Mant_lt bits
  have hex : f32Exp bits ≤ 12 := by unfold f32Exp; split <;> omega
  have hz : (2:ℚ)^(f32Exp bits) ≤ (2:ℚ)^(12:ℤ) := zpow_le_zpow_right₀ (by norm_num) hex
  have hzp : (0:ℚ) < (2:ℚ)^(f32Exp bits) := zpow_pos (by norm_num) _
  have hab : f32Abs bits < 2^24 * (2:ℚ)^(12:ℤ) := by
    unfold f32Abs
    calc (f32Mant bits : ℚ) * 2^(f32Exp bits) < 2^24 * 2^(f32Exp bits) := mul_lt_mul_of_pos_right hm hzp
      _ ≤ 2^24 * (2:ℚ)^(12:ℤ) := mul_le_mul_of_nonneg_left hz (by norm_num)
  have : (dec6Scaled bits : ℚ) < 10^17 := by
    have e : (2:ℚ)^24 * (2:ℚ)^(12:ℤ) = 68719476736 := by norm_num
    rw [e] at hab
    linarith
  exact_mod_cast this

/-- the text printed for a finite float32 below 2³⁶ is not cut by the 20-byte buffer -/
theorem fmtChars_decimal (bits : Nat) (hfin : f32Finite bits = true) (hs : dec6Scaled bits < 10^17) :
    fmtChars bits = (if f32Neg bits then ['-'] else []) ++
      (natDigits (dec6Scaled bits / 1000000)).map digitChar ++
      '.' :: (fixedDigits 6 (dec6Scaled bits % 1000000)).map digitChar := by
  unfold fmtChars fmtCharsFull
  simp only [hfin, Bool.not_true, Bool.false_eq_true, if_false]
  apply List.take_of_length_le
  have hI : dec6Scaled bits / 1000000 < 10^11 := Nat.div_lt_of_lt_mul (by norm_num at hs ⊢; omega)
  have hL := natDigits_length_le _ 11 (by norm_num) hI
  simp only [List.length_append, List.length_map, List.length_cons, fixedDigits_length]
  split <;> simp <;> omega

variable (ops : DecOps ℚ) {u : ℚ} (hu0 : 0 ≤ u) (hu1 : u ≤ 1) (R : DecRounding ops u)
include hu0 hu1 R

/-- the `double` value `ParseFloat` computes from the printed text is the printed decimal up to 35
    rounding factors; nothing is left unread -/
theorem parse_print_within (bits : Nat) (hfin : f32Finite bits = true) (he : (bits / 2^23) % 256 < 163) :
    ∃ p : Parsed ℚ, @parseCore ℚ ops (fmtChars bits) = some p ∧ p.rest = [] ∧ p.neg = f32Neg bits ∧
      p.nanNeg = false ∧ Within u 35 p.mag (dec6 bits) := by
  have hs := dec6Scaled_lt bits he
  set s := dec6Scaled bits with hsd
  set ints := natDigits (s / 1000000) with hints
  set fracs := fixedDigits 6 (s % 1000000) with hfracs
  have hil := natDigits_lt (s / 1000000)
  have hfl := fixedDigits_lt 6 (s % 1000000)
  have hne := natDigits_ne_nil (s / 1000000)
  have hparse := @parseCore_decimal ℚ ops (f32Neg bits) ints fracs hne hil hfl
  rw [← fmtChars_decimal bits hfin hs] at hparse
  refine ⟨_, hparse, rfl, rfl, rfl, ?_⟩
  -- integer part
  have w0 : Within u 0 ops.zero 0 := by rw [R.zero]; exact Within.exact hu0 hu1 0
  have w1 := intFold_within ops hu0 hu1 R ints hil ops.zero 0 0 (le_refl _) w0
  rw [val_natDigits] at w1
  have hI : s / 1000000 < 10^11 := Nat.div_lt_of_lt_mul (by norm_num at hs ⊢; omega)
  have hL : ints.length ≤ 11 := natDigits_length_le _ 11 (by norm_num) hI
  have hL1 : 1 ≤ ints.length := by
    cases hi : ints with
    | nil => exact absurd hi hne
    | cons _ _ => simp
  have hIq : (0:ℚ) ≤ ((s / 1000000 : Nat) : ℚ) := Nat.cast_nonneg _
  have w1' : Within u (2 * ints.length + 2 * 0 + 1) (@intFold ℚ ops ints ops.zero) ((s / 1000000 : Nat) : ℚ) := by
    have : (0:ℚ) * 10^ints.length + ((s / 1000000 : Nat) : ℚ) = ((s / 1000000 : Nat) : ℚ) := by ring
    rw [this] at w1
    exact Within.mono hu0 hu1 hIq (by omega) w1
  -- fraction part
  have wfr : Within u (2 * 0) ops.one (1 / 10^0) := by rw [R.one]; simpa using Within.exact hu0 hu1 1
  have w2 := fracFold_within ops hu0 hu1 R fracs hfl _ ops.one _ 0 (2 * ints.length) (by omega) hIq wfr w1'
  rw [fracVal_eq, val_fixedDigits, fixedDigits_length] at w2
  have hval : (((s / 1000000 : Nat) : ℚ) + ((s % 1000000 % 10^6 : Nat) : ℚ) / 10^(0 + 6)) = dec6 bits := by
    unfold dec6
    rw [← hsd]
    have h1 : s % 1000000 % 10^6 = s % 1000000 := Nat.mod_eq_of_lt (Nat.mod_lt _ (by norm_num))
    rw [h1]
    have h2 : (s : ℚ) = ((s / 1000000 : Nat) : ℚ) * 1000000 + ((s % 1000000 : Nat) : ℚ) := by
      have := Nat.div_add_mod s 1000000
      have : ((1000000 * (s / 1000000) + s % 1000000 : Nat) : ℚ) = (s : ℚ) := by rw [this]
      push_cast at this
      linarith
    rw [h2]
    norm_num
    ring
  rw [hval] at w2
  have hd : 0 ≤ dec6 bits := by unfold dec6; positivity
  exact Within.mono hu0 hu1 hd (by omega) w2

/-- **`ParseFloat(printf("%F", x))` is within 0.5·10⁻⁶ plus rounding slack of `x`**: `rn32` is the
    `double → float` conversion with relative error at most `u32`. -/
theorem parse_print_close (rn32 : ℚ → ℚ) {u32 : ℚ} (hu32 : 0 ≤ u32)
    (h32 : ∀ v, ∃ δ : ℚ, |δ| ≤ u32 ∧ rn32 v = v * (1 + δ))
    (bits : Nat) (hfin : f32Finite bits = true) (he : (bits / 2^23) % 256 < 163) :
    ∃ p : Parsed ℚ, @parseCore ℚ ops (fmtChars bits) = some p ∧ p.rest = [] ∧ p.nanNeg = false ∧
      |(if p.neg then -1 else 1) * rn32 p.mag - f32Val bits| ≤
        5 / 10000000 + (f32Abs bits + 5 / 10000000) * ((1 + u)^35 * (1 + u32) - 1) := by
  obtain ⟨p, hp, hrest, hneg, hnan, hw⟩ := parse_print_within ops hu0 hu1 R bits hfin he
  refine ⟨p, hp, hrest, hnan, ?_⟩
  obtain ⟨δ, hδ, e⟩ := h32 p.mag
  have hd : 0 ≤ dec6 bits := by unfold dec6; positivity
  have hE : (1:ℚ) ≤ (1 + u)^35 := one_le_pow₀ (by linarith)
  have h1 := Within.abs_sub hu0 hu1 hd hw
  have hmag := hw.2
  have hm0 := Within.nonneg hu0 hu1 hd hw
  have hc := dec6_close bits
  have ha := f32Abs_nonneg bits
  -- |rn32 v - t| ≤ t·((1+u)^35 (1+u32) - 1)
  have h2 : |rn32 p.mag - dec6 bits| ≤ dec6 bits * ((1 + u)^35 * (1 + u32) - 1) := by
    have e1 : rn32 p.mag - dec6 bits = (p.mag - dec6 bits) + p.mag * δ := by rw [e]; ring
    have h3 : |p.mag * δ| ≤ dec6 bits * (1 + u)^35 * u32 := by
      rw [abs_mul, abs_of_nonneg hm0]
      exact mul_le_mul hmag hδ (abs_nonneg _) (by positivity)
    rw [e1]
    have := abs_add_le (p.mag - dec6 bits) (p.mag * δ)
    have e2 : dec6 bits * ((1 + u)^35 * (1 + u32) - 1) =
        dec6 bits * ((1 + u)^35 - 1) + dec6 bits * (1 + u)^35 * u32 := by ring
    rw [e2]; linarith
  have hK : 0 ≤ (1 + u)^35 * (1 + u32) - 1 := by nlinarith
  have hdle : dec6 bits ≤ f32Abs bits + 5 / 10000000 := by have := (abs_le.mp hc).2; linarith
  -- signs
  have hsign : |(if p.neg then -1 else 1) * rn32 p.mag - f32Val bits| = |rn32 p.mag - f32Abs bits| := by
    unfold f32Val
    rw [hneg]
    by_cases hn : f32Neg bits = true
    · simp only [hn, if_true]
      have : (-1:ℚ) * rn32 p.mag - -1 * f32Abs bits = -(rn32 p.mag - f32Abs bits) := by ring
      rw [this, abs_neg]
    · simp [hn]
  rw [hsign]
  have e3 : rn32 p.mag - f32Abs bits = (rn32 p.mag - dec6 bits) + (dec6 bits - f32Abs bits) := by ring
  rw [e3]
  have := abs_add_le (rn32 p.mag - dec6 bits) (dec6 bits - f32Abs bits)
  have h4 : dec6 bits * ((1 + u)^35 * (1 + u32) - 1) ≤
      (f32Abs bits + 5 / 10000000) * ((1 + u)^35 * (1 + u32) - 1) :=
    mul_le_mul_of_nonneg_right hdle hK
  linarith

end Draco.IO.Dec
