import DracoProofs.EbCoverage
import DracoProofs.EbConnRoundtrip
import DracoProofs.EbCTIso
/-
  DECODER HALF of the Edgebreaker connectivity round trip for SPLIT-FREE traversals (symbols C / R / L / E, no S, no
  topology splits, boundary start faces only, standard traversal), as a simulation against an ABSTRACT ENCODER TRACE.

  * `Trace t P syms`: what the encoder's traversal of the table `t` guarantees about the gate corners `P`
    (`processed_connectivity_corners_`, DECODER order) and the symbols `syms` (decoder order: 7 = E, 5 = R, 3 = L, 0 = C).
  * `DS`, `stepE / stepR / stepL / stepC`: the decoder's tables and the effect of one symbol as PURE array expressions.
  * `Inv t P j s`: the simulation invariant after `j` symbols: the decoder's `opp` is the INDUCED sub-table of the
    encoder's on the faces decoded so far (`OInv`), the decoder's vertices are swing-consistent, finer than the encoder's,
    with exact left-most corners (`VInv`), and the top of the active corner stack is the last created face.
  * `inv_stepE / inv_stepQ (R and L) / inv_stepC`, `inv_step`, `inv_St`: the invariant is preserved by every symbol of a trace;
    `guards_C`, `guards_RL`: the decoder's failure checks pass.
  * `ctIso_of_inv`, `ctIso_St`: the invariant after all symbols gives `CTIso t P P.size c2v opp` (with the encoder's
    vertex cover `hcov` = `AttViews.cover_enc_of_create` and `hvlt` as hypotheses).

  NOT DONE (M4 / M5, the monadic glue): `connLoop ⟨n, maxV, n, [], rm⟩ tr = .ok co` with `co.c2v = (St syms n maxV n).c2v`,
  `co.opp = …opp`, `co.vc = …vc`, `co.hole = …hole` for a `tr` with `tr.kind = 0`, `tr.legacy = false`,
  `∀ j < n, (decodeSymbolStd (RdS tr.sym j)).1 = syms[j]!`, `Yields RAnsBitDec.nextBit tr.startFace (List.replicate k false)`
  (`k` = number of `E`) and `(St … n).vc.size ≤ maxV` — by `ConnTri.bind_forIn_total` with the loop state
  `G j = ((St j).c2v, (St j).opp, (St j).vc, (St j).hole, (St j).stack, replicate n inv, #[], [], j, RdS tr.sym j, …)`, the body
  evaluated per symbol by `simp` under the facts of `guards_*` / `Inv` (as in `ConnTri.connLoop_triangles`); the start-face loop
  only pops the stack.  The statement was checked by evaluation (`connLoop` against `St` on strips, closed fans, two
  components, two interior vertices: identical `c2v / opp / vc / hole`, `ctIso = true`).
-/
namespace Draco.EbEnc.DecSim
open Draco Draco.EbEnc
open Draco.Eb (inv)
open Draco.EbEnc.EncCounts (nextC_cf prevC_cf nextC_div3 prevC_div3 inv_eq prevC_lt_inv)
open Draco.EbEnc.Coverage (TblOK vget_eq)

/-! ## M1: the abstract trace -/

/-- the corner `e` is invalid or lies in a face decoded LATER than face `j` (encoded earlier) -/
def Later (P : Array Nat) (j e : Nat) : Prop := e = inv ∨ ∃ i, i < P.size ∧ (j < i ∧ e / 3 = P[i]! / 3)
/-- the corner `e` lies in a face decoded EARLIER than face `j` (encoded later) -/
def Earlier (P : Array Nat) (j e : Nat) : Prop := e ≠ inv ∧ ∃ i, i < j ∧ e / 3 = P[i]! / 3
/-- `SwingLeft` of the encoder's table -/
def sL (t : CT) (c : Nat) : Nat := Eb.nextC (t.opp[Eb.nextC c]!)
def sLk (t : CT) : Nat → Nat → Nat
  | 0, c => c
  | k+1, c => sL t (sLk t k c)

instance (P : Array Nat) (j e : Nat) : Decidable (Later P j e) := by unfold Later; infer_instance
instance (P : Array Nat) (j e : Nat) : Decidable (Earlier P j e) := by unfold Earlier; infer_instance

/-- the facts about decoder face `j` (gate corner `c = P[j]`, symbol `syms[j]`):
    the gate neighbour `Opposite(c)` is a boundary or decoded later; the face is not degenerate;
    E: right neighbour `Opposite(Next(c))` and left neighbour `Opposite(Previous(c))` are boundaries or decoded later;
    R: right neighbour boundary / later, the left neighbour IS the previously decoded gate corner `P[j-1]`;
    L: left neighbour boundary / later, the right neighbour is `P[j-1]`;
    C: the right neighbour is `P[j-1]`, and the fan of the tip vertex is closed (`SwingLeft^m(c) = c`) and all its other
       faces are decoded earlier. -/
def TraceAt (t : CT) (P : Array Nat) (syms : List Nat) (j : Nat) : Prop :=
  P[j]! < t.numCorners ∧ Later P j t.opp[P[j]!]! ∧
  (t.c2v[P[j]!]! ≠ t.c2v[Eb.nextC P[j]!]! ∧ t.c2v[P[j]!]! ≠ t.c2v[Eb.prevC P[j]!]! ∧
    t.c2v[Eb.nextC P[j]!]! ≠ t.c2v[Eb.prevC P[j]!]!) ∧
  (syms[j]! = 7 → Later P j t.opp[Eb.nextC P[j]!]! ∧ Later P j t.opp[Eb.prevC P[j]!]!) ∧
  (syms[j]! = 5 → 0 < j ∧ Later P j t.opp[Eb.nextC P[j]!]! ∧ t.opp[Eb.prevC P[j]!]! = P[j - 1]!) ∧
  (syms[j]! = 3 → 0 < j ∧ t.opp[Eb.nextC P[j]!]! = P[j - 1]! ∧ Later P j t.opp[Eb.prevC P[j]!]!) ∧
  (syms[j]! = 0 → 0 < j ∧ t.opp[Eb.nextC P[j]!]! = P[j - 1]! ∧
    ∃ m, m < P.size + 1 ∧ (2 ≤ m ∧ sLk t m P[j]! = P[j]! ∧ ∀ k, k < m → 0 < k → Earlier P j (sLk t k P[j]!))) ∧
  (syms[j]! = 7 ∨ syms[j]! = 5 ∨ syms[j]! = 3 ∨ syms[j]! = 0)

instance (t : CT) (P : Array Nat) (syms : List Nat) (j : Nat) : Decidable (TraceAt t P syms j) := by
  unfold TraceAt; infer_instance

/-- **the abstract encoder trace** of a split-free traversal with boundary start faces only: `P` = the gate corners in
    DECODER order, `syms` = the symbols in decoder order, one symbol per face (no interior start face) -/
structure Trace (t : CT) (P : Array Nat) (syms : List Nat) : Prop where
  size : syms.length = P.size
  distinct : ∀ i, i < P.size → ∀ i', i' < P.size → P[i]! / 3 = P[i']! / 3 → i = i'
  face : ∀ j, j < P.size → TraceAt t P syms j

instance (t : CT) (P : Array Nat) (syms : List Nat) : Decidable (Trace t P syms) :=
  decidable_of_iff (syms.length = P.size ∧ (∀ i, i < P.size → ∀ i', i' < P.size → P[i]! / 3 = P[i']! / 3 → i = i') ∧
    ∀ j, j < P.size → TraceAt t P syms j) ⟨fun h => ⟨h.1, h.2.1, h.2.2⟩, fun h => ⟨h.size, h.distinct, h.face⟩⟩

/-- validated instance (table, `processed` and the reversed symbols are what `encodeConnectivity` produces for the closed
    fan `#[(0,1,2),(0,2,3),(0,3,4),(0,4,1)]` around the interior vertex `0`): decoder order E R R C -/
example : Trace ⟨#[0, 1, 2, 0, 2, 3, 0, 3, 4, 0, 4, 1], #[inv, 5, 10, inv, 8, 1, inv, 11, 4, inv, 2, 7], #[9, 11, 2, 5, 8], 0, 0⟩
    #[11, 8, 5, 0] [7, 5, 5, 0] := by decide

/-- … and the strip `#[(0,1,2),(2,1,3),(2,3,4),(4,3,5)]`: decoder order E L R L -/
example : Trace ⟨#[0, 1, 2, 2, 1, 3, 2, 3, 4, 4, 3, 5], #[5, inv, inv, inv, 8, 0, 11, inv, 4, inv, inv, 6], #[0, 1, 6, 5, 9, 11], 0, 0⟩
    #[11, 8, 5, 2] [7, 3, 5, 3] := by decide

/-! ## the corner map -/

theorem phi_0 (P : Array Nat) (j : Nat) : phi P (3 * j) = P[j]! := by
  unfold phi
  have e1 : 3 * j / 3 = j := by omega
  have e2 : 3 * j % 3 = 0 := by omega
  simp [e1, e2]

theorem phi_1 (P : Array Nat) (j : Nat) : phi P (3 * j + 1) = Eb.nextC P[j]! := by
  unfold phi
  have e1 : (3 * j + 1) / 3 = j := by omega
  have e2 : (3 * j + 1) % 3 = 1 := by omega
  simp [e1, e2]

theorem phi_2 (P : Array Nat) (j : Nat) : phi P (3 * j + 2) = Eb.prevC P[j]! := by
  unfold phi
  have e1 : (3 * j + 2) / 3 = j := by omega
  have e2 : (3 * j + 2) % 3 = 2 := by omega
  simp [e1, e2]

theorem phi_face (P : Array Nat) (d : Nat) (hc : P[d / 3]! < inv) : phi P d / 3 = P[d / 3]! / 3 := by
  have h3 : d % 3 = 0 ∨ d % 3 = 1 ∨ d % 3 = 2 := by omega
  have e : d = 3 * (d / 3) + d % 3 := by omega
  rcases h3 with h | h | h
  · rw [e, h, Nat.add_zero, phi_0]; simp
  · rw [e, h, phi_1, nextC_div3 _ hc]; congr 2; omega
  · rw [e, h, phi_2, prevC_div3 _ hc]; congr 2; omega

/-- standing assumptions on the encoder's table and the gate corners -/
structure Ctx (t : CT) (P : Array Nat) : Prop where
  tbl : TblOK t
  plt : ∀ i, i < P.size → P[i]! < t.numCorners
  distinct : ∀ i, i < P.size → ∀ i', i' < P.size → P[i]! / 3 = P[i']! / 3 → i = i'

theorem Trace.ctx {t : CT} {P : Array Nat} {syms : List Nat} (hT : TblOK t) (h : Trace t P syms) : Ctx t P :=
  ⟨hT, fun i hi => (h.face i hi).1, h.distinct⟩

section ctx
variable {t : CT} {P : Array Nat} (hC : Ctx t P)
include hC

theorem Ctx.nc_le : t.numCorners ≤ inv := hC.tbl.base.le

theorem Ctx.fits : 3 * P.size ≤ t.numCorners := by
  have h3 : t.numCorners = 3 * t.numFaces := hC.tbl.ctok.three
  have := pigeon (fun i => P[i]! / 3) P.size t.numFaces
    (fun i hi => by have := hC.plt i hi; show P[i]! / 3 < t.numFaces; omega)
    (fun i j hij hj e => by have := hC.distinct i (by omega) j hj e; omega)
  omega

theorem Ctx.fits' : 3 * P.size ≤ inv := by
  have := hC.fits; have := hC.nc_le; omega

theorem Ctx.p_inv {i : Nat} (hi : i < P.size) : P[i]! < inv := by
  have := hC.plt i hi; have := hC.nc_le; omega

theorem Ctx.phi_lt {d : Nat} (hd : d < 3 * P.size) : phi P d < t.numCorners := by
  have hp := hC.plt (d / 3) (by omega)
  have hb := hC.tbl.base
  have h3 : d % 3 = 0 ∨ d % 3 = 1 ∨ d % 3 = 2 := by omega
  have e : d = 3 * (d / 3) + d % 3 := by omega
  rcases h3 with h | h | h
  · rw [e, h, Nat.add_zero, phi_0]; exact hp
  · rw [e, h, phi_1]; exact AttViews.nextC_ltN hb.n3 hp
  · rw [e, h, phi_2]; exact AttViews.prevC_ltN hb.n3 hb.le hp

theorem Ctx.phi_inv {d : Nat} (hd : d < 3 * P.size) : phi P d < inv := by
  have := hC.phi_lt hd; have := hC.nc_le; omega

theorem Ctx.phi_fc {d : Nat} (hd : d < 3 * P.size) : phi P d / 3 = P[d / 3]! / 3 :=
  phi_face P d (hC.p_inv (by omega))

theorem Ctx.phi_inj {d d' : Nat} (hd : d < 3 * P.size) (hd' : d' < 3 * P.size) (e : phi P d = phi P d') : d = d' := by
  have f1 := hC.phi_fc hd
  have f2 := hC.phi_fc hd'
  have hi : d / 3 = d' / 3 := hC.distinct _ (by omega) _ (by omega) (by rw [← f1, ← f2, e])
  have hp := hC.p_inv (i := d / 3) (by omega)
  have e1 : d = 3 * (d / 3) + d % 3 := by omega
  have e2 : d' = 3 * (d / 3) + d' % 3 := by omega
  rw [e1, e2] at e
  have h3 : d % 3 = 0 ∨ d % 3 = 1 ∨ d % 3 = 2 := by omega
  have h3' : d' % 3 = 0 ∨ d' % 3 = 1 ∨ d' % 3 = 2 := by omega
  rcases h3 with h | h | h <;> rcases h3' with h' | h' | h' <;> rw [h, h'] at e <;>
    simp only [Nat.add_zero, phi_0, phi_1, phi_2] at e <;>
    first
    | omega
    | (rw [nextC_cf _ hp] at e; split at e <;> omega)
    | (rw [prevC_cf _ hp] at e; split at e <;> omega)
    | (rw [nextC_cf _ hp, prevC_cf _ hp] at e; split at e <;> split at e <;> omega)

/-- every corner of a processed face is the image of a decoder corner -/
theorem Ctx.exists_phi {e i : Nat} (he : e < inv) (hi : i < P.size) (hf : e / 3 = P[i]! / 3) :
    ∃ d, d / 3 = i ∧ phi P d = e := by
  rcases Coverage.same_face he (hC.p_inv hi) hf with h | h | h
  · exact ⟨3 * i, by omega, by rw [phi_0, h]⟩
  · exact ⟨3 * i + 1, by omega, by rw [phi_1, h]⟩
  · exact ⟨3 * i + 2, by omega, by rw [phi_2, h]⟩

/-- the encoder's `Opposite` is an involution -/
theorem Ctx.invol {c : Nat} (hc : c < t.numCorners) (h : t.opp[c]! ≠ inv) :
    t.opp[c]! < t.numCorners ∧ t.opp[t.opp[c]!]! = c := hC.tbl.base.invol c hc h

end ctx

/-! ## M1: the invariant, `Opposite` part -/

/-- after `j` symbols the decoder's `opposite_corners_` is the INDUCED sub-table of the encoder's on the faces decoded so
    far: glued exactly where the encoder's neighbour face is present -/
structure OInv (t : CT) (P : Array Nat) (j : Nat) (dopp : Array Nat) : Prop where
  size : dopp.size = 3 * P.size
  o1 : ∀ d, d < 3 * j → dopp[d]! ≠ inv → dopp[d]! < 3 * j ∧ phi P dopp[d]! = t.opp[phi P d]!
  o2 : ∀ d d', d < 3 * j → d' < 3 * j → t.opp[phi P d]! = phi P d' → dopp[d]! = d'
  o3 : ∀ d, 3 * j ≤ d → d < 3 * P.size → dopp[d]! = inv

theorem OInv.init (t : CT) (P : Array Nat) : OInv t P 0 (Array.replicate (3 * P.size) inv) :=
  ⟨by simp, fun d hd => absurd hd (by omega), fun d _ hd => absurd hd (by omega), fun d _ hd => by simp [hd]⟩

/-- a corner decoded so far whose encoder neighbour is not decoded yet is a boundary corner of the decoder's table -/
theorem OInv.inv_of_later {t : CT} {P : Array Nat} (hC : Ctx t P) {j : Nat} {dopp : Array Nat} (hO : OInv t P j dopp)
    (hj : j ≤ P.size) {d : Nat} (hd : d < 3 * j) (h : t.opp[phi P d]! = inv ∨ ∃ i, i < P.size ∧ j ≤ i ∧ t.opp[phi P d]! / 3 = P[i]! / 3) :
    dopp[d]! = inv := by
  apply Classical.byContradiction
  intro hne
  obtain ⟨h1, h2⟩ := hO.o1 d hd hne
  have hlt := hC.phi_inv (d := dopp[d]!) (by omega)
  rcases h with h | ⟨i, hi, hji, hf⟩
  · rw [← h2] at h; omega
  · rw [← h2, hC.phi_fc (by omega)] at hf
    have := hC.distinct _ (by omega) _ hi hf
    omega

/-- **the generic gluing step**: the new face `j` is glued along the map `g` (new corner ↦ old corner or `inv`) exactly to
    its encoder neighbours that are present -/
theorem OInv.step {t : CT} {P : Array Nat} (hC : Ctx t P) {j : Nat} {dopp : Array Nat} (hO : OInv t P j dopp)
    (hj : j < P.size) (dopp' : Array Nat) (g : Nat → Nat) (hsz : dopp'.size = dopp.size)
    (h1 : ∀ a, 3 * j ≤ a → a < 3 * j + 3 → dopp'[a]! = g a)
    (h2 : ∀ a, 3 * j ≤ a → a < 3 * j + 3 → g a ≠ inv → g a < 3 * j ∧ phi P (g a) = t.opp[phi P a]! ∧ dopp'[g a]! = a)
    (h3 : ∀ a, 3 * j ≤ a → a < 3 * j + 3 → g a = inv → Later P j t.opp[phi P a]!)
    (h4 : ∀ d, d < 3 * j → (∀ a, 3 * j ≤ a → a < 3 * j + 3 → g a ≠ d) → dopp'[d]! = dopp[d]!)
    (h5 : ∀ d, 3 * j + 3 ≤ d → d < 3 * P.size → dopp'[d]! = inv) : OInv t P (j + 1) dopp' := by
  have hinv := hC.fits'
  -- the encoder's opposite of the image of a glued old corner is the image of its new partner
  have hback : ∀ a, 3 * j ≤ a → a < 3 * j + 3 → g a ≠ inv → t.opp[phi P (g a)]! = phi P a := by
    intro a ha1 ha2 hg
    obtain ⟨k1, k2, _⟩ := h2 a ha1 ha2 hg
    rw [k2]
    have hlt := hC.phi_lt (d := a) (by omega)
    have hne : t.opp[phi P a]! ≠ inv := by
      rw [← k2]; have := hC.phi_inv (d := g a) (by omega); omega
    exact (hC.invol hlt hne).2
  -- a new corner whose encoder opposite is the image of a corner of the faces `≤ j` is glued to it
  have hnew : ∀ a d', 3 * j ≤ a → a < 3 * j + 3 → d' < 3 * (j + 1) → t.opp[phi P a]! = phi P d' → g a ≠ inv ∧ g a = d' := by
    intro a d' ha1 ha2 hd' e
    have hgne : g a ≠ inv := by
      intro hg
      rcases h3 a ha1 ha2 hg with h | ⟨i, hi, hji, hf⟩
      · rw [e] at h; have := hC.phi_inv (d := d') (by omega); omega
      · rw [e, hC.phi_fc (by omega)] at hf
        have := hC.distinct _ (by omega) _ hi hf
        omega
    obtain ⟨k1, k2, _⟩ := h2 a ha1 ha2 hgne
    exact ⟨hgne, hC.phi_inj (by omega) (by omega) (by rw [k2, e])⟩
  refine ⟨by rw [hsz]; exact hO.size, ?_, ?_, fun d hd1 hd2 => h5 d (by omega) hd2⟩
  · -- o1
    intro d hd hne
    by_cases hdn : 3 * j ≤ d
    · rw [h1 d hdn (by omega)] at hne ⊢
      obtain ⟨k1, k2, _⟩ := h2 d hdn (by omega) hne
      exact ⟨by omega, k2⟩
    · by_cases hex : ∀ a, 3 * j ≤ a → a < 3 * j + 3 → g a ≠ d
      · rw [h4 d (by omega) hex] at hne ⊢
        obtain ⟨k1, k2⟩ := hO.o1 d (by omega) hne
        exact ⟨by omega, k2⟩
      · simp only [not_forall, Decidable.not_not] at hex
        obtain ⟨a, ha1, ha2, hg⟩ := hex
        have hgne : g a ≠ inv := by rw [hg]; omega
        obtain ⟨_, _, k3⟩ := h2 a ha1 ha2 hgne
        rw [hg] at k3
        rw [k3]
        refine ⟨by omega, ?_⟩
        have := hback a ha1 ha2 hgne
        rw [hg] at this
        exact this.symm
  · -- o2
    intro d d' hd hd' e
    by_cases hdn : 3 * j ≤ d
    · rw [h1 d hdn (by omega)]
      exact (hnew d d' hdn (by omega) hd' e).2
    · by_cases hdn' : 3 * j ≤ d'
      · -- by the involution `d'` is a new corner glued to `d`
        have hlt := hC.phi_lt (d := d) (by omega)
        have hne : t.opp[phi P d]! ≠ inv := by rw [e]; have := hC.phi_inv (d := d') (by omega); omega
        have e' : t.opp[phi P d']! = phi P d := by rw [← e]; exact (hC.invol hlt hne).2
        obtain ⟨k1, k2⟩ := hnew d' d hdn' (by omega) (by omega) e'
        obtain ⟨_, _, k3⟩ := h2 d' hdn' (by omega) k1
        rw [k2] at k3
        exact k3
      · have hex : ∀ a, 3 * j ≤ a → a < 3 * j + 3 → g a ≠ d := by
          intro a ha1 ha2 hg
          have hgne : g a ≠ inv := by rw [hg]; omega
          have := hback a ha1 ha2 hgne
          rw [hg, e] at this
          have := hC.phi_inj (by omega) (by omega) this
          omega
        rw [h4 d (by omega) hex]
        exact hO.o2 d d' (by omega) (by omega) e

/-! ## the decoder's tables and the effect of one symbol, as pure array expressions -/

theorem gs (a : Array Nat) (i v d : Nat) (hi : i < a.size) : (a.set! i v)[d]! = if d = i then v else a[d]! := by
  by_cases e : d = i
  · rw [if_pos e, e]; exact get_set_self a i v hi
  · rw [if_neg e]; exact get_set_ne a i d v (fun h => e h.symm)

/-- `SetOppositeCorners(a, b)` -/
def glue (opp : Array Nat) (a b : Nat) : Array Nat := (opp.set! a b).set! b a

theorem glue_size (opp : Array Nat) (a b : Nat) : (glue opp a b).size = opp.size := by
  simp [glue]

theorem glue_get (opp : Array Nat) (a b d : Nat) (ha : a < opp.size) (hb : b < opp.size) :
    (glue opp a b)[d]! = if d = b then a else if d = a then b else opp[d]! := by
  unfold glue
  rw [gs _ _ _ _ (by rw [size_set]; exact hb), gs _ _ _ _ ha]

/-- the tables of `DecodeConnectivity` that matter here -/
structure DS where
  c2v : Array Nat
  opp : Array Nat
  vc : Array Nat
  hole : Array Bool
  stack : Array Nat

def DS.init (n maxV : Nat) : DS :=
  ⟨Array.replicate (3 * n) inv, Array.replicate (3 * n) inv, #[], Array.replicate maxV true, #[]⟩

/-- `TOPOLOGY_E` creating face `j` -/
def stepE (j : Nat) (s : DS) : DS :=
  { c2v := ((s.c2v.set! (3 * j) s.vc.size).set! (3 * j + 1) (s.vc.size + 1)).set! (3 * j + 2) (s.vc.size + 2)
    opp := s.opp
    vc := ((s.vc.push (3 * j)).push (3 * j + 1)).push (3 * j + 2)
    hole := s.hole
    stack := s.stack.push (3 * j) }

/-- `TOPOLOGY_R` creating face `j`: corner `3 j + 2` is glued to the active corner -/
def stepR (j : Nat) (s : DS) : DS :=
  let a := s.stack.back!
  { c2v := ((s.c2v.set! (3 * j + 2) s.vc.size).set! (3 * j) s.c2v[Eb.prevC a]!).set! (3 * j + 1) s.c2v[Eb.nextC a]!
    opp := glue s.opp (3 * j + 2) a
    vc := (s.vc.push (3 * j + 2)).set! s.c2v[Eb.prevC a]! (3 * j)
    hole := s.hole
    stack := s.stack.set! (s.stack.size - 1) (3 * j) }

/-- `TOPOLOGY_L` creating face `j`: corner `3 j + 1` is glued to the active corner -/
def stepL (j : Nat) (s : DS) : DS :=
  let a := s.stack.back!
  { c2v := ((s.c2v.set! (3 * j + 1) s.vc.size).set! (3 * j + 2) s.c2v[Eb.prevC a]!).set! (3 * j) s.c2v[Eb.nextC a]!
    opp := glue s.opp (3 * j + 1) a
    vc := (s.vc.push (3 * j + 1)).set! s.c2v[Eb.prevC a]! (3 * j + 2)
    hole := s.hole
    stack := s.stack.set! (s.stack.size - 1) (3 * j) }

/-- `corner_b` of `TOPOLOGY_C` -/
def cornerB (s : DS) : Nat := Eb.nextC s.vc[s.c2v[Eb.nextC s.stack.back!]!]!

/-- `TOPOLOGY_C` creating face `j`: corner `3 j + 1` is glued to the active corner `a`, corner `3 j + 2` to
    `Next(LeftMostCorner(Vertex(Next(a))))` -/
def stepC (j : Nat) (s : DS) : DS :=
  let a := s.stack.back!
  let b := cornerB s
  { c2v := ((s.c2v.set! (3 * j) s.c2v[Eb.nextC a]!).set! (3 * j + 1) s.c2v[Eb.nextC b]!).set! (3 * j + 2) s.c2v[Eb.prevC a]!
    opp := glue (glue s.opp a (3 * j + 1)) b (3 * j + 2)
    vc := s.vc.set! s.c2v[Eb.prevC a]! (3 * j + 2)
    hole := s.hole.setIfInBounds s.c2v[Eb.nextC a]! false
    stack := s.stack.set! (s.stack.size - 1) (3 * j) }

/-- one symbol -/
def step (sym j : Nat) (s : DS) : DS :=
  if sym = 7 then stepE j s else if sym = 5 then stepR j s else if sym = 3 then stepL j s else stepC j s

/-! ## M1: the invariant, vertex part -/

/-- the decoder's vertices after `j` symbols: ids below `vc.size`, constant along the swings of the partial table
    (`hedge`), every corner whose `SwingLeft` is invalid is THE recorded left-most corner of its vertex (`lm`), and the
    decoder's vertices are finer than the encoder's (`fine`) -/
structure VInv (t : CT) (P : Array Nat) (j : Nat) (dc2v dopp vc : Array Nat) : Prop where
  csize : dc2v.size = 3 * P.size
  vsz : vc.size ≤ 3 * j
  vlt : ∀ d, d < 3 * j → dc2v[d]! < vc.size
  hedge : ∀ d, d < 3 * j → dopp[d]! ≠ inv →
    dc2v[Eb.nextC dopp[d]!]! = dc2v[Eb.prevC d]! ∧ dc2v[Eb.prevC dopp[d]!]! = dc2v[Eb.nextC d]!
  lm : ∀ d, d < 3 * j → dopp[Eb.nextC d]! = inv → vc[dc2v[d]!]! = d
  fine : ∀ d d', d < 3 * j → d' < 3 * j → dc2v[d]! = dc2v[d']! → t.c2v[phi P d]! = t.c2v[phi P d']!

/-- **the simulation invariant** after `j` symbols -/
structure Inv (t : CT) (P : Array Nat) (j : Nat) (s : DS) : Prop where
  o : OInv t P j s.opp
  v : VInv t P j s.c2v s.opp s.vc
  stk : 0 < j → 0 < s.stack.size ∧ s.stack.back! = 3 * (j - 1)

theorem Inv.init (t : CT) (P : Array Nat) (maxV : Nat) : Inv t P 0 (DS.init P.size maxV) :=
  ⟨OInv.init t P, ⟨by simp [DS.init], by simp [DS.init], fun d hd => absurd hd (by omega), fun d hd => absurd hd (by omega),
    fun d hd => absurd hd (by omega), fun d _ hd => absurd hd (by omega)⟩, fun h => absurd h (by omega)⟩

/-- generic step for `hedge` -/
theorem hedge_step {t : CT} {P : Array Nat} (hC : Ctx t P) {j : Nat} {dc2v dopp vc : Array Nat}
    (hO : OInv t P j dopp) (hV : VInv t P j dc2v dopp vc) (hj : j < P.size) (dopp' dc2v' : Array Nat) (g : Nat → Nat)
    (h1 : ∀ a, 3 * j ≤ a → a < 3 * j + 3 → dopp'[a]! = g a)
    (h2 : ∀ a, 3 * j ≤ a → a < 3 * j + 3 → g a ≠ inv → g a < 3 * j ∧ dopp'[g a]! = a)
    (h4 : ∀ d, d < 3 * j → (∀ a, 3 * j ≤ a → a < 3 * j + 3 → g a ≠ d) → dopp'[d]! = dopp[d]!)
    (hold : ∀ d, d < 3 * j → dc2v'[d]! = dc2v[d]!)
    (hH : ∀ a, 3 * j ≤ a → a < 3 * j + 3 → g a ≠ inv →
      dc2v'[Eb.nextC (g a)]! = dc2v'[Eb.prevC a]! ∧ dc2v'[Eb.prevC (g a)]! = dc2v'[Eb.nextC a]!) :
    ∀ d, d < 3 * (j + 1) → dopp'[d]! ≠ inv →
      dc2v'[Eb.nextC dopp'[d]!]! = dc2v'[Eb.prevC d]! ∧ dc2v'[Eb.prevC dopp'[d]!]! = dc2v'[Eb.nextC d]! := by
  have hinv := hC.fits'
  intro d hd hne
  by_cases hdn : 3 * j ≤ d
  · rw [h1 d hdn (by omega)] at hne ⊢
    exact hH d hdn (by omega) hne
  · by_cases hex : ∀ a, 3 * j ≤ a → a < 3 * j + 3 → g a ≠ d
    · rw [h4 d (by omega) hex] at hne ⊢
      obtain ⟨k1, _⟩ := hO.o1 d (by omega) hne
      have i1 : 3 * j ≤ inv := by omega
      rw [hold _ (EncCounts.nextC_lt3 k1 i1), hold _ (EncCounts.prevC_lt3 k1 i1),
        hold _ (EncCounts.nextC_lt3 (by omega : d < 3 * j) i1), hold _ (EncCounts.prevC_lt3 (by omega : d < 3 * j) i1)]
      exact hV.hedge d (by omega) hne
    · simp only [not_forall, Decidable.not_not] at hex
      obtain ⟨a, ha1, ha2, hg⟩ := hex
      have hgne : g a ≠ inv := by rw [hg]; omega
      obtain ⟨_, k3⟩ := h2 a ha1 ha2 hgne
      obtain ⟨e1, e2⟩ := hH a ha1 ha2 hgne
      rw [hg] at k3 e1 e2
      rw [k3]
      exact ⟨e2.symm, e1.symm⟩

/-- generic step for `fine`: a new corner carries a fresh vertex id, or the id of an old corner whose image has the same
    encoder vertex -/
theorem fine_step {t : CT} {P : Array Nat} {j : Nat} {dc2v dopp vc : Array Nat}
    (hV : VInv t P j dc2v dopp vc) (dc2v' : Array Nat)
    (hold : ∀ d, d < 3 * j → dc2v'[d]! = dc2v[d]!)
    (hF : ∀ a, 3 * j ≤ a → a < 3 * j + 3 →
      (vc.size ≤ dc2v'[a]! ∧ ∀ a', 3 * j ≤ a' → a' < 3 * j + 3 → dc2v'[a']! = dc2v'[a]! → a' = a) ∨
      (∃ d, d < 3 * j ∧ dc2v'[a]! = dc2v[d]! ∧ t.c2v[phi P a]! = t.c2v[phi P d]!)) :
    ∀ d d', d < 3 * (j + 1) → d' < 3 * (j + 1) → dc2v'[d]! = dc2v'[d']! → t.c2v[phi P d]! = t.c2v[phi P d']! := by
  -- reduce to: every corner `< 3 (j+1)` is fresh-new or has an old representative
  have key : ∀ d, d < 3 * (j + 1) →
      (3 * j ≤ d ∧ vc.size ≤ dc2v'[d]! ∧ ∀ a', 3 * j ≤ a' → a' < 3 * j + 3 → dc2v'[a']! = dc2v'[d]! → a' = d) ∨
      (∃ d0, d0 < 3 * j ∧ dc2v'[d]! = dc2v[d0]! ∧ t.c2v[phi P d]! = t.c2v[phi P d0]!) := by
    intro d hd
    by_cases hdn : 3 * j ≤ d
    · rcases hF d hdn (by omega) with h | h
      · exact Or.inl ⟨hdn, h⟩
      · exact Or.inr h
    · exact Or.inr ⟨d, by omega, hold d (by omega), rfl⟩
  intro d d' hd hd' e
  rcases key d hd with ⟨hn, hf, hu⟩ | ⟨d0, hd0, e0, f0⟩
  · rcases key d' hd' with ⟨hn', _, _⟩ | ⟨d0', hd0', e0', _⟩
    · rw [hu d' hn' (by omega) e.symm]
    · have := hV.vlt d0' hd0'
      omega
  · rcases key d' hd' with ⟨hn', hf', _⟩ | ⟨d0', hd0', e0', f0'⟩
    · have := hV.vlt d0 hd0
      omega
    · rw [f0, f0']
      exact hV.fine d0 d0' hd0 hd0' (by rw [← e0, ← e0', e])

/-! ## M2: the steps E, R, L -/

theorem nx0 (j : Nat) (h : 3 * j + 2 < inv) : Eb.nextC (3 * j) = 3 * j + 1 := by
  rw [nextC_cf _ (by omega)]; split <;> omega
theorem nx1 (j : Nat) (h : 3 * j + 2 < inv) : Eb.nextC (3 * j + 1) = 3 * j + 2 := by
  rw [nextC_cf _ (by omega)]; split <;> omega
theorem nx2 (j : Nat) (h : 3 * j + 2 < inv) : Eb.nextC (3 * j + 2) = 3 * j := by
  rw [nextC_cf _ (by omega)]; split <;> omega
theorem pv0 (j : Nat) (h : 3 * j + 2 < inv) : Eb.prevC (3 * j) = 3 * j + 2 := by
  rw [prevC_cf _ (by omega)]; split <;> omega
theorem pv1 (j : Nat) (h : 3 * j + 2 < inv) : Eb.prevC (3 * j + 1) = 3 * j := by
  rw [prevC_cf _ (by omega)]; split <;> omega
theorem pv2 (j : Nat) (h : 3 * j + 2 < inv) : Eb.prevC (3 * j + 2) = 3 * j + 1 := by
  rw [prevC_cf _ (by omega)]; split <;> omega

theorem gs3 (a : Array Nat) (i1 v1 i2 v2 i3 v3 d : Nat) (h1 : i1 < a.size) (h2 : i2 < a.size) (h3 : i3 < a.size) :
    (((a.set! i1 v1).set! i2 v2).set! i3 v3)[d]! =
      if d = i3 then v3 else if d = i2 then v2 else if d = i1 then v1 else a[d]! := by
  rw [gs _ _ _ _ (by rw [size_set, size_set]; exact h3), gs _ _ _ _ (by rw [size_set]; exact h2), gs _ _ _ _ h1]

theorem push3_get (a : Array Nat) (x y z v : Nat) :
    (((a.push x).push y).push z)[v]! =
      if v = a.size + 2 then z else if v = a.size + 1 then y else if v = a.size then x else a[v]! := by
  rw [AttViews.push_get!, AttViews.push_get!, AttViews.push_get!]
  simp only [Array.size_push]

theorem back!_push (a : Array Nat) (x : Nat) : (a.push x).back! = x := by
  rw [Coverage.back!_eq, AttViews.push_get!]; simp

theorem back!_set (a : Array Nat) (x : Nat) (h : 0 < a.size) : (a.set! (a.size - 1) x).back! = x := by
  rw [Coverage.back!_eq, size_set, get_set_self _ _ _ (by omega)]

theorem inv_stepE {t : CT} {P : Array Nat} (hC : Ctx t P) {j : Nat} {s : DS} (hI : Inv t P j s) (hj : j < P.size)
    (hg : Later P j t.opp[P[j]!]!) (hr : Later P j t.opp[Eb.nextC P[j]!]!) (hl : Later P j t.opp[Eb.prevC P[j]!]!) :
    Inv t P (j + 1) (stepE j s) := by
  have hinv := hC.fits'
  have hcs := hI.v.csize
  have hc' : ∀ d, (stepE j s).c2v[d]! = if d = 3 * j + 2 then s.vc.size + 2 else if d = 3 * j + 1 then s.vc.size + 1
      else if d = 3 * j then s.vc.size else s.c2v[d]! := fun d => gs3 _ _ _ _ _ _ _ d (by omega) (by omega) (by omega)
  have hv' : ∀ v, (stepE j s).vc[v]! = if v = s.vc.size + 2 then 3 * j + 2 else if v = s.vc.size + 1 then 3 * j + 1
      else if v = s.vc.size then 3 * j else s.vc[v]! := fun v => push3_get _ _ _ _ v
  have hold : ∀ d, d < 3 * j → (stepE j s).c2v[d]! = s.c2v[d]! := by
    intro d hd
    rw [hc', if_neg (by omega), if_neg (by omega), if_neg (by omega)]
  have hO3 : ∀ a, 3 * j ≤ a → a < 3 * j + 3 → s.opp[a]! = inv := fun a h1 h2 => hI.o.o3 a h1 (by omega)
  have hnew : ∀ a, 3 * j ≤ a → a < 3 * j + 3 → a = 3 * j ∨ a = 3 * j + 1 ∨ a = 3 * j + 2 := by intros; omega
  refine ⟨?_, ⟨?_, ?_, ?_, ?_, ?_, ?_⟩, ?_⟩
  · refine OInv.step hC hI.o hj s.opp (fun _ => inv) rfl hO3 (fun a _ _ h => absurd rfl h) ?_ (fun _ _ _ => rfl)
      (fun d h1 h2 => hI.o.o3 d (by omega) h2)
    intro a h1 h2 _
    rcases hnew a h1 h2 with rfl | rfl | rfl
    · rw [phi_0]; exact hg
    · rw [phi_1]; exact hr
    · rw [phi_2]; exact hl
  · show (((s.c2v.set! _ _).set! _ _).set! _ _).size = _
    rw [size_set, size_set, size_set]; exact hcs
  · show (((s.vc.push _).push _).push _).size ≤ _
    have := hI.v.vsz
    simp only [Array.size_push]; omega
  · intro d hd
    have e : (stepE j s).vc.size = s.vc.size + 3 := by
      show (((s.vc.push _).push _).push _).size = _
      simp only [Array.size_push]
    rw [hc', e]
    split
    · omega
    · split
      · omega
      · split
        · omega
        · have := hI.v.vlt d (by omega); omega
  · exact hedge_step hC hI.o hI.v hj s.opp _ (fun _ => inv) hO3 (fun a _ _ h => absurd rfl h) (fun _ _ _ => rfl) hold
      (fun a _ _ h => absurd rfl h)
  · intro d hd hne
    by_cases hdn : 3 * j ≤ d
    · rcases hnew d hdn (by omega) with rfl | rfl | rfl
      · rw [hc', if_neg (by omega), if_neg (by omega), if_pos rfl, hv', if_neg (by omega), if_neg (by omega), if_pos rfl]
      · rw [hc', if_neg (by omega), if_pos rfl, hv', if_neg (by omega), if_pos rfl]
      · rw [hc', if_pos rfl, hv', if_pos rfl]
    · have hlt := hI.v.vlt d (by omega)
      rw [hold d (by omega), hv', if_neg (by omega), if_neg (by omega), if_neg (by omega)]
      exact hI.v.lm d (by omega) hne
  · refine fine_step hI.v _ hold ?_
    intro a h1 h2
    left
    rcases hnew a h1 h2 with rfl | rfl | rfl
    · refine ⟨by rw [hc', if_neg (by omega), if_neg (by omega), if_pos rfl], ?_⟩
      intro a' h1' h2' e
      rcases hnew a' h1' h2' with rfl | rfl | rfl
      · rfl
      · rw [hc', hc'] at e; simp at e
      · rw [hc', hc'] at e; simp at e
    · refine ⟨by rw [hc', if_neg (by omega), if_pos rfl]; omega, ?_⟩
      intro a' h1' h2' e
      rcases hnew a' h1' h2' with rfl | rfl | rfl
      · rw [hc', hc'] at e; simp at e
      · rfl
      · rw [hc', hc'] at e; simp at e
    · refine ⟨by rw [hc', if_pos rfl]; omega, ?_⟩
      intro a' h1' h2' e
      rcases hnew a' h1' h2' with rfl | rfl | rfl
      · rw [hc', hc'] at e; simp at e
      · rw [hc', hc'] at e; simp at e
      · rfl
  · intro _
    show 0 < (s.stack.push (3 * j)).size ∧ (s.stack.push (3 * j)).back! = _
    rw [back!_push]
    simp

/-- the encoder's table: the two other corners of the face opposite to an edge carry the vertices of the edge -/
theorem Ctx.hedge {t : CT} {P : Array Nat} (hC : Ctx t P) {c : Nat} (hc : c < t.numCorners) (h : t.opp[c]! ≠ inv) :
    t.c2v[Eb.nextC c]! = t.c2v[Eb.prevC t.opp[c]!]! ∧ t.c2v[Eb.prevC c]! = t.c2v[Eb.nextC t.opp[c]!]! := by
  have := hC.tbl.ctok.hedge c hc (by rw [vget_eq]; exact h)
  simpa only [vget_eq] using this

/-- `R` and `L` in one: the new corner `q` is glued to the active corner, `q1 = Next(q)` gets the vertex of
    `Previous(active)`, `q2 = Previous(q)` the vertex of `Next(active)` -/
def stepQ (j q q1 q2 : Nat) (s : DS) : DS :=
  let a := s.stack.back!
  { c2v := ((s.c2v.set! q s.vc.size).set! q1 s.c2v[Eb.prevC a]!).set! q2 s.c2v[Eb.nextC a]!
    opp := glue s.opp q a
    vc := (s.vc.push q).set! s.c2v[Eb.prevC a]! q1
    hole := s.hole
    stack := s.stack.set! (s.stack.size - 1) (3 * j) }

theorem stepR_eq (j : Nat) (s : DS) : stepR j s = stepQ j (3 * j + 2) (3 * j) (3 * j + 1) s := rfl
theorem stepL_eq (j : Nat) (s : DS) : stepL j s = stepQ j (3 * j + 1) (3 * j + 2) (3 * j) s := rfl

/-- the active corner is a boundary corner of the partial table -/
theorem Inv.active {t : CT} {P : Array Nat} (hC : Ctx t P) {j : Nat} {s : DS} (hI : Inv t P j s) (hj : j < P.size)
    (h0 : 0 < j) (hgp : Later P (j - 1) t.opp[P[j - 1]!]!) :
    0 < s.stack.size ∧ s.stack.back! = 3 * (j - 1) ∧ s.opp[3 * (j - 1)]! = inv := by
  obtain ⟨h1, h2⟩ := hI.stk h0
  refine ⟨h1, h2, hI.o.inv_of_later hC (by omega) (by omega) ?_⟩
  rw [phi_0]
  rcases hgp with h | ⟨i, hi, hji, hf⟩
  · exact Or.inl h
  · exact Or.inr ⟨i, hi, by omega, hf⟩

theorem inv_stepQ {t : CT} {P : Array Nat} (hC : Ctx t P) {j : Nat} {s : DS} (hI : Inv t P j s) (hj : j < P.size)
    (h0 : 0 < j) (hgp : Later P (j - 1) t.opp[P[j - 1]!]!) (q q1 q2 : Nat)
    (hr : 3 * j ≤ q ∧ q < 3 * j + 3 ∧ 3 * j ≤ q1 ∧ q1 < 3 * j + 3 ∧ 3 * j ≤ q2 ∧ q2 < 3 * j + 3 ∧ q ≠ q1 ∧ q ≠ q2 ∧ q1 ≠ q2)
    (hn : Eb.nextC q = q1 ∧ Eb.prevC q = q2 ∧ Eb.nextC q1 = q2 ∧ Eb.nextC q2 = q)
    (hq : t.opp[phi P q]! = P[j - 1]!) (hq1 : Later P j t.opp[phi P q1]!) (hq2 : Later P j t.opp[phi P q2]!) :
    Inv t P (j + 1) (stepQ j q q1 q2 s) := by
  have hinv := hC.fits'
  have hcs := hI.v.csize
  have hos := hI.o.size
  obtain ⟨hs0, hA, hoA⟩ := hI.active hC hj h0 hgp
  obtain ⟨r1, r2, r3, r4, r5, r6, r7, r8, r9⟩ := hr
  obtain ⟨n1, n2, n3, n4⟩ := hn
  have hnA : Eb.nextC (3 * (j - 1)) = 3 * (j - 1) + 1 := nx0 _ (by omega)
  have hpA : Eb.prevC (3 * (j - 1)) = 3 * (j - 1) + 2 := pv0 _ (by omega)
  have hvR := hI.v.vlt (3 * (j - 1) + 2) (by omega)
  have hvL := hI.v.vlt (3 * (j - 1) + 1) (by omega)
  have hnew : ∀ a, 3 * j ≤ a → a < 3 * j + 3 → a = q ∨ a = q1 ∨ a = q2 := by intros; omega
  have ho' : ∀ d, (stepQ j q q1 q2 s).opp[d]! = if d = 3 * (j - 1) then q else if d = q then 3 * (j - 1) else s.opp[d]! := by
    intro d
    show (glue s.opp q s.stack.back!)[d]! = _
    rw [hA]
    exact glue_get _ _ _ _ (by omega) (by omega)
  have hc' : ∀ d, (stepQ j q q1 q2 s).c2v[d]! = if d = q2 then s.c2v[3 * (j - 1) + 1]! else if d = q1 then s.c2v[3 * (j - 1) + 2]!
      else if d = q then s.vc.size else s.c2v[d]! := by
    intro d
    show (((s.c2v.set! q s.vc.size).set! q1 s.c2v[Eb.prevC s.stack.back!]!).set! q2 s.c2v[Eb.nextC s.stack.back!]!)[d]! = _
    rw [hA, hnA, hpA]
    exact gs3 _ _ _ _ _ _ _ d (by omega) (by omega) (by omega)
  have hv' : ∀ v, (stepQ j q q1 q2 s).vc[v]! = if v = s.c2v[3 * (j - 1) + 2]! then q1 else if v = s.vc.size then q else s.vc[v]! := by
    intro v
    show ((s.vc.push q).set! s.c2v[Eb.prevC s.stack.back!]! q1)[v]! = _
    rw [hA, hpA, gs _ _ _ _ (by rw [Array.size_push]; omega), AttViews.push_get!]
  have hvs : (stepQ j q q1 q2 s).vc.size = s.vc.size + 1 := by
    show ((s.vc.push q).set! _ q1).size = _
    rw [size_set, Array.size_push]
  have hold : ∀ d, d < 3 * j → (stepQ j q q1 q2 s).c2v[d]! = s.c2v[d]! := by
    intro d hd
    rw [hc', if_neg (by omega), if_neg (by omega), if_neg (by omega)]
  -- the gluing map
  have g1 : ∀ a, 3 * j ≤ a → a < 3 * j + 3 → (stepQ j q q1 q2 s).opp[a]! = (fun a => if a = q then 3 * (j - 1) else inv) a := by
    intro a h1 h2
    rw [ho', if_neg (by omega)]
    by_cases e : a = q
    · simp only [if_pos e]
    · simp only [if_neg e]
      exact hI.o.o3 a h1 (by omega)
  have g2 : ∀ a, 3 * j ≤ a → a < 3 * j + 3 → (fun a => if a = q then 3 * (j - 1) else inv) a ≠ inv →
      a = q ∧ (stepQ j q q1 q2 s).opp[3 * (j - 1)]! = q := by
    intro a h1 h2 hne
    by_cases e : a = q
    · exact ⟨e, by rw [ho', if_pos rfl]⟩
    · simp only [if_neg e] at hne
      exact absurd rfl hne
  have g4 : ∀ d, d < 3 * j → (∀ a, 3 * j ≤ a → a < 3 * j + 3 → (fun a => if a = q then 3 * (j - 1) else inv) a ≠ d) →
      (stepQ j q q1 q2 s).opp[d]! = s.opp[d]! := by
    intro d hd hex
    have := hex q r1 r2
    simp only [↓reduceIte] at this
    rw [ho', if_neg (fun e => this e.symm), if_neg (by omega)]
  have hphi1 : phi P q1 = Eb.nextC (phi P q) := by
    rw [← n1]; exact phi_nextC P q (by omega) (hC.p_inv (by omega))
  have hphi2 : phi P q2 = Eb.prevC (phi P q) := by
    rw [← n2]; exact phi_prevC P q (by omega) (hC.p_inv (by omega))
  have hqlt := hC.phi_lt (d := q) (by omega)
  have hpj := hC.p_inv (i := j - 1) (by omega)
  obtain ⟨eh1, eh2⟩ := hC.hedge hqlt (by rw [hq]; omega)
  rw [hq] at eh1 eh2
  refine ⟨?_, ⟨?_, ?_, ?_, ?_, ?_, ?_⟩, ?_⟩
  · refine OInv.step hC hI.o hj _ (fun a => if a = q then 3 * (j - 1) else inv) (glue_size _ _ _) g1 ?_ ?_ g4 ?_
    · intro a h1 h2 hne
      obtain ⟨e, k⟩ := g2 a h1 h2 hne
      subst e
      simp only [↓reduceIte]
      exact ⟨by omega, by rw [phi_0, hq], k⟩
    · intro a h1 h2 hg
      rcases hnew a h1 h2 with rfl | rfl | rfl
      · simp only [↓reduceIte] at hg; omega
      · exact hq1
      · exact hq2
    · intro d h1 h2
      rw [ho', if_neg (by omega), if_neg (by omega)]
      exact hI.o.o3 d (by omega) h2
  · show (((s.c2v.set! _ _).set! _ _).set! _ _).size = _
    rw [size_set, size_set, size_set]; exact hcs
  · have := hI.v.vsz
    rw [hvs]; omega
  · intro d hd
    rw [hc', hvs]
    split
    · omega
    · split
      · omega
      · split
        · omega
        · have := hI.v.vlt d (by omega); omega
  · refine hedge_step hC hI.o hI.v hj _ _ (fun a => if a = q then 3 * (j - 1) else inv) g1 ?_ g4 hold ?_
    · intro a h1 h2 hne
      obtain ⟨e, k⟩ := g2 a h1 h2 hne
      subst e
      simp only [↓reduceIte]
      exact ⟨by omega, k⟩
    · intro a h1 h2 hne
      obtain ⟨e, _⟩ := g2 a h1 h2 hne
      subst e
      simp only [↓reduceIte]
      rw [hnA, hpA, n1, n2, hold (3 * (j - 1) + 1) (by omega), hold (3 * (j - 1) + 2) (by omega), hc' q2, if_pos rfl, hc' q1, if_neg (by omega), if_pos rfl]
      exact ⟨rfl, rfl⟩
  · intro d hd hne
    by_cases hdn : 3 * j ≤ d
    · rcases hnew d hdn (by omega) with rfl | rfl | rfl
      · rw [hc', if_neg (by omega), if_neg (by omega), if_pos rfl, hv', if_neg (by omega), if_pos rfl]
      · rw [hc', if_neg (by omega), if_pos rfl, hv', if_pos rfl]
      · rw [n4, ho', if_neg (by omega), if_pos rfl] at hne
        omega
    · have hlt := hI.v.vlt d (by omega)
      have hnd := EncCounts.nextC_lt3 (by omega : d < 3 * j) (by omega)
      rw [ho'] at hne
      by_cases e : Eb.nextC d = 3 * (j - 1)
      · rw [if_pos e] at hne; omega
      · rw [if_neg e, if_neg (by omega)] at hne
        have k1 := hI.v.lm d (by omega) hne
        rw [hold d (by omega), hv']
        by_cases e2 : s.c2v[d]! = s.c2v[3 * (j - 1) + 2]!
        · exfalso
          have k2 := hI.v.lm (3 * (j - 1) + 2) (by omega) (by rw [nx2 _ (by omega)]; exact hoA)
          rw [← e2, k1] at k2
          rw [k2, nx2 _ (by omega)] at e
          exact e rfl
        · rw [if_neg e2, if_neg (by omega)]
          exact k1
  · refine fine_step hI.v _ hold ?_
    intro a h1 h2
    rcases hnew a h1 h2 with rfl | rfl | rfl
    · left
      refine ⟨by rw [hc', if_neg (by omega), if_neg (by omega), if_pos rfl], ?_⟩
      intro a' h1' h2' e
      rcases hnew a' h1' h2' with rfl | rfl | rfl
      · rfl
      · rw [hc' a', if_neg (by omega), if_pos rfl, hc' a, if_neg (by omega), if_neg (by omega), if_pos rfl] at e; omega
      · rw [hc' a', if_pos rfl, hc' a, if_neg (by omega), if_neg (by omega), if_pos rfl] at e; omega
    · right
      refine ⟨3 * (j - 1) + 2, by omega, by rw [hc', if_neg (by omega), if_pos rfl], ?_⟩
      rw [hphi1, phi_2, eh1]
    · right
      refine ⟨3 * (j - 1) + 1, by omega, by rw [hc', if_pos rfl], ?_⟩
      rw [hphi2, phi_1, eh2]
  · intro _
    show 0 < (s.stack.set! (s.stack.size - 1) (3 * j)).size ∧ (s.stack.set! (s.stack.size - 1) (3 * j)).back! = _
    rw [back!_set _ _ hs0, size_set]
    exact ⟨hs0, by simp⟩

/-! ## M3: the step C -/

/-- the fan of the tip vertex of `P[j]`, walked with `SwingLeft` from the right neighbour, is present in the decoder's
    partial table and carries ONE decoder vertex: that of `Next(active corner)` -/
theorem Inv.chain {t : CT} {P : Array Nat} (hC : Ctx t P) {j : Nat} {s : DS} (hI : Inv t P j s) (hj : j < P.size)
    (h0 : 0 < j) (hr : t.opp[Eb.nextC P[j]!]! = P[j - 1]!) (m : Nat)
    (hE : ∀ k, k < m → 0 < k → Earlier P j (sLk t k P[j]!)) :
    ∀ k, 0 < k → k < m → ∃ d, d < 3 * j ∧ phi P d = sLk t k P[j]! ∧ s.c2v[d]! = s.c2v[3 * (j - 1) + 1]! := by
  have hinv := hC.fits'
  have hnc := hC.nc_le
  intro k
  induction k with
  | zero => intro h; omega
  | succ k ih =>
    intro _ hk
    by_cases hk0 : k = 0
    · subst hk0
      refine ⟨3 * (j - 1) + 1, by omega, ?_, rfl⟩
      rw [phi_1]
      show _ = sL t P[j]!
      unfold sL
      rw [hr]
    · obtain ⟨d, hd, hphi, hv⟩ := ih (by omega) (by omega)
      obtain ⟨hne, i, hi, hf⟩ := hE (k + 1) hk (by omega)
      have hx : sLk t (k + 1) P[j]! = Eb.nextC (t.opp[Eb.nextC (sLk t k P[j]!)]!) := rfl
      rw [hx] at hne hf
      have i3 : 3 * j ≤ inv := by omega
      have hnd : Eb.nextC d < 3 * j := EncCounts.nextC_lt3 hd i3
      have hpn : phi P (Eb.nextC d) = Eb.nextC (sLk t k P[j]!) := by
        rw [phi_nextC P d (by omega) (hC.p_inv (by omega)), hphi]
      have hlt := hC.phi_lt (d := Eb.nextC d) (by omega)
      rw [hpn] at hlt
      have hene : t.opp[Eb.nextC (sLk t k P[j]!)]! ≠ inv := by
        intro e; rw [e] at hne; exact hne AttViews.nextC_inv
      obtain ⟨helt, _⟩ := hC.invol hlt hene
      have heinv : t.opp[Eb.nextC (sLk t k P[j]!)]! < inv := by omega
      obtain ⟨d', hd'i, hd'phi⟩ := hC.exists_phi (Eb.nextC_lt _ heinv) (by omega : i < P.size) hf
      have hd' : d' < 3 * j := by omega
      have hpd' : Eb.prevC d' < 3 * j := EncCounts.prevC_lt3 hd' i3
      have hpp : phi P (Eb.prevC d') = t.opp[Eb.nextC (sLk t k P[j]!)]! := by
        rw [phi_prevC P d' (by omega) (hC.p_inv (by omega)), hd'phi, Eb.prevC_nextC _ heinv]
      have hopp : s.opp[Eb.nextC d]! = Eb.prevC d' := hI.o.o2 _ _ hnd hpd' (by rw [hpn, hpp])
      obtain ⟨e1, _⟩ := hI.v.hedge (Eb.nextC d) hnd (by rw [hopp]; omega)
      rw [hopp, Eb.nextC_prevC _ (by omega), Eb.prevC_nextC _ (by omega)] at e1
      exact ⟨d', hd', by rw [hd'phi, hx], by rw [e1, hv]⟩

/-- **identification of `corner_b`**: the recorded left-most corner `l` of the decoder vertex of `Next(active corner)` is
    the decoder corner of the tip vertex in the encoder's LEFT neighbour face, so `Next(l)` is mapped to
    `Opposite(Previous(P[j]))` -/
theorem Inv.cornerB_spec {t : CT} {P : Array Nat} (hC : Ctx t P) {j : Nat} {s : DS} (hI : Inv t P j s) (hj : j < P.size)
    (h0 : 0 < j) (hr : t.opp[Eb.nextC P[j]!]! = P[j - 1]!) (m : Nat) (hm : 2 ≤ m) (hcl : sLk t m P[j]! = P[j]!)
    (hE : ∀ k, k < m → 0 < k → Earlier P j (sLk t k P[j]!)) :
    ∃ l, l < 3 * j ∧ s.vc[s.c2v[3 * (j - 1) + 1]!]! = l ∧ s.c2v[l]! = s.c2v[3 * (j - 1) + 1]! ∧
      phi P (Eb.nextC l) = t.opp[Eb.prevC P[j]!]! ∧ t.opp[phi P (Eb.nextC l)]! = Eb.prevC P[j]! := by
  have hinv := hC.fits'
  have hnc := hC.nc_le
  obtain ⟨d, hd, hphi, hv⟩ := hI.chain hC hj h0 hr m hE (m - 1) (by omega) (by omega)
  have hcj := hC.p_inv hj
  have hx : sLk t m P[j]! = Eb.nextC (t.opp[Eb.nextC (sLk t (m - 1) P[j]!)]!) := by
    have e : m = (m - 1) + 1 := by omega
    rw [e]; rfl
  rw [hx] at hcl
  have i3 : 3 * j ≤ inv := by omega
  have hnd : Eb.nextC d < 3 * j := EncCounts.nextC_lt3 hd i3
  have hpn : phi P (Eb.nextC d) = Eb.nextC (sLk t (m - 1) P[j]!) := by
    rw [phi_nextC P d (by omega) (hC.p_inv (by omega)), hphi]
  have hlt := hC.phi_lt (d := Eb.nextC d) (by omega)
  rw [hpn] at hlt
  have hene : t.opp[Eb.nextC (sLk t (m - 1) P[j]!)]! ≠ inv := by
    intro e; rw [e, AttViews.nextC_inv] at hcl; omega
  obtain ⟨helt, hback⟩ := hC.invol hlt hene
  have heinv : t.opp[Eb.nextC (sLk t (m - 1) P[j]!)]! < inv := by omega
  have he : t.opp[Eb.nextC (sLk t (m - 1) P[j]!)]! = Eb.prevC P[j]! := by
    have := Eb.prevC_nextC _ heinv
    rw [hcl] at this
    exact this.symm
  have hoinv : s.opp[Eb.nextC d]! = inv := by
    refine hI.o.inv_of_later hC (by omega) hnd (Or.inr ⟨j, hj, Nat.le_refl _, ?_⟩)
    rw [hpn, he, prevC_div3 _ hcj]
  have hlm := hI.v.lm d hd hoinv
  rw [hv] at hlm
  refine ⟨d, hd, hlm, hv, ?_, ?_⟩
  · rw [hpn, ← he, hback]
  · rw [hpn, he]

/-- the gluing map of a `C` step -/
def gC (j l a : Nat) : Nat := if a = 3 * j + 1 then 3 * (j - 1) else if a = 3 * j + 2 then Eb.nextC l else inv
theorem gC_0 (j l : Nat) : gC j l (3 * j) = inv := by
  unfold gC; rw [if_neg (by omega), if_neg (by omega)]
theorem gC_1 (j l : Nat) : gC j l (3 * j + 1) = 3 * (j - 1) := by
  unfold gC; rw [if_pos rfl]
theorem gC_2 (j l : Nat) : gC j l (3 * j + 2) = Eb.nextC l := by
  unfold gC; rw [if_neg (by omega), if_pos rfl]

/-- the facts about the two glued corners of a `C` step: the active corner `3 (j-1)` and `corner_b = Next(l)` -/
structure CFacts (t : CT) (P : Array Nat) (j : Nat) (s : DS) (l : Nat) : Prop where
  st0 : 0 < s.stack.size
  hA : s.stack.back! = 3 * (j - 1)
  oA : s.opp[3 * (j - 1)]! = inv
  ll : l < 3 * j
  hB : cornerB s = Eb.nextC l
  vl : s.c2v[l]! = s.c2v[3 * (j - 1) + 1]!
  phiB : phi P (Eb.nextC l) = t.opp[Eb.prevC P[j]!]!
  oppB : t.opp[phi P (Eb.nextC l)]! = Eb.prevC P[j]!
  oB : s.opp[Eb.nextC l]! = inv
  neAB : Eb.nextC l ≠ 3 * (j - 1)

theorem Inv.cfacts {t : CT} {P : Array Nat} (hC : Ctx t P) {j : Nat} {s : DS} (hI : Inv t P j s) (hj : j < P.size)
    (h0 : 0 < j) (hgp : Later P (j - 1) t.opp[P[j - 1]!]!)
    (hr : t.opp[Eb.nextC P[j]!]! = P[j - 1]!) (m : Nat) (hm : 2 ≤ m) (hcl : sLk t m P[j]! = P[j]!)
    (hE : ∀ k, k < m → 0 < k → Earlier P j (sLk t k P[j]!)) : ∃ l, CFacts t P j s l := by
  have hinv := hC.fits'
  have hnc := hC.nc_le
  obtain ⟨hs0, hA, hoA⟩ := hI.active hC hj h0 hgp
  obtain ⟨l, hl, hvc, hvl, hphiB, hoppB⟩ := hI.cornerB_spec hC hj h0 hr m hm hcl hE
  have hcj := hC.p_inv hj
  have hnl : Eb.nextC l < 3 * j := EncCounts.nextC_lt3 hl (by omega)
  refine ⟨l, hs0, hA, hoA, hl, ?_, hvl, hphiB, hoppB, ?_, ?_⟩
  · unfold cornerB
    rw [hA, nx0 _ (by omega), hvc]
  · refine hI.o.inv_of_later hC (by omega) hnl (Or.inr ⟨j, hj, Nat.le_refl _, ?_⟩)
    rw [hoppB, prevC_div3 _ hcj]
  · intro e
    -- `Opposite(Previous(c)) = Opposite(Next(c))` is impossible
    have h1 : t.opp[Eb.prevC P[j]!]! = t.opp[Eb.nextC P[j]!]! := by rw [← hphiB, e, phi_0, hr]
    have hb := hC.tbl.base
    have hplt : Eb.prevC P[j]! < t.numCorners := AttViews.prevC_ltN hb.n3 hb.le (hC.plt j hj)
    have hnlt : Eb.nextC P[j]! < t.numCorners := AttViews.nextC_ltN hb.n3 (hC.plt j hj)
    have hpj := hC.p_inv (i := j - 1) (by omega)
    have k1 := (hC.invol hnlt (by rw [hr]; omega)).2
    have k2 := (hC.invol hplt (by rw [h1, hr]; omega)).2
    rw [h1, k1] at k2
    rw [nextC_cf _ hcj, prevC_cf _ hcj] at k2
    split at k2 <;> split at k2 <;> omega

theorem inv_stepC {t : CT} {P : Array Nat} (hC : Ctx t P) {j : Nat} {s : DS} (hI : Inv t P j s) (hj : j < P.size)
    (h0 : 0 < j) (hg : Later P j t.opp[P[j]!]!)
    (hr : t.opp[Eb.nextC P[j]!]! = P[j - 1]!) {l : Nat} (hF : CFacts t P j s l) :
    Inv t P (j + 1) (stepC j s) := by
  have hinv := hC.fits'
  have hnc := hC.nc_le
  have hcs := hI.v.csize
  have hos := hI.o.size
  obtain ⟨hs0, hA, hoA, hl, hB, hvl, hphiB, hoppB, hoB, hAB⟩ := hF
  have hcj := hC.p_inv hj
  have hpj := hC.p_inv (i := j - 1) (by omega)
  have i3 : 3 * j ≤ inv := by omega
  have hnl : Eb.nextC l < 3 * j := EncCounts.nextC_lt3 hl i3
  have hnnl : Eb.nextC (Eb.nextC l) < 3 * j := EncCounts.nextC_lt3 hnl i3
  have hnA : Eb.nextC (3 * (j - 1)) = 3 * (j - 1) + 1 := nx0 _ (by omega)
  have hpA : Eb.prevC (3 * (j - 1)) = 3 * (j - 1) + 2 := pv0 _ (by omega)
  have hvR := hI.v.vlt (3 * (j - 1) + 2) (by omega)
  have hnew : ∀ a, 3 * j ≤ a → a < 3 * j + 3 → a = 3 * j ∨ a = 3 * j + 1 ∨ a = 3 * j + 2 := by intros; omega
  have ho' : ∀ d, (stepC j s).opp[d]! = if d = 3 * j + 2 then Eb.nextC l else if d = Eb.nextC l then 3 * j + 2
      else if d = 3 * j + 1 then 3 * (j - 1) else if d = 3 * (j - 1) then 3 * j + 1 else s.opp[d]! := by
    intro d
    show (glue (glue s.opp s.stack.back! (3 * j + 1)) (cornerB s) (3 * j + 2))[d]! = _
    rw [hA, hB, glue_get _ _ _ _ (by rw [glue_size]; omega) (by rw [glue_size]; omega), glue_get _ _ _ _ (by omega) (by omega)]
  have hc' : ∀ d, (stepC j s).c2v[d]! = if d = 3 * j + 2 then s.c2v[3 * (j - 1) + 2]! else if d = 3 * j + 1 then s.c2v[Eb.nextC (Eb.nextC l)]!
      else if d = 3 * j then s.c2v[3 * (j - 1) + 1]! else s.c2v[d]! := by
    intro d
    show (((s.c2v.set! (3 * j) s.c2v[Eb.nextC s.stack.back!]!).set! (3 * j + 1) s.c2v[Eb.nextC (cornerB s)]!).set! (3 * j + 2)
      s.c2v[Eb.prevC s.stack.back!]!)[d]! = _
    rw [hA, hB, hnA, hpA]
    exact gs3 _ _ _ _ _ _ _ d (by omega) (by omega) (by omega)
  have hv' : ∀ v, (stepC j s).vc[v]! = if v = s.c2v[3 * (j - 1) + 2]! then 3 * j + 2 else s.vc[v]! := by
    intro v
    show (s.vc.set! s.c2v[Eb.prevC s.stack.back!]! (3 * j + 2))[v]! = _
    rw [hA, hpA, gs _ _ _ _ hvR]
  have hvs : (stepC j s).vc.size = s.vc.size := by
    show (s.vc.set! _ _).size = _
    rw [size_set]
  have hold : ∀ d, d < 3 * j → (stepC j s).c2v[d]! = s.c2v[d]! := by
    intro d hd
    rw [hc', if_neg (by omega), if_neg (by omega), if_neg (by omega)]
  -- the gluing map
  have g1 : ∀ a, 3 * j ≤ a → a < 3 * j + 3 →
      (stepC j s).opp[a]! = (gC j l) a := by
    intro a h1 h2
    rcases hnew a h1 h2 with rfl | rfl | rfl
    · rw [gC_0, ho', if_neg (by omega), if_neg (by omega), if_neg (by omega), if_neg (by omega)]
      exact hI.o.o3 _ (by omega) (by omega)
    · rw [gC_1, ho', if_neg (by omega), if_neg (by omega), if_pos rfl]
    · rw [gC_2, ho', if_pos rfl]
  have g2 : ∀ a, 3 * j ≤ a → a < 3 * j + 3 →
      (gC j l) a ≠ inv →
      (a = 3 * j + 1 ∨ a = 3 * j + 2) := by
    intro a h1 h2 hne
    rcases hnew a h1 h2 with rfl | rfl | rfl
    · exact absurd (gC_0 j l) hne
    · exact Or.inl rfl
    · exact Or.inr rfl
  have gA := gC_1 j l
  have gB := gC_2 j l
  have oA' : (stepC j s).opp[3 * (j - 1)]! = 3 * j + 1 := by
    rw [ho', if_neg (by omega), if_neg (fun e => hAB e.symm), if_neg (by omega), if_pos rfl]
  have oB' : (stepC j s).opp[Eb.nextC l]! = 3 * j + 2 := by
    rw [ho', if_neg (by omega), if_pos rfl]
  have g4 : ∀ d, d < 3 * j → (∀ a, 3 * j ≤ a → a < 3 * j + 3 →
      (gC j l) a ≠ d) →
      (stepC j s).opp[d]! = s.opp[d]! := by
    intro d hd hex
    have k1 := hex (3 * j + 1) (by omega) (by omega)
    have k2 := hex (3 * j + 2) (by omega) (by omega)
    rw [gA] at k1
    rw [gB] at k2
    rw [ho', if_neg (by omega), if_neg (fun e => k2 e.symm), if_neg (by omega), if_neg (fun e => k1 e.symm)]
  -- encoder side
  have hb := hC.tbl.base
  have hplt : Eb.prevC P[j]! < t.numCorners := AttViews.prevC_ltN hb.n3 hb.le (hC.plt j hj)
  have hnlt : Eb.nextC P[j]! < t.numCorners := AttViews.nextC_ltN hb.n3 (hC.plt j hj)
  obtain ⟨eh1, eh2⟩ := hC.hedge hnlt (by rw [hr]; omega)
  rw [hr, EncCounts.nextC_nextC' _ hcj] at eh1
  rw [hr, Eb.prevC_nextC _ hcj] at eh2
  have hBinv : t.opp[Eb.prevC P[j]!]! ≠ inv := by
    rw [← hphiB]; have := hC.phi_inv (d := Eb.nextC l) (by omega); omega
  obtain ⟨_, eh4⟩ := hC.hedge hplt hBinv
  rw [EncCounts.prevC_prevC' _ hcj] at eh4
  refine ⟨?_, ⟨?_, ?_, ?_, ?_, ?_, ?_⟩, ?_⟩
  · refine OInv.step hC hI.o hj _ _ (by show (glue (glue _ _ _) _ _).size = _; rw [glue_size, glue_size]) g1 ?_ ?_ g4 ?_
    · intro a h1 h2 hne
      rcases g2 a h1 h2 hne with rfl | rfl
      · rw [gA]; exact ⟨by omega, by rw [phi_0, phi_1, hr], oA'⟩
      · rw [gB]; exact ⟨hnl, by rw [phi_2, hphiB], oB'⟩
    · intro a h1 h2 hgi
      rcases hnew a h1 h2 with rfl | rfl | rfl
      · rw [phi_0]; exact hg
      · rw [gA] at hgi; omega
      · rw [gB] at hgi; omega
    · intro d h1 h2
      rw [ho', if_neg (by omega), if_neg (by omega), if_neg (by omega), if_neg (by omega)]
      exact hI.o.o3 d (by omega) h2
  · show (((s.c2v.set! _ _).set! _ _).set! _ _).size = _
    rw [size_set, size_set, size_set]; exact hcs
  · have := hI.v.vsz
    rw [hvs]; omega
  · intro d hd
    rw [hc', hvs]
    split
    · exact hvR
    · split
      · exact hI.v.vlt _ hnnl
      · split
        · exact hI.v.vlt _ (by omega)
        · exact hI.v.vlt d (by omega)
  · refine hedge_step hC hI.o hI.v hj _ _ _ g1 ?_ g4 hold ?_
    · intro a h1 h2 hne
      rcases g2 a h1 h2 hne with rfl | rfl
      · rw [gA]; exact ⟨by omega, oA'⟩
      · rw [gB]; exact ⟨hnl, oB'⟩
    · intro a h1 h2 hne
      rcases g2 a h1 h2 hne with rfl | rfl
      · rw [gA, hnA, hpA, nx1 _ (by omega), pv1 _ (by omega), hold (3 * (j - 1) + 1) (by omega),
          hold (3 * (j - 1) + 2) (by omega), hc' (3 * j), hc' (3 * j + 2), if_neg (by omega), if_neg (by omega), if_pos rfl, if_pos rfl]
        exact ⟨rfl, rfl⟩
      · rw [gB, Eb.prevC_nextC _ (by omega), nx2 _ (by omega), pv2 _ (by omega), hold _ hnnl, hold l hl,
          hc' (3 * j + 1), hc' (3 * j), if_neg (by omega), if_pos rfl, if_neg (by omega), if_neg (by omega), if_pos rfl]
        exact ⟨rfl, hvl⟩
  · intro d hd hne
    by_cases hdn : 3 * j ≤ d
    · rcases hnew d hdn (by omega) with rfl | rfl | rfl
      · rw [nx0 _ (by omega), g1 _ (by omega) (by omega), gA] at hne; omega
      · rw [nx1 _ (by omega), g1 _ (by omega) (by omega), gB] at hne; omega
      · rw [hc', if_pos rfl, hv', if_pos rfl]
    · have hnd := EncCounts.nextC_lt3 (by omega : d < 3 * j) i3
      rw [ho', if_neg (by omega)] at hne
      by_cases e1 : Eb.nextC d = Eb.nextC l
      · rw [if_pos e1] at hne; omega
      · rw [if_neg e1, if_neg (by omega)] at hne
        by_cases e : Eb.nextC d = 3 * (j - 1)
        · rw [if_pos e] at hne; omega
        · rw [if_neg e] at hne
          have k1 := hI.v.lm d (by omega) hne
          rw [hold d (by omega), hv']
          by_cases e2 : s.c2v[d]! = s.c2v[3 * (j - 1) + 2]!
          · exfalso
            have k2 := hI.v.lm (3 * (j - 1) + 2) (by omega) (by rw [nx2 _ (by omega)]; exact hoA)
            rw [← e2, k1] at k2
            rw [k2, nx2 _ (by omega)] at e
            exact e rfl
          · rw [if_neg e2]
            exact k1
  · refine fine_step hI.v _ hold ?_
    intro a h1 h2
    right
    rcases hnew a h1 h2 with rfl | rfl | rfl
    · refine ⟨3 * (j - 1) + 1, by omega, by rw [hc', if_neg (by omega), if_neg (by omega), if_pos rfl], ?_⟩
      rw [phi_0, phi_1, eh2]
    · refine ⟨Eb.nextC (Eb.nextC l), hnnl, by rw [hc', if_neg (by omega), if_pos rfl], ?_⟩
      rw [phi_1, phi_nextC P (Eb.nextC l) (by omega) (hC.p_inv (by omega)), hphiB, eh4]
    · refine ⟨3 * (j - 1) + 2, by omega, by rw [hc', if_pos rfl], ?_⟩
      rw [phi_2, phi_2, eh1]
  · intro _
    show 0 < (s.stack.set! (s.stack.size - 1) (3 * j)).size ∧ (s.stack.set! (s.stack.size - 1) (3 * j)).back! = _
    rw [back!_set _ _ hs0, size_set]
    exact ⟨hs0, by simp⟩

/-! ## the pure simulation -/

/-- **one symbol preserves the invariant** (M2 + M3) -/
theorem inv_step {t : CT} {P : Array Nat} {syms : List Nat} (hT : TblOK t) (hTr : Trace t P syms) {j : Nat} {s : DS}
    (hI : Inv t P j s) (hj : j < P.size) : Inv t P (j + 1) (step syms[j]! j s) := by
  have hC := hTr.ctx hT
  have hinv := hC.fits'
  obtain ⟨_, hg, _, hE, hR, hL, hCc, hsym⟩ := hTr.face j hj
  have hgp : 0 < j → Later P (j - 1) t.opp[P[j - 1]!]! := fun h0 => (hTr.face (j - 1) (by omega)).2.1
  unfold step
  by_cases h7 : syms[j]! = 7
  · rw [if_pos h7]
    obtain ⟨a, b⟩ := hE h7
    exact inv_stepE hC hI hj hg a b
  · rw [if_neg h7]
    by_cases h5 : syms[j]! = 5
    · rw [if_pos h5, stepR_eq]
      obtain ⟨h0, a, b⟩ := hR h5
      refine inv_stepQ hC hI hj h0 (hgp h0) _ _ _ (by omega) ⟨nx2 _ (by omega), pv2 _ (by omega), nx0 _ (by omega), nx1 _ (by omega)⟩
        (by rw [phi_2]; exact b) (by rw [phi_0]; exact hg) (by rw [phi_1]; exact a)
    · rw [if_neg h5]
      by_cases h3 : syms[j]! = 3
      · rw [if_pos h3, stepL_eq]
        obtain ⟨h0, a, b⟩ := hL h3
        refine inv_stepQ hC hI hj h0 (hgp h0) _ _ _ (by omega) ⟨nx1 _ (by omega), pv1 _ (by omega), nx2 _ (by omega), nx0 _ (by omega)⟩
          (by rw [phi_1]; exact a) (by rw [phi_2]; exact b) (by rw [phi_0]; exact hg)
      · rw [if_neg h3]
        have h0' : syms[j]! = 0 := by omega
        obtain ⟨h0, a, m, _, hm, hcl, hEar⟩ := hCc h0'
        obtain ⟨l, hF⟩ := hI.cfacts hC hj h0 (hgp h0) a m hm hcl hEar
        exact inv_stepC hC hI hj h0 hg a hF

/-- the decoder's tables after `j` symbols -/
def St (syms : List Nat) (n maxV : Nat) : Nat → DS
  | 0 => DS.init n maxV
  | j+1 => step syms[j]! j (St syms n maxV j)

/-- **the pure simulation theorem**: the invariant holds along the whole run -/
theorem inv_St {t : CT} {P : Array Nat} {syms : List Nat} (hT : TblOK t) (hTr : Trace t P syms) (maxV : Nat) :
    ∀ j, j ≤ P.size → Inv t P j (St syms P.size maxV j)
  | 0, _ => Inv.init t P maxV
  | j+1, h => inv_step hT hTr (inv_St hT hTr maxV j (by omega)) (by omega)

/-! ## M6 (pure): from the invariant at the end to `CTIso` -/

/-- the left neighbour of a `C` face lies in the face of the last corner of the tip fan -/
theorem fan_left {t : CT} {P : Array Nat} (hC : Ctx t P) {j : Nat} (hj : j < P.size) (m : Nat) (hm : 2 ≤ m)
    (hcl : sLk t m P[j]! = P[j]!) (hE : ∀ k, k < m → 0 < k → Earlier P j (sLk t k P[j]!)) :
    ∃ i, i < j ∧ t.opp[Eb.prevC P[j]!]! / 3 = P[i]! / 3 := by
  have hnc := hC.nc_le
  have hb := hC.tbl.base
  have h3 : t.numCorners = 3 * t.numFaces := hC.tbl.ctok.three
  obtain ⟨hne, i, hi, hf⟩ := hE (m - 1) (by omega) (by omega)
  have hx : sLk t m P[j]! = Eb.nextC (t.opp[Eb.nextC (sLk t (m - 1) P[j]!)]!) := by
    have e : m = (m - 1) + 1 := by omega
    rw [e]; rfl
  rw [hx] at hcl
  have hpi := hC.plt i (by omega)
  have hxlt : sLk t (m - 1) P[j]! < t.numCorners := by omega
  have hnlt := AttViews.nextC_ltN hb.n3 hxlt
  have hcj := hC.p_inv hj
  have hene : t.opp[Eb.nextC (sLk t (m - 1) P[j]!)]! ≠ inv := by
    intro e; rw [e, AttViews.nextC_inv] at hcl; omega
  obtain ⟨helt, hback⟩ := hC.invol hnlt hene
  have he : t.opp[Eb.nextC (sLk t (m - 1) P[j]!)]! = Eb.prevC P[j]! := by
    have := Eb.prevC_nextC _ (by omega : t.opp[Eb.nextC (sLk t (m - 1) P[j]!)]! < inv)
    rw [hcl] at this
    exact this.symm
  refine ⟨i, hi, ?_⟩
  rw [← he, hback, nextC_div3 _ (by omega), hf]

/-- every neighbour of a processed face is processed -/
theorem Trace.closed {t : CT} {P : Array Nat} {syms : List Nat} (hT : TblOK t) (hTr : Trace t P syms) :
    ∀ d, d < 3 * P.size → t.opp[phi P d]! ≠ inv → ∃ i, i < P.size ∧ t.opp[phi P d]! / 3 = P[i]! / 3 := by
  have hC := hTr.ctx hT
  intro d hd hne
  have hj : d / 3 < P.size := by omega
  obtain ⟨_, hg, _, hE, hR, hL, hCc, hsym⟩ := hTr.face (d / 3) hj
  have ofLater : ∀ e, e ≠ inv → Later P (d / 3) e → ∃ i, i < P.size ∧ e / 3 = P[i]! / 3 := by
    intro e he h
    rcases h with h | ⟨i, hi, _, hf⟩
    · exact absurd h he
    · exact ⟨i, hi, hf⟩
  have ofPrev : ∀ e, 0 < d / 3 → e = P[d / 3 - 1]! → ∃ i, i < P.size ∧ e / 3 = P[i]! / 3 :=
    fun e h0 h => ⟨d / 3 - 1, by omega, by rw [h]⟩
  have e : d = 3 * (d / 3) + d % 3 := by omega
  have h3 : d % 3 = 0 ∨ d % 3 = 1 ∨ d % 3 = 2 := by omega
  rcases h3 with h | h | h
  · rw [e, h, Nat.add_zero, phi_0] at hne ⊢
    exact ofLater _ hne hg
  · rw [e, h, phi_1] at hne ⊢
    rcases hsym with h7 | h5 | h3 | h0
    · exact ofLater _ hne (hE h7).1
    · exact ofLater _ hne (hR h5).2.1
    · exact ofPrev _ (hL h3).1 (hL h3).2.1
    · exact ofPrev _ (hCc h0).1 (hCc h0).2.1
  · rw [e, h, phi_2] at hne ⊢
    rcases hsym with h7 | h5 | h3 | h0
    · exact ofLater _ hne (hE h7).2
    · exact ofPrev _ (hR h5).1 (hR h5).2.2
    · exact ofLater _ hne (hL h3).2.2
    · obtain ⟨_, _, m, _, hm, hcl, hEar⟩ := hCc h0
      obtain ⟨i, hi, hf⟩ := fan_left hC hj m hm hcl hEar
      exact ⟨i, by omega, hf⟩

/-- at the end the decoder's vertex is constant along the encoder's `SwingRight` walks -/
theorem Inv.sR_const {t : CT} {P : Array Nat} (hC : Ctx t P) {s : DS} (hI : Inv t P P.size s)
    (hcl : ∀ d, d < 3 * P.size → t.opp[phi P d]! ≠ inv → ∃ i, i < P.size ∧ t.opp[phi P d]! / 3 = P[i]! / 3) :
    ∀ k d d', d < 3 * P.size → d' < 3 * P.size → iter (AttViews.sRP t.opp) k (phi P d) = phi P d' → s.c2v[d]! = s.c2v[d']! := by
  have hinv := hC.fits'
  have hnc := hC.nc_le
  intro k
  induction k with
  | zero =>
    intro d d' hd hd' e
    rw [hC.phi_inj hd hd' e]
  | succ k ih =>
    intro d d' hd hd' e
    have e' : iter (AttViews.sRP t.opp) k (AttViews.sRP t.opp (phi P d)) = phi P d' := e
    have hpd := hC.phi_inv hd
    rw [Coverage.sRP_eq _ (by omega)] at e'
    have hpp : phi P (Eb.prevC d) = Eb.prevC (phi P d) := phi_prevC P d (by omega) (hC.p_inv (by omega))
    have hpdlt : Eb.prevC d < 3 * P.size := EncCounts.prevC_lt3 hd hinv
    by_cases hne : t.opp[Eb.prevC (phi P d)]! = inv
    · rw [hne, AttViews.prevC_inv, AttViews.iter_fix (AttViews.sRP_inv _)] at e'
      have := hC.phi_inv hd'
      omega
    · rw [← hpp] at hne e'
      obtain ⟨i, hi, hf⟩ := hcl _ hpdlt hne
      have helt := (hC.invol (hC.phi_lt hpdlt) hne).1
      obtain ⟨de, hdei, hdephi⟩ := hC.exists_phi (by omega : t.opp[phi P (Eb.prevC d)]! < inv) hi hf
      have hde : de < 3 * P.size := by omega
      have hopp : s.opp[Eb.prevC d]! = de := hI.o.o2 _ _ hpdlt hde hdephi.symm
      obtain ⟨_, e2⟩ := hI.v.hedge (Eb.prevC d) hpdlt (by rw [hopp]; omega)
      rw [hopp, Eb.nextC_prevC _ (by omega)] at e2
      have hpde : Eb.prevC de < 3 * P.size := EncCounts.prevC_lt3 hde hinv
      have := ih (Eb.prevC de) d' hpde hd' (by
        rw [phi_prevC P de (by omega) (hC.p_inv (by omega)), hdephi]; exact e')
      rw [← e2, this]

/-- **M6**: the invariant after all symbols gives the isomorphism `CTIso`.  `hcov` = the encoder's vertices are swing
    classes (`AttViews.cover_enc_of_create` for tables made by `CornerTable.create`), `hvlt` = its vertex ids are in
    range. -/
theorem ctIso_of_inv {t : CT} {P : Array Nat} {syms : List Nat} (hT : TblOK t) (hTr : Trace t P syms) {s : DS}
    (hI : Inv t P P.size s)
    (hcov : ∀ d, d < 3 * P.size → ∃ k, iter (AttViews.sRP t.opp) k t.vc[t.c2v[phi P d]!]! = phi P d)
    (hvlt : ∀ d, d < 3 * P.size → t.c2v[phi P d]! < t.numVertices) : CTIso t P P.size s.c2v s.opp := by
  have hC := hTr.ctx hT
  have hinv := hC.fits'
  have hcl := hTr.closed hT
  refine ⟨rfl, ⟨hI.v.csize, hI.o.size⟩, fun d hd => hC.phi_lt hd, fun d d' hd hd' e => hC.phi_inj hd hd' e, ?_,
    fun d hd hne => hI.o.o1 d hd hne, hvlt, ?_⟩
  · intro d hd
    constructor
    · intro h
      apply Classical.byContradiction
      intro hne
      obtain ⟨i, hi, hf⟩ := hcl d hd hne
      have helt := (hC.invol (hC.phi_lt hd) hne).1
      have := hC.nc_le
      obtain ⟨de, hdei, hdephi⟩ := hC.exists_phi (by omega : t.opp[phi P d]! < inv) hi hf
      have := hI.o.o2 d de hd (by omega) hdephi.symm
      omega
    · intro h
      exact hI.o.inv_of_later hC (Nat.le_refl _) hd (Or.inl h)
  · intro d d' hd hd'
    constructor
    · exact hI.v.fine d d' hd hd'
    · intro e
      obtain ⟨k, hk⟩ := hcov d hd
      obtain ⟨k', hk'⟩ := hcov d' hd'
      rw [← e] at hk'
      by_cases hkk : k ≤ k'
      · refine hI.sR_const hC hcl (k' - k) d d' hd hd' ?_
        rw [← hk, ← iter_add, show k + (k' - k) = k' by omega, hk']
      · refine (hI.sR_const hC hcl (k - k') d' d hd' hd ?_).symm
        rw [← hk', ← iter_add, show k' + (k - k') = k by omega, hk]

/-- **the pure decoder half**: the tables computed by the pure steps from the symbols of an encoder trace are isomorphic
    to the encoder's table -/
theorem ctIso_St {t : CT} {P : Array Nat} {syms : List Nat} (hT : TblOK t) (hTr : Trace t P syms) (maxV : Nat)
    (hcov : ∀ d, d < 3 * P.size → ∃ k, iter (AttViews.sRP t.opp) k t.vc[t.c2v[phi P d]!]! = phi P d)
    (hvlt : ∀ d, d < 3 * P.size → t.c2v[phi P d]! < t.numVertices) :
    CTIso t P P.size (St syms P.size maxV P.size).c2v (St syms P.size maxV P.size).opp :=
  ctIso_of_inv hT hTr (inv_St hT hTr maxV P.size (Nat.le_refl _)) hcov hvlt

/-! ## the decoder's failure checks pass (the pure content of M4) -/

/-- the corners of a processed face carry three different encoder vertices -/
theorem Trace.nd_phi {t : CT} {P : Array Nat} {syms : List Nat} (hT : TblOK t) (hTr : Trace t P syms) :
    ∀ d, d < 3 * P.size → t.c2v[phi P d]! ≠ t.c2v[Eb.prevC (phi P d)]! ∧ t.c2v[Eb.nextC (phi P d)]! ≠ t.c2v[Eb.prevC (phi P d)]! := by
  have hC := hTr.ctx hT
  intro d hd
  have hj : d / 3 < P.size := by omega
  obtain ⟨_, _, ⟨n1, n2, n3⟩, _⟩ := hTr.face (d / 3) hj
  have hc := hC.p_inv hj
  have e : d = 3 * (d / 3) + d % 3 := by omega
  have h3 : d % 3 = 0 ∨ d % 3 = 1 ∨ d % 3 = 2 := by omega
  rcases h3 with h | h | h
  · rw [e, h, Nat.add_zero, phi_0]; exact ⟨n2, n3⟩
  · rw [e, h, phi_1, Eb.prevC_nextC _ hc, EncCounts.nextC_nextC' _ hc]; exact ⟨fun e => n1 e.symm, fun e => n2 e.symm⟩
  · rw [e, h, phi_2, EncCounts.prevC_prevC' _ hc, Eb.nextC_prevC _ hc]; exact ⟨fun e => n3 e.symm, n1⟩

/-- **the checks of `TOPOLOGY_C`**: the stack is not empty, `corner_a ≠ corner_b`, both are boundary corners of the
    partial table, and the tip vertex differs from the two other vertices of the new face; all indices are in range -/
theorem guards_C {t : CT} {P : Array Nat} {syms : List Nat} (hT : TblOK t) (hTr : Trace t P syms) {j : Nat} {s : DS}
    (hI : Inv t P j s) (hj : j < P.size) (h0 : syms[j]! = 0) :
    0 < s.stack.size ∧ s.stack.back! = 3 * (j - 1) ∧ 0 < j ∧ cornerB s < 3 * j ∧ s.stack.back! ≠ cornerB s ∧
    s.opp[s.stack.back!]! = inv ∧ s.opp[cornerB s]! = inv ∧
    s.c2v[Eb.nextC s.stack.back!]! < s.vc.size ∧
    s.c2v[Eb.nextC s.stack.back!]! ≠ s.c2v[Eb.prevC s.stack.back!]! ∧
    s.c2v[Eb.nextC s.stack.back!]! ≠ s.c2v[Eb.nextC (cornerB s)]! := by
  have hC := hTr.ctx hT
  have hinv := hC.fits'
  obtain ⟨_, hg, _, _, _, _, hCc, _⟩ := hTr.face j hj
  obtain ⟨hj0, a, m, _, hm, hcl, hEar⟩ := hCc h0
  obtain ⟨l, hF⟩ := hI.cfacts hC hj hj0 (hTr.face (j - 1) (by omega)).2.1 a m hm hcl hEar
  obtain ⟨hs0, hA, hoA, hl, hB, hvl, hphiB, hoppB, hoB, hAB⟩ := hF
  have i3 : 3 * j ≤ inv := by omega
  have hnl : Eb.nextC l < 3 * j := EncCounts.nextC_lt3 hl i3
  have hnnl : Eb.nextC (Eb.nextC l) < 3 * j := EncCounts.nextC_lt3 hnl i3
  rw [hA, hB, nx0 _ (by omega), pv0 _ (by omega)]
  refine ⟨hs0, rfl, hj0, hnl, fun e => hAB e.symm, hoA, hoB, hI.v.vlt _ (by omega), ?_, ?_⟩
  · intro e
    have := hI.v.fine _ _ (by omega) (by omega) e
    rw [phi_1, phi_2] at this
    exact (hTr.face (j - 1) (by omega)).2.2.1.2.2 this
  · intro e
    rw [← hvl] at e
    have := hI.v.fine _ _ hl hnnl e
    have hli : l < inv := by omega
    rw [EncCounts.nextC_nextC' _ hli, phi_prevC P l hli (hC.p_inv (by omega))] at this
    exact (hTr.nd_phi hT l (by omega)).1 this

/-- **the checks of `TOPOLOGY_R` / `TOPOLOGY_L`** -/
theorem guards_RL {t : CT} {P : Array Nat} {syms : List Nat} (hT : TblOK t) (hTr : Trace t P syms) {j : Nat} {s : DS}
    (hI : Inv t P j s) (hj : j < P.size) (h : syms[j]! = 5 ∨ syms[j]! = 3) :
    0 < s.stack.size ∧ s.stack.back! = 3 * (j - 1) ∧ 0 < j ∧ s.opp[s.stack.back!]! = inv ∧
    s.c2v[Eb.prevC s.stack.back!]! < s.vc.size ∧ s.vc.size < inv := by
  have hC := hTr.ctx hT
  have hinv := hC.fits'
  obtain ⟨_, _, _, _, hR, hL, _, _⟩ := hTr.face j hj
  have hj0 : 0 < j := by
    rcases h with h | h
    · exact (hR h).1
    · exact (hL h).1
  obtain ⟨hs0, hA, hoA⟩ := hI.active hC hj hj0 (hTr.face (j - 1) (by omega)).2.1
  rw [hA, pv0 _ (by omega)]
  have := hI.v.vsz
  exact ⟨hs0, rfl, hj0, hoA, hI.v.vlt _ (by omega), by omega⟩

end Draco.EbEnc.DecSim
