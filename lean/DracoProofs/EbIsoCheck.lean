import DracoProofs.EbHyps
import DracoProofs.EbMDIso
/-
  Soundness of the executable isomorphism checks of DracoModel/EbEncHyps.lean: `tvIsoCheck` ⇒ `TVIso`,
  `mdIsoCheck` ⇒ `MDIso` (the vertex map is read off the candidate array `psi`; nothing is assumed about how
  `buildMaps` produced the candidates).
-/
namespace Draco.EbEnc
open Draco
open Draco.Eb hiding iabs nextC prevC

theorem phiOf_eq_phi : phiOf = phi := rfl
theorem extOf_eq_ext : extOf = ext := rfl

/-- soundness of the view check -/
theorem tvIsoCheck_sound (d e : TView) (φ : Nat → Nat) (psi back cback : Array Nat)
    (h : tvIsoCheck d e φ psi back cback = true) : TVIso d e φ (fun v => psi[v]!) := by
  unfold tvIsoCheck at h
  simp only [Bool.and_eq_true, decide_eq_true_eq, beq_iff_eq] at h
  obtain ⟨⟨⟨⟨⟨hatt, f1⟩, f2⟩, f3⟩, f4⟩, hall⟩ := h
  have hc : ∀ c, c < 3 * d.numFaces → _ := fun c hc => List.all_eq_true.mp hall c (List.mem_range.mpr hc)
  simp only [Bool.and_eq_true, decide_eq_true_eq, beq_iff_eq] at hc
  refine ⟨hatt, ⟨f1, f2, f3, f4⟩, fun c h => (hc c h).1.1.1.1, ?_, fun c h => (hc c h).1.1.2, ?_, ?_, ?_, ?_⟩
  · intro c c' h1 h2 heq
    have a := (hc c h1).1.1.1.2
    have b := (hc c' h2).1.1.1.2
    rw [heq] at a
    rw [← a, b]
  · intro c h1
    have := (hc c h1).1.2
    split at this
    · rename_i o ho
      simp only [Bool.and_eq_true, Bool.or_eq_true, decide_eq_true_eq, beq_iff_eq] at this
      exact ⟨o, ho, this.1, by rw [← extOf_eq_ext]; exact resEq_sound _ _ this.2⟩
    · cases this
  · intro c h1
    have := (hc c h1).2
    split at this
    · rename_i v hv
      simp only [Bool.and_eq_true, decide_eq_true_eq, beq_iff_eq] at this
      exact ⟨v, hv, this.1.1.1.1, resEq_sound _ _ this.1.1.1.2, this.1.1.2⟩
    · cases this
  · intro c c' v v' h1 h2 hv hv' heq
    have a := (hc c h1).2
    have b := (hc c' h2).2
    rw [hv] at a
    rw [hv'] at b
    simp only [Bool.and_eq_true, decide_eq_true_eq, beq_iff_eq] at a b
    have a' := a.1.2
    have b' := b.1.2
    have heq' : psi[v]! = psi[v']! := heq
    rw [heq'] at a'
    rw [← a', b']
  · intro c v h1 hv
    have a := (hc c h1).2
    rw [hv] at a
    simp only [Bool.and_eq_true, decide_eq_true_eq, beq_iff_eq] at a
    have := a.2
    split at this
    · rename_i b b' hb hb'
      have : b = b' := by simpa using this
      subst this
      exact ⟨b, hb, hb'⟩
    · cases this

/-- soundness of the mesh data check -/
theorem mdIsoCheck_sound (d e : MeshData) (φ : Nat → Nat) (psi back cback : Array Nat)
    (hv : tvIsoCheck d.t e.t φ psi back cback = true) (h : mdIsoCheck d e φ psi = true) :
    MDIso d e φ (fun v => psi[v]!) := by
  unfold mdIsoCheck at h
  simp only [Bool.and_eq_true, beq_iff_eq] at h
  obtain ⟨⟨hs, h1⟩, h2⟩ := h
  refine ⟨tvIsoCheck_sound _ _ _ _ _ _ hv, hs, ?_, ?_⟩
  · intro p hp
    have := List.all_eq_true.mp h1 p (List.mem_range.mpr hp)
    simp only [Bool.and_eq_true, decide_eq_true_eq, beq_iff_eq] at this
    have e1 : d.d2c[p]! = d.d2c[p] := by simp [hp]
    rw [e1] at this
    exact this
  · intro c v hc hvx
    have := List.all_eq_true.mp h2 c (List.mem_range.mpr hc)
    rw [hvx] at this
    simp only [Bool.and_eq_true, decide_eq_true_eq, beq_iff_eq] at this
    obtain ⟨⟨a1, a2⟩, a3⟩ := this
    refine ⟨d.v2d[v], fun site => ?_, fun site => ?_⟩
    · unfold rd; rw [dif_pos a1]; rfl
    · unfold rd; rw [dif_pos a2]
      have e1 : d.v2d[v]! = d.v2d[v] := by simp [a1]
      have e2 : e.v2d[psi[v]!]! = e.v2d[psi[v]!] := by simp [a2]
      rw [e1, e2] at a3
      rw [a3]; rfl

end Draco.EbEnc
