import DracoModel.SymbolCoding
import DracoProofs.TrailingBytes
/-
  C06 — bytes after the stream, entropy-coded sections (`DecodeSymbols`).

  * RAW scheme (`DecodeRawSymbols`: probability table + one size-prefixed rANS block): STABLE. The rANS
    decoder only looks at the `bytes_encoded` bytes announced by the varint in front of them (it reads
    them backwards from their end), and the two guards that consult `remaining_size()`
    (`num_symbols / 64 > remaining_size()` in `RAnsSymbolDecoder::Create`, `bytes_encoded >
    remaining_size()` in `StartDecoding`) are monotone: appended bytes can only turn a reject into an
    accept, never change an accepted result.
  * TAGGED scheme (`DecodeTaggedSymbols`): table and rANS block of the bit-length tags are stable in the same
    way, but the values are then read in BIT MODE from everything that follows
    (`StartBitDecoding(false, …)`; `BitDecoder::GetBit` returns 0 once `bit_buffer_ + byte_offset` reaches
    `bit_buffer_end_`). `getBits_append` states exactly when a bit read is unaffected by appended bytes:
    when the `n` bits lie inside the buffer (`n + sh ≤ 8 * cur.length`); `getBits_past_end_not_stable` is
    the witness that it is affected otherwise. Consequently `DecodeSymbols` is not stable for ARBITRARY
    byte strings: `00 02 03 01 40 01 00` (the tagged encoding of the single symbol 1 without its last
    byte) is accepted as `[0]`, consuming 7 bytes, and with `01` appended as `[1]` — real decoder and model
    agree (`syms_dec 1 1 00020301400100` / `…0001`). For streams produced by the encoder every bit read
    lies inside the stream; that is the content of C08 `symbols_roundtrip` / C01 `seq_roundtrip`, which are
    stated in `++ rest` form.
-/
namespace Draco
open DecM

theorem consumedOf_append (bs rest extra : Bytes) :
    consumedOf (bs ++ extra) (rest ++ extra) = consumedOf bs rest := by
  unfold consumedOf
  have : (bs ++ extra).length - (rest ++ extra).length = bs.length - rest.length := by
    simp only [List.length_append]; omega
  rw [this]
  exact List.take_append_of_le_length (by omega)

/-! ### probability table -/

theorem rdStable_decTableGo : ∀ fuel remaining acc, RdStable (decTableGo fuel remaining acc)
  | 0, _, _ => by
    intro bs a rest extra h
    simp only [decTableGo, Option.some.injEq, Prod.mk.injEq] at h ⊢
    exact ⟨h.1, by rw [← h.2]⟩
  | fuel+1, remaining, acc => by
    intro bs a rest extra h
    unfold decTableGo at h ⊢
    by_cases hr : remaining = 0
    · simp only [hr, if_true, Option.some.injEq, Prod.mk.injEq] at h ⊢
      exact ⟨h.1, by rw [← h.2]⟩
    · simp only [hr, if_false] at h ⊢
      cases bs with
      | nil => simp at h
      | cons b bs1 =>
        simp only [List.cons_append] at h ⊢
        by_cases t3 : b % 4 = 3
        · simp only [t3, if_true] at h ⊢
          by_cases ho : b / 4 ≥ remaining
          · simp [ho] at h
          · simp only [ho, if_false] at h ⊢
            exact rdStable_decTableGo fuel _ _ bs1 a rest extra h
        · simp only [t3, if_false] at h ⊢
          by_cases t0 : b % 4 = 0
          · simp only [t0, if_true] at h ⊢
            exact rdStable_decTableGo fuel _ _ bs1 a rest extra h
          · simp only [t0, if_false] at h ⊢
            by_cases t1 : b % 4 = 1
            · simp only [t1, if_true] at h ⊢
              cases bs1 with
              | nil => simp at h
              | cons e0 bs2 =>
                simp only [List.cons_append] at h ⊢
                exact rdStable_decTableGo fuel _ _ bs2 a rest extra h
            · simp only [t1, if_false] at h ⊢
              match bs1, h with
              | [], h => simp at h
              | [_], h => simp at h
              | e0 :: e1 :: bs3, h =>
                simp only [List.cons_append] at h ⊢
                exact rdStable_decTableGo fuel _ _ bs3 a rest extra h

/-- `RAnsSymbolDecoder::Create`, table part: the plausibility test `num_symbols / 64 > remaining_size()` is
    monotone (this is the guard the seeded change C06-1 turned into `/ 63`, making a VALID stream depend on
    what follows it) -/
theorem rdStable_decodeTable : RdStable decodeTable := by
  intro bs a rest extra h
  unfold decodeTable at h ⊢
  cases hv : decVarint 32 bs with
  | none => simp [hv] at h
  | some p =>
    obtain ⟨n, r1⟩ := p
    rw [hv] at h
    rw [rdStable_decVarint 32 bs n r1 extra hv]
    simp only at h ⊢
    by_cases hg : n / 64 > r1.length
    · simp [hg] at h
    · have hg' : ¬ n / 64 > (r1 ++ extra).length := by simp only [List.length_append]; omega
      simp only [hg, hg', if_false] at h ⊢
      exact rdStable_decTableGo n n [] r1 a rest extra h

theorem rdStable_ransSymbolDecoderCreate (pb : Nat) : RdStable (ransSymbolDecoderCreate pb) := by
  intro bs a rest extra h
  unfold ransSymbolDecoderCreate at h ⊢
  cases ht : decodeTable bs with
  | none => simp [ht] at h
  | some p =>
    obtain ⟨probs, r1⟩ := p
    rw [ht] at h
    rw [rdStable_decodeTable bs probs r1 extra ht]
    simp only at h ⊢
    by_cases he : probs.isEmpty = true
    · simp only [he, if_true, Option.some.injEq, Prod.mk.injEq] at h ⊢
      exact ⟨h.1, by rw [← h.2]⟩
    · simp only [he] at h ⊢
      cases hl : ransBuildLookup pb probs with
      | none => simp [hl] at h
      | some t =>
        simp only [hl, Bool.false_eq_true, if_false, Option.some.injEq, Prod.mk.injEq] at h ⊢
        exact ⟨h.1, by rw [← h.2]⟩

/-! ### size-prefixed rANS block -/

/-- `RAnsSymbolDecoder::StartDecoding`: the decoder is initialised from the `len` announced bytes only; the
    guard `len > remaining_size()` is monotone -/
theorem rdStable_ransStartDecoding (pb : Nat) (before : Bytes) : RdStable (ransStartDecoding pb before) := by
  intro bs a rest extra h
  unfold ransStartDecoding at h ⊢
  cases hv : decVarint 64 bs with
  | none => simp [hv] at h
  | some p =>
    obtain ⟨len, r1⟩ := p
    rw [hv] at h
    rw [rdStable_decVarint 64 bs len r1 extra hv]
    simp only at h ⊢
    by_cases hg : len > r1.length
    · simp [hg] at h
    · have hg' : ¬ len > (r1 ++ extra).length := by simp only [List.length_append]; omega
      have hle : len ≤ r1.length := by omega
      simp only [hg, hg', if_false, consumedOf_append, List.take_append_of_le_length hle,
        List.drop_append_of_le_length hle] at h ⊢
      cases hi : ransReadInit pb (before ++ consumedOf bs r1) (List.take len r1) with
      | none => simp [hi] at h
      | some st =>
        simp only [hi, Option.some.injEq, Prod.mk.injEq] at h ⊢
        exact ⟨h.1, by rw [← h.2]⟩

theorem rdStable_decodeRans (pb : Nat) (t : RansDecTable) (before : Bytes) (n : Nat) :
    RdStable (decodeRans pb t before n) := by
  intro bs a rest extra h
  unfold decodeRans at h ⊢
  cases hs : ransStartDecoding pb before bs with
  | none => simp [hs] at h
  | some p =>
    obtain ⟨st, r1⟩ := p
    rw [hs] at h
    rw [rdStable_ransStartDecoding pb before bs st r1 extra hs]
    simp only [Option.some.injEq, Prod.mk.injEq] at h ⊢
    exact ⟨h.1, by rw [← h.2]⟩

/-! ### the raw scheme is stable -/

theorem rdStable_decodeRawSymbolsInternal (before : Bytes) (bitLen n : Nat) :
    RdStable (decodeRawSymbolsInternal before bitLen n) := by
  intro bs a rest extra h
  unfold decodeRawSymbolsInternal at h ⊢
  simp only at h ⊢
  cases hc : ransSymbolDecoderCreate (ransPrecisionBits bitLen) bs with
  | none => simp [hc] at h
  | some p =>
    obtain ⟨t, r1⟩ := p
    rw [hc] at h
    rw [rdStable_ransSymbolDecoderCreate _ bs t r1 extra hc]
    simp only [consumedOf_append] at h ⊢
    by_cases hz : t.probs.size = 0
    · simp [hz] at h
    · simp only [hz, if_false] at h ⊢
      exact rdStable_decodeRans _ t _ n r1 a rest extra h

/-- `DecodeRawSymbols` -/
theorem rdStable_decodeRawSymbols (before : Bytes) (n : Nat) : RdStable (decodeRawSymbols before n) := by
  intro bs a rest extra h
  unfold decodeRawSymbols at h ⊢
  cases bs with
  | nil => simp at h
  | cons b r =>
    simp only [List.cons_append] at h ⊢
    by_cases hb : 1 ≤ b ∧ b ≤ 18
    · simp only [hb, and_self, if_true] at h ⊢
      exact rdStable_decodeRawSymbolsInternal _ b n r a rest extra h
    · simp [hb] at h

/-- `DecodeSymbols` on a RAW-coded section (scheme byte 1) or for `num_values = 0`: an accepted decode is
    unaffected by appended bytes, which stay unread. (Not so for the TAGGED scheme, see below.) -/
theorem decodeSymbols_raw_stable (numValues numComponents : Nat) (bs vals rest extra : Bytes)
    (hraw : numValues = 0 ∨ bs.head? = some 1)
    (h : decodeSymbols numValues numComponents bs = some (vals, rest)) :
    decodeSymbols numValues numComponents (bs ++ extra) = some (vals, rest ++ extra) := by
  unfold decodeSymbols at h ⊢
  by_cases h0 : numValues = 0
  · simp only [h0, if_true, Option.some.injEq, Prod.mk.injEq] at h ⊢
    exact ⟨h.1, by rw [← h.2]⟩
  · simp only [h0, if_false] at h ⊢
    cases bs with
    | nil => simp at h
    | cons s r =>
      have hs : s = 1 := by
        rcases hraw with hr | hr
        · exact absurd hr h0
        · simpa using hr
      subst hs
      simp only [List.cons_append, Nat.one_ne_zero, if_false, if_true] at h ⊢
      exact rdStable_decodeRawSymbols _ numValues r vals rest extra h

/-! ### bit mode: where stability ends -/

/-- the reader over the same data followed by `extra` -/
def BitReader.app (r : BitReader) (extra : Bytes) : BitReader := ⟨r.cur ++ extra, r.sh, r.decoded⟩

/-- `GetBit` inside the buffer is unaffected by appended bytes -/
theorem getBit_append (r : BitReader) (extra : Bytes) (h : r.cur ≠ []) :
    (r.app extra).getBit = (r.getBit.1, r.getBit.2.app extra) := by
  obtain ⟨cur, sh, d⟩ := r
  cases cur with
  | nil => exact absurd rfl h
  | cons b rest =>
    simp only [BitReader.app, BitReader.getBit, List.cons_append]
    by_cases hs : sh + 1 = 8 <;> simp [hs]

/-- bits available in front of the end of the buffer (for a reader whose bit offset is inside a byte) -/
def BitReader.avail (r : BitReader) : Nat := 8 * r.cur.length - r.sh

theorem getBit_avail (r : BitReader) (hsh : r.sh < 8) (h : 1 ≤ r.avail) :
    r.getBit.2.sh < 8 ∧ r.getBit.2.avail = r.avail - 1 ∧ r.getBit.2.decoded = r.decoded + 1 := by
  obtain ⟨cur, sh, d⟩ := r
  cases cur with
  | nil => simp [BitReader.avail] at h
  | cons b rest =>
    simp only [BitReader.getBit, BitReader.avail, List.length_cons] at hsh h ⊢
    by_cases hs : sh + 1 = 8
    · simp only [hs, if_true]
      exact ⟨by omega, by omega, trivial⟩
    · simp only [hs, if_false, List.length_cons]
      exact ⟨by omega, by omega, trivial⟩

/-- **`GetBits(n)` whose `n` bits lie inside the buffer is unaffected by appended bytes** -/
theorem getBitsAux_append (extra : Bytes) : ∀ (n i acc : Nat) (r : BitReader), r.sh < 8 → n ≤ r.avail →
    BitReader.getBitsAux n i acc (r.app extra) =
      ((BitReader.getBitsAux n i acc r).1, (BitReader.getBitsAux n i acc r).2.app extra)
  | 0, _, _, _, _, _ => rfl
  | n+1, i, acc, r, hsh, hav => by
    have hne : r.cur ≠ [] := by
      intro he
      simp [BitReader.avail, he] at hav
    have ha := getBit_avail r hsh (by omega)
    simp only [BitReader.getBitsAux, getBit_append r extra hne]
    exact getBitsAux_append extra n (i + 1) _ r.getBit.2 ha.1 (by omega)

theorem getBits_append (r : BitReader) (n : Nat) (extra : Bytes) (v : Nat) (r' : BitReader)
    (hsh : r.sh < 8) (hav : n ≤ r.avail) (h : r.getBits n = some (v, r')) :
    (r.app extra).getBits n = some (v, r'.app extra) := by
  unfold BitReader.getBits at h ⊢
  by_cases hn : n > 32
  · simp [hn] at h
  · simp only [hn, if_false, Option.some.injEq] at h ⊢
    rw [getBitsAux_append extra n 0 0 r hsh hav, h]

/-- … and past the end it is not: the missing bits read as 0, appended bytes supply them -/
theorem getBits_past_end_not_stable :
    (BitReader.start []).getBits 1 = some (0, BitReader.start []) ∧
    ((BitReader.start []).app [1]).getBits 1 = some (1, ⟨[1], 1, 1⟩) := ⟨rfl, rfl⟩

/-! ### the tagged scheme is stable exactly as long as its bit reads stay inside the buffer -/

theorem getBitsAux_avail : ∀ (n i acc : Nat) (r : BitReader), r.sh < 8 → n ≤ r.avail →
    (BitReader.getBitsAux n i acc r).2.sh < 8 ∧ (BitReader.getBitsAux n i acc r).2.avail = r.avail - n ∧
    (BitReader.getBitsAux n i acc r).2.decoded = r.decoded + n
  | 0, _, _, r, hsh, _ => ⟨hsh, rfl, rfl⟩
  | n+1, i, acc, r, hsh, hav => by
    have ha := getBit_avail r hsh (by omega)
    simp only [BitReader.getBitsAux]
    have := getBitsAux_avail n (i + 1) (acc + r.getBit.1 * 2 ^ i) r.getBit.2 ha.1 (by omega)
    exact ⟨this.1, by rw [this.2.1, ha.2.1]; omega, by rw [this.2.2, ha.2.2]; omega⟩

/-- `num_components` × `DecodeLeastSignificantBits32(bit_length)` inside the buffer -/
theorem readTaggedValues_append (bitLen : Nat) (extra : Bytes) : ∀ (c : Nat) (r : BitReader) (acc : List Nat),
    r.sh < 8 → c * bitLen ≤ r.avail →
    readTaggedValues bitLen c (r.app extra) acc =
      (readTaggedValues bitLen c r acc).map (fun p => (p.1, p.2.app extra)) ∧
    ∀ vals r', readTaggedValues bitLen c r acc = some (vals, r') →
      r'.sh < 8 ∧ r'.avail = r.avail - c * bitLen ∧ r'.decoded = r.decoded + c * bitLen
  | 0, r, acc, hsh, _ => by
    simp only [readTaggedValues, Option.map_some, Option.some.injEq, Prod.mk.injEq, true_and]
    intro vals r' h
    rw [← h.2]
    exact ⟨hsh, by simp, by simp⟩
  | c+1, r, acc, hsh, hav => by
    have hb : bitLen ≤ r.avail := by
      have : bitLen ≤ (c + 1) * bitLen := by rw [Nat.succ_mul]; omega
      omega
    simp only [readTaggedValues]
    cases hg : r.getBits bitLen with
    | none =>
      have : (r.app extra).getBits bitLen = none := by
        unfold BitReader.getBits at hg ⊢
        by_cases hn : bitLen > 32
        · simp [hn]
        · simp [hn] at hg
      simp [this]
    | some p =>
      obtain ⟨v, r1⟩ := p
      rw [getBits_append r bitLen extra v r1 hsh hb hg]
      have hr1 : r1.sh < 8 ∧ r1.avail = r.avail - bitLen ∧ r1.decoded = r.decoded + bitLen := by
        unfold BitReader.getBits at hg
        by_cases hn : bitLen > 32
        · simp [hn] at hg
        · simp only [hn, if_false, Option.some.injEq] at hg
          have := getBitsAux_avail bitLen 0 0 r hsh hb
          rw [hg] at this
          exact this
      have hmul : (c + 1) * bitLen = c * bitLen + bitLen := Nat.succ_mul c bitLen
      have hc : c * bitLen ≤ r1.avail := by
        rw [hr1.2.1]
        omega
      have ih := readTaggedValues_append bitLen extra c r1 (v :: acc) hr1.1 hc
      refine ⟨ih.1, ?_⟩
      intro vals r' h
      have := ih.2 vals r' h
      refine ⟨this.1, ?_, ?_⟩
      · rw [this.2.1, hr1.2.1]; omega
      · rw [this.2.2, hr1.2.2]; omega

/-- number of value bits `DecodeTaggedSymbols` reads in bit mode: `num_components * tag` per group, the tags
    being the rANS-decoded bit lengths (independent of the bit reader) -/
def taggedValueBits (pb : Nat) (t : RansDecTable) (comps : Nat) : Nat → RansSt → Nat
  | 0, _ => 0
  | g+1, st => let d := ransRead pb t st; comps * d.1 + taggedValueBits pb t comps g d.2

theorem decodeTaggedLoop_append (pb : Nat) (t : RansDecTable) (comps : Nat) (extra : Bytes) :
    ∀ (g : Nat) (st : RansSt) (r : BitReader) (acc : List Nat), r.sh < 8 → taggedValueBits pb t comps g st ≤ r.avail →
    decodeTaggedLoop pb t comps g st (r.app extra) acc =
      (decodeTaggedLoop pb t comps g st r acc).map (fun p => (p.1, p.2.app extra)) ∧
    ∀ vals r', decodeTaggedLoop pb t comps g st r acc = some (vals, r') →
      r'.decoded = r.decoded + taggedValueBits pb t comps g st
  | 0, _, _, _, _, _ => by
    simp only [decodeTaggedLoop, Option.map_some, Option.some.injEq, Prod.mk.injEq, true_and, taggedValueBits]
    intro vals r' h
    rw [← h.2]; rfl
  | g+1, st, r, acc, hsh, hav => by
    simp only [taggedValueBits] at hav
    simp only [decodeTaggedLoop, taggedValueBits]
    have hc : comps * (ransRead pb t st).1 ≤ r.avail := by omega
    have hr := readTaggedValues_append (ransRead pb t st).1 extra comps r acc hsh hc
    rw [hr.1]
    cases hv : readTaggedValues (ransRead pb t st).1 comps r acc with
    | none => simp
    | some p =>
      obtain ⟨acc', r'⟩ := p
      have h2 := hr.2 acc' r' hv
      simp only [Option.map_some]
      have ih := decodeTaggedLoop_append pb t comps extra g (ransRead pb t st).2 r' acc' h2.1
        (by rw [h2.2.1]; omega)
      refine ⟨ih.1, ?_⟩
      intro vals r'' h
      rw [ih.2 vals r'' h, h2.2.2]
      omega

/-- the condition under which `DecodeTaggedSymbols` never reads a value bit past the end of `bs`:
    table and tag block parse, and the `taggedValueBits` value bits fit into what follows the tag block -/
def TaggedBitsInside (before : Bytes) (numValues numComponents : Nat) (bs : Bytes) : Prop :=
  ∀ t rest1 st rest2, ransSymbolDecoderCreate (ransPrecisionBits 5) bs = some (t, rest1) →
    ransStartDecoding (ransPrecisionBits 5) (before ++ consumedOf bs rest1) rest1 = some (st, rest2) →
    taggedValueBits (ransPrecisionBits 5) t numComponents ((numValues + numComponents - 1) / numComponents) st
      ≤ 8 * rest2.length

/-- **`DecodeTaggedSymbols` is unaffected by appended bytes when its bit reads stay inside the buffer** —
    and only then (`getBits_past_end_not_stable`; whole-section witness in the header of this file) -/
theorem decodeTaggedSymbols_stable_of_bits_inside (before : Bytes) (numValues numComponents : Nat)
    (bs vals rest extra : Bytes) (hin : TaggedBitsInside before numValues numComponents bs)
    (h : decodeTaggedSymbols before numValues numComponents bs = some (vals, rest)) :
    decodeTaggedSymbols before numValues numComponents (bs ++ extra) = some (vals, rest ++ extra) := by
  unfold decodeTaggedSymbols at h ⊢
  cases hc : ransSymbolDecoderCreate (ransPrecisionBits 5) bs with
  | none => simp [hc] at h
  | some p =>
    obtain ⟨t, rest1⟩ := p
    rw [hc] at h
    rw [rdStable_ransSymbolDecoderCreate _ bs t rest1 extra hc]
    simp only [consumedOf_append] at h ⊢
    cases hs : ransStartDecoding (ransPrecisionBits 5) (before ++ consumedOf bs rest1) rest1 with
    | none => simp [hs] at h
    | some q =>
      obtain ⟨st, rest2⟩ := q
      rw [hs] at h
      rw [rdStable_ransStartDecoding _ _ rest1 st rest2 extra hs]
      simp only at h ⊢
      by_cases hz : t.probs.size = 0
      · simp [hz] at h
      · by_cases hn : numComponents = 0
        · simp [hz, hn] at h
        · simp only [hz, hn, if_false] at h ⊢
          have hbits := hin t rest1 st rest2 hc hs
          have hstart : (BitReader.start (rest2 ++ extra)) = (BitReader.start rest2).app extra := rfl
          have hl := decodeTaggedLoop_append (ransPrecisionBits 5) t numComponents extra
            ((numValues + numComponents - 1) / numComponents) st (BitReader.start rest2) []
            (by simp [BitReader.start]) (by simpa [BitReader.avail, BitReader.start] using hbits)
          rw [hstart, hl.1]
          cases hloop : decodeTaggedLoop (ransPrecisionBits 5) t numComponents
              ((numValues + numComponents - 1) / numComponents) st (BitReader.start rest2) [] with
          | none => simp [hloop] at h
          | some pr =>
            obtain ⟨vs, r⟩ := pr
            rw [hloop] at h
            have hd := hl.2 vs r hloop
            simp only [Option.map_some, Option.some.injEq, Prod.mk.injEq] at h ⊢
            have hbd : r.bytesDecoded ≤ rest2.length := by
              unfold BitReader.bytesDecoded
              rw [hd]
              simp only [BitReader.start, Nat.zero_add]
              omega
            have : (r.app extra).bytesDecoded = r.bytesDecoded := rfl
            rw [this, List.drop_append_of_le_length hbd]
            exact ⟨h.1, by rw [← h.2]⟩

end Draco
