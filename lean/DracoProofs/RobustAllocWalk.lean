import DracoProofs.RobustAlloc
import DracoProofs.SymbolCoding
/-
  C18 on the model: the walk through the sequential decoders.
-/
namespace Draco.Robust
open Draco Draco.DecM

variable {bs : Bytes}

theorem allocBound_of_le {n L d : Nat} (h : n ≤ allocA + allocK * L) : n ≤ allocBound L d := by
  unfold allocBound
  have : allocK * L ≤ allocK * (L + d) := Nat.mul_le_mul_left _ (Nat.le_add_right _ _)
  omega

theorem allocBound_of_decl {n L d c : Nat} (hc : c ≤ allocK) (h : n ≤ c * d) : n ≤ allocBound L d := by
  unfold allocBound
  have h1 : c * d ≤ allocK * d := Nat.mul_le_mul_right _ hc
  have h2 : allocK * (L + d) = allocK * L + allocK * d := Nat.mul_add _ _ _
  omega

/-! ### symbol decoder tables -/

theorem ransCreateAllocs_bound (pb : Nat) (hpb : pb ≤ 20) (x : Bytes) (hx : x.length ≤ bs.length) :
    ∀ e ∈ ransCreateAllocs pb x, e.2 ≤ allocA + allocK * bs.length := by
  intro e he
  unfold ransCreateAllocs at he
  split at he
  · simp at he
  · rename_i n rest hv
    have hr : rest.length ≤ x.length := (decVarint_suf 32 _ _ _ hv).length_le
    split at he
    · simp at he
    · rename_i hg
      have hn : n ≤ 64 * bs.length + 63 := by omega
      have hpow : 2 ^ pb ≤ 2 ^ 20 := Nat.pow_le_pow_right (by decide) hpb
      have hA : allocA = 4 * 2 ^ 20 + 65536 := rfl
      have hK : allocK = 2048 := rfl
      rw [hA, hK]
      rcases List.mem_cons.mp he with rfl | he
      · simp only; omega
      · split at he
        · simp at he
        · split at he
          · simp at he
          · simp only [List.mem_cons, List.mem_nil_iff, or_false] at he
            rcases he with rfl | rfl <;> simp only <;> omega

theorem symbolAllocs_bound (nv : Nat) (x : Bytes) (hx : x.length ≤ bs.length) :
    ∀ e ∈ symbolAllocs nv x, e.2 ≤ allocA + allocK * bs.length := by
  intro e he
  unfold symbolAllocs at he
  split at he
  · simp at he
  · split at he
    · simp at he
    · rename_i scheme rest
      have h1 : rest.length ≤ bs.length := by simp only [List.length_cons] at hx; omega
      split at he
      · exact ransCreateAllocs_bound _ (ransPrecisionBits_le 5) rest h1 e he
      · split at he
        · split at he
          · simp at he
          · rename_i b rest'
            have h2 : rest'.length ≤ bs.length := by simp only [List.length_cons] at h1; omega
            split at he
            · exact ransCreateAllocs_bound _ (ransPrecisionBits_le b) rest' h2 e he
            · simp at he
        · simp at he

theorem tr_decodeSymbolsM (nv nc d : Nat) : Tr bs d (decodeSymbolsM nv nc) (fun _ => d) (fun _ => True) := by
  intro s hs
  unfold decodeSymbolsM
  refine tr_lift_any (leaf_decodeSymbols_suf nv nc) _ ⟨hs.suf, hs.decl, fun e he => ?_⟩
  rcases List.mem_append.mp he with he | he
  · exact allocBound_of_le (symbolAllocs_bound nv s.rest hs.len e (List.mem_reverse.mp he))
  · exact hs.allocs e he

/-! ### attribute descriptors -/

/-- what the allocation bound needs to know about a descriptor -/
def DescB (x : AttDesc) : Prop := x.numComponents < 256 ∧ x.dataType < 12

theorem tr_decodeAttDescs (hb : IsBytes bs) (d : Nat) :
    Tr bs d decodeAttDescs (fun _ => d) (fun descs => descs.length ≤ 5 * bs.length ∧ ∀ x ∈ descs, DescB x) := by
  unfold decodeAttDescs
  refine tr_bind tr_version (fun ver _ => ?_)
  extract_lets jp
  have hjp : ∀ n, Tr bs d (jp n) (fun _ => d) (fun descs => descs.length ≤ 5 * bs.length ∧ ∀ x ∈ descs, DescB x) := by
    intro n
    simp -zeta only [jp]
    refine tr_bind tr_require (fun _ _ => ?_)
    refine tr_bind tr_remaining (fun rem hrem => ?_)
    refine tr_bind tr_require (fun _ hn => ?_)
    have hn : n ≤ 5 * rem := by simpa using hn
    have hK : allocK = 2048 := rfl
    refine tr_bind (tr_alloc (allocBound_of_le (by rw [hK]; omega))) (fun _ _ => ?_)
    refine tr_weaken (tr_replicateM' _ DescB d ?_ n) (fun _ => Nat.le_refl _) (fun l h => ⟨by rw [h.1]; omega, h.2⟩)
    refine tr_bind tr_rdU8_any (fun t _ => ?_)
    refine tr_bind (tr_rdU8 hb) (fun dt hdt => ?_)
    refine tr_bind (tr_rdU8 hb) (fun nc hnc => ?_)
    refine tr_bind tr_rdU8_any (fun nz _ => ?_)
    refine tr_bind tr_require (fun _ _ => ?_)
    refine tr_bind tr_require (fun _ hdt2 => ?_)
    refine tr_bind tr_require (fun _ _ => ?_)
    extract_lets jp2
    have hjp2 : ∀ uid, Tr bs d (jp2 uid) (fun _ => d) DescB := by
      intro uid
      simp -zeta only [jp2]
      refine tr_pure ⟨hnc, ?_⟩
      simp only [Bool.and_eq_true, decide_eq_true_eq] at hdt2
      have h12 : Generated.DT_TYPES_COUNT.toNat = 12 := by decide
      rw [h12] at hdt2
      exact hdt2.2
    apply tr_ite <;> intro _
    · exact tr_bind tr_rdU16 (fun uid _ => hjp2 uid)
    · exact tr_bind tr_varint (fun uid _ => hjp2 uid)
  apply tr_ite <;> intro _
  · exact tr_bind tr_rdU32 (fun n _ => hjp n)
  · exact tr_bind tr_varint (fun n _ => hjp n)

/-! ### integer attribute values -/

theorem tr_integerValuesTail (sel ne nc d : Nat) (hnv : 4 * (ne * nc) ≤ allocBound bs.length d) :
    Tr bs d (integerValuesTail sel ne nc) (fun _ => d) (fun _ => True) := by
  unfold integerValuesTail
  refine tr_bind tr_version (fun ver _ => ?_)
  refine tr_bind tr_require (fun _ _ => ?_)
  extract_lets numValues jp2
  refine tr_bind (tr_alloc hnv) (fun _ _ => ?_)
  refine tr_bind tr_require (fun _ _ => ?_)
  apply tr_ite
  · intro _; exact tr_failWith
  intro _
  refine tr_bind tr_rdU8_any (fun compressed _ => ?_)
  have hjp2 : ∀ raw : List Nat, Tr bs d (jp2 raw) (fun _ => d) (fun _ => True) := by
    intro raw
    simp -zeta only [jp2]
    extract_lets vals octaDelta
    split
    · exact tr_bind (tr_lift_any wrap_decodeTransformData_suf) (fun t _ => tr_pure trivial)
    · exact tr_bind (tr_lift_any (octa_legacyDecodeTransformData_suf _)) (fun c _ => tr_pure trivial)
    · exact tr_bind (tr_lift_any octa_decodeTransformData_suf) (fun c _ => tr_pure trivial)
    · exact tr_pure trivial
  apply tr_ite <;> intro _
  · exact tr_bind (tr_lift_any (decodeSymbolsV_suf _ _ _)) (fun raw _ => hjp2 raw)
  · refine tr_bind tr_rdU8_any (fun numBytes _ => ?_)
    apply tr_ite <;> intro _
    · refine tr_bind tr_bytes (fun b _ => ?_)
      exact tr_bind (tr_pure (F := fun _ => True) trivial) (fun raw _ => hjp2 raw)
    · refine tr_bind tr_require (fun _ _ => ?_)
      refine tr_bind tr_remaining (fun rem _ => ?_)
      refine tr_bind tr_require (fun _ _ => ?_)
      apply tr_ite <;> intro _
      · exact tr_bind (tr_pure (F := fun _ => True) trivial) (fun raw _ => hjp2 raw)
      · refine tr_bind tr_bytes (fun b _ => ?_)
        exact tr_bind (tr_pure (F := fun _ => True) trivial) (fun raw _ => hjp2 raw)

theorem tr_decodeIntegerValues (kind ne nc d : Nat) (hnv : 4 * (ne * nc) ≤ allocBound bs.length d) :
    Tr bs d (decodeIntegerValues kind ne nc) (fun _ => d) (fun _ => True) := by
  unfold decodeIntegerValues
  refine tr_bind tr_version (fun ver _ => ?_)
  apply tr_ite
  · intro _; exact tr_failWith
  intro _
  refine tr_bind tr_rdI8 (fun method _ => ?_)
  refine tr_bind tr_require (fun _ _ => ?_)
  extract_lets sel0 numValues jp sel3 sel2 sel1
  have hjp : ∀ sel, Tr bs d (jp () sel) (fun _ => d) (fun _ => True) := by
    intro sel
    simp -zeta only [jp]
    apply tr_ite
    · intro _; exact tr_integerValuesTail 2 ne nc d hnv
    intro _
    refine tr_bind tr_require (fun _ _ => ?_)
    refine tr_bind (tr_alloc hnv) (fun _ _ => ?_)
    refine tr_bind tr_require (fun _ _ => ?_)
    refine tr_bind tr_rdU8_any (fun compressed _ => ?_)
    extract_lets jp2
    have hjp2 : ∀ raw : List Nat, Tr bs d (jp2 raw) (fun _ => d) (fun _ => True) := by
      intro raw
      simp -zeta only [jp2]
      extract_lets vals
      split
      · refine tr_bind tr_rdI32 (fun minV _ => ?_)
        refine tr_bind tr_rdI32 (fun maxV _ => ?_)
        refine tr_bind tr_require (fun _ _ => ?_)
        refine tr_bind tr_ofOption (fun t _ => ?_)
        apply tr_ite <;> intro _ <;> exact tr_pure trivial
      · refine tr_bind tr_rdI32 (fun maxQ _ => ?_)
        refine tr_bind tr_rdI32 (fun _ _ => ?_)
        refine tr_bind tr_ofOption (fun c _ => ?_)
        apply tr_ite <;> intro _ <;> exact tr_pure trivial
      · exact tr_pure trivial
    apply tr_ite <;> intro _
    · exact tr_bind (tr_lift_any (leaf_decodeSymbols_suf _ _)) (fun raw _ => hjp2 raw)
    · refine tr_bind tr_rdU8_any (fun numBytes _ => ?_)
      apply tr_ite <;> intro _
      · refine tr_bind tr_bytes (fun b _ => ?_)
        exact tr_bind (tr_pure (F := fun _ => True) trivial) (fun raw _ => hjp2 raw)
      · refine tr_bind tr_require (fun _ _ => ?_)
        refine tr_bind tr_remaining (fun rem _ => ?_)
        refine tr_bind tr_require (fun _ _ => ?_)
        apply tr_ite <;> intro _
        · exact tr_bind (tr_pure (F := fun _ => True) trivial) (fun raw _ => hjp2 raw)
        · refine tr_bind tr_bytes (fun b _ => ?_)
          exact tr_bind (tr_pure (F := fun _ => True) trivial) (fun raw _ => hjp2 raw)
  apply tr_ite <;> intro _
  · refine tr_bind tr_rdI8 (fun tt _ => ?_)
    refine tr_bind tr_require (fun _ _ => ?_)
    repeat' (first | exact hjp _ | (apply tr_ite <;> intro _))
  · exact hjp _

/-! ### the sequential attribute decoders controller -/

theorem dataTypeLength_le (dt : Nat) : dataTypeLength dt ≤ 8 := by
  unfold dataTypeLength
  repeat' split
  all_goals omega

theorem tr_decodeSequentialAttributes (hb : IsBytes bs) (opts : DecOpts) (np d : Nat) (hnp : np ≤ d) :
    Tr bs d (decodeSequentialAttributes opts np) (fun _ => d) (fun _ => True) := by
  unfold decodeSequentialAttributes
  have hK : allocK = 2048 := rfl
  refine tr_bind (tr_decodeAttDescs hb d) (fun descs hdescs => ?_)
  refine tr_bind (tr_alloc (allocBound_of_le (by rw [hK]; have := hdescs.1; omega))) (fun _ _ => ?_)
  -- decoder types
  refine tr_bind (tr_mapM' _ DescB (fun st => DescB st.desc) d ?_ descs hdescs.2) (fun st1 h1 => ?_)
  · intro x hx
    refine tr_bind tr_rdU8_any (fun dt _ => ?_)
    refine tr_bind tr_require (fun _ _ => ?_)
    extract_lets jpIn jpOut
    have hIn : ∀ u, Tr bs d (jpIn u) (fun _ => d) (fun st => DescB st.desc) := by
      intro u; simp -zeta only [jpIn]; exact tr_pure hx
    have hOut : ∀ u, Tr bs d (jpOut u) (fun _ => d) (fun st => DescB st.desc) := by
      intro u
      simp -zeta only [jpOut]
      apply tr_ite <;> intro _
      · exact tr_bind tr_require (fun u _ => hIn u)
      · exact hIn ()
    apply tr_ite <;> intro _
    · exact tr_bind tr_require (fun u _ => hOut u)
    · exact hOut ()
  refine tr_bind tr_require (fun _ _ => ?_)
  refine tr_bind (tr_alloc (allocBound_of_decl (c := 4) (by rw [hK]; omega) (Nat.mul_le_mul_left 4 hnp))) (fun _ _ => ?_)
  -- portable attributes
  refine tr_bind (tr_mapM' _ (fun st => DescB st.desc) (fun st => DescB st.desc) d ?_ st1 h1.2) (fun st2 h2 => ?_)
  · intro st hst
    extract_lets stride nc
    have hstride : stride ≤ 2040 := by
      have h1 := dataTypeLength_le st.desc.dataType
      have h2 : st.desc.numComponents ≤ 255 := by have := hst.1; omega
      calc stride = dataTypeLength st.desc.dataType * st.desc.numComponents := rfl
        _ ≤ 8 * 255 := Nat.mul_le_mul h1 h2
    have hnc : nc ≤ 255 := by
      simp only [nc]; split
      · omega
      · have := hst.1; omega
    refine tr_bind (tr_alloc (allocBound_of_decl (c := 2040) (by rw [hK]; omega) ?_)) (fun _ _ => ?_)
    · calc np * stride ≤ d * 2040 := Nat.mul_le_mul hnp hstride
        _ = 2040 * d := Nat.mul_comm _ _
    apply tr_ite <;> intro _
    · exact tr_bind tr_bytes (fun b _ => tr_pure hst)
    · refine tr_bind (tr_decodeIntegerValues _ np nc d (allocBound_of_decl (c := 1020) (by rw [hK]; omega) ?_))
        (fun vals _ => tr_pure hst)
      calc 4 * (np * nc) ≤ 4 * (d * 255) := Nat.mul_le_mul_left 4 (Nat.mul_le_mul hnp hnc)
        _ = 1020 * d := by omega
  -- transform data
  refine tr_bind (tr_mapM' _ (fun st => DescB st.desc) (fun _ => True) d ?_ st2 h2.2) (fun st3 h3 => ?_)
  · intro st hst
    apply tr_ite <;> intro _
    · refine tr_bind (tr_replicateM' _ (fun _ => True) d tr_rdU32 _) (fun mins _ => ?_)
      refine tr_bind tr_rdU32 (fun range _ => ?_)
      refine tr_bind tr_rdU8_any (fun bits _ => ?_)
      exact tr_bind tr_require (fun _ _ => tr_pure trivial)
    · apply tr_ite <;> intro _
      · exact tr_bind tr_rdU8_any (fun bits _ => tr_pure trivial)
      · exact tr_pure trivial
  -- original format
  refine tr_weaken (tr_mapM' _ (fun _ => True) (fun _ => True) d ?_ st3 (fun _ _ => trivial)) (fun _ => Nat.le_refl _)
    (fun _ _ => trivial)
  intro st _
  extract_lets dd nc len
  apply tr_ite <;> intro _
  · exact tr_pure trivial
  apply tr_ite <;> intro _
  · exact tr_pure trivial
  split
  · exact tr_bind tr_require (fun _ _ => tr_pure trivial)
  · split
    · exact tr_pure trivial
    · exact tr_fail
  · split
    · exact tr_bind tr_require (fun _ _ => tr_pure trivial)
    · exact tr_fail

theorem tr_decodeSchemeSelection (kind d : Nat) : Tr bs d (decodeSchemeSelection kind) (fun _ => d) (fun _ => True) := by
  unfold decodeSchemeSelection
  refine tr_bind tr_rdI8 (fun method _ => ?_)
  refine tr_bind tr_require (fun _ _ => ?_)
  apply tr_ite <;> intro _
  · exact tr_pure trivial
  refine tr_bind tr_rdI8 (fun tt _ => ?_)
  refine tr_bind tr_require (fun _ _ => ?_)
  repeat' (first | exact tr_pure trivial | (apply tr_ite <;> intro _))

theorem tr_decodeTransformParams (dt nc d : Nat) : Tr bs d (decodeTransformParams dt nc) (fun _ => d) (fun _ => True) := by
  unfold decodeTransformParams
  apply tr_ite <;> intro _
  · refine tr_bind (tr_replicateM' _ (fun _ => True) d tr_rdU32 _) (fun mins _ => ?_)
    refine tr_bind tr_rdU32 (fun range _ => ?_)
    refine tr_bind tr_rdU8_any (fun bits _ => ?_)
    exact tr_bind tr_require (fun _ _ => tr_pure trivial)
  · apply tr_ite <;> intro _
    · exact tr_bind tr_rdU8_any (fun bits _ => tr_pure trivial)
    · exact tr_pure trivial

theorem tr_storeValuesCheck (st : SeqAttState) (d : Nat) : Tr bs d (storeValuesCheck st) (fun _ => d) (fun _ => True) := by
  unfold storeValuesCheck
  apply tr_ite <;> intro _
  · exact tr_weaken tr_require (fun _ => Nat.le_refl _) (fun _ _ => trivial)
  · apply tr_ite <;> intro _
    · split
      · exact tr_weaken tr_require (fun _ => Nat.le_refl _) (fun _ _ => trivial)
      · exact tr_fail
    · exact tr_pure trivial

theorem tr_finishSeqAttribute (opts : DecOpts) (st : SeqAttState) (n : Nat) (mp : Option (List Nat)) (d : Nat) :
    Tr bs d (finishSeqAttribute opts st n mp) (fun _ => d) (fun _ => True) := by
  unfold finishSeqAttribute
  dsimp only
  apply tr_ite <;> intro _
  · exact tr_pure trivial
  apply tr_ite <;> intro _
  · exact tr_pure trivial
  split
  · exact tr_pure trivial
  · split
    · exact tr_pure trivial
    · exact tr_fail
  · split
    · exact tr_pure trivial
    · exact tr_fail

theorem tr_decodeSequentialAttributesLegacy (hb : IsBytes bs) (opts : DecOpts) (np d : Nat) (hnp : np ≤ d) :
    Tr bs d (decodeSequentialAttributesLegacy opts np) (fun _ => d) (fun _ => True) := by
  unfold decodeSequentialAttributesLegacy
  have hK : allocK = 2048 := rfl
  refine tr_bind (tr_decodeAttDescs hb d) (fun descs hdescs => ?_)
  refine tr_bind (tr_alloc (allocBound_of_le (by rw [hK]; have := hdescs.1; omega))) (fun _ _ => ?_)
  refine tr_bind (tr_mapM' _ DescB (fun st => DescB st.desc) d ?_ descs hdescs.2) (fun st1 h1 => ?_)
  · intro x hx
    refine tr_bind tr_rdU8_any (fun dt _ => ?_)
    refine tr_bind tr_require (fun _ _ => ?_)
    extract_lets jpIn jpOut
    have hIn : ∀ u, Tr bs d (jpIn u) (fun _ => d) (fun st => DescB st.desc) := by
      intro u; simp -zeta only [jpIn]; exact tr_pure hx
    have hOut : ∀ u, Tr bs d (jpOut u) (fun _ => d) (fun st => DescB st.desc) := by
      intro u
      simp -zeta only [jpOut]
      apply tr_ite <;> intro _
      · exact tr_bind tr_require (fun u _ => hIn u)
      · exact hIn ()
    apply tr_ite <;> intro _
    · exact tr_bind tr_require (fun u _ => hOut u)
    · exact hOut ()
  refine tr_bind tr_require (fun _ _ => ?_)
  refine tr_bind (tr_alloc (allocBound_of_decl (c := 4) (by rw [hK]; omega) (Nat.mul_le_mul_left 4 hnp))) (fun _ _ => ?_)
  refine tr_bind (tr_mapM' _ (fun st => DescB st.desc) (fun _ => True) d ?_ st1 h1.2) (fun st2 h2 => ?_)
  · intro st hst
    extract_lets stride nc
    have hstride : stride ≤ 2040 := by
      have h1 := dataTypeLength_le st.desc.dataType
      have h2 : st.desc.numComponents ≤ 255 := by have := hst.1; omega
      calc stride = dataTypeLength st.desc.dataType * st.desc.numComponents := rfl
        _ ≤ 8 * 255 := Nat.mul_le_mul h1 h2
    have hnc : nc ≤ 255 := by
      simp only [nc]; split
      · omega
      · have := hst.1; omega
    refine tr_bind (tr_alloc (allocBound_of_decl (c := 2040) (by rw [hK]; omega) ?_)) (fun _ _ => ?_)
    · calc np * stride ≤ d * 2040 := Nat.mul_le_mul hnp hstride
        _ = 2040 * d := Nat.mul_comm _ _
    apply tr_ite <;> intro _
    · exact tr_bind tr_bytes (fun b _ => tr_pure trivial)
    · refine tr_bind (tr_decodeSchemeSelection _ d) (fun sel _ => ?_)
      refine tr_bind (tr_decodeTransformParams _ _ d) (fun tr _ => ?_)
      refine tr_bind (tr_integerValuesTail sel np nc d (allocBound_of_decl (c := 1020) (by rw [hK]; omega) ?_)) (fun vals _ => ?_)
      · calc 4 * (np * nc) ≤ 4 * (d * 255) := Nat.mul_le_mul_left 4 (Nat.mul_le_mul hnp hnc)
          _ = 1020 * d := by omega
      extract_lets s'
      exact tr_bind (tr_storeValuesCheck s' d) (fun _ _ => tr_pure trivial)
  refine tr_weaken (tr_mapM' _ (fun _ => True) (fun _ => True) d ?_ st2 (fun _ _ => trivial)) (fun _ => Nat.le_refl _)
    (fun _ _ => trivial)
  intro st _
  exact tr_finishSeqAttribute opts st np none d

theorem tr_decodeSequentialAttributesV (hb : IsBytes bs) (opts : DecOpts) (np d : Nat) (hnp : np ≤ d) :
    Tr bs d (decodeSequentialAttributesV opts np) (fun _ => d) (fun _ => True) := by
  unfold decodeSequentialAttributesV
  refine tr_bind tr_version (fun ver _ => ?_)
  apply tr_ite <;> intro _
  · exact tr_decodeSequentialAttributesLegacy hb opts np d hnp
  · exact tr_decodeSequentialAttributes hb opts np d hnp

theorem tr_decodePointAttributesSeq (hb : IsBytes bs) (opts : DecOpts) (np d : Nat) (hnp : np ≤ d) :
    Tr bs d (decodePointAttributesSeq opts np) (fun _ => d) (fun _ => True) := by
  unfold decodePointAttributesSeq
  refine tr_bind tr_rdU8_any (fun nd _ => ?_)
  apply tr_ite <;> intro _
  · exact tr_pure trivial
  · apply tr_ite <;> intro _
    · exact tr_decodeSequentialAttributesV hb opts np d hnp
    · exact tr_failWith

/-! ### sequential connectivity -/

theorem tr_decodeSeqConnectivity (d : Nat) :
    Tr bs d decodeSeqConnectivity (fun r => d + r.1) (fun _ => True) := by
  unfold decodeSeqConnectivity
  have hK : allocK = 2048 := rfl
  refine tr_bind tr_version (fun ver _ => ?_)
  extract_lets legacy jpF
  have hjpF : ∀ nf, Tr bs d (jpF nf) (fun r => d + r.1) (fun _ => True) := by
    intro nf
    simp -zeta only [jpF]
    extract_lets jpP
    have hjpP : ∀ np, Tr bs d (jpP np) (fun r => d + r.1) (fun _ => True) := by
      intro np
      simp -zeta only [jpP]
      refine tr_bind tr_require (fun _ _ => ?_)
      refine tr_bind tr_declare (fun _ _ => ?_)
      refine tr_bind tr_rdU8_any (fun method _ => ?_)
      refine tr_bind tr_remaining (fun rem _ => ?_)
      extract_lets jpI jpA
      have hjpI : ∀ idx, Tr bs (d + (nf + np)) (jpI idx) (fun r => d + r.1) (fun _ => True) := by
        intro idx
        simp -zeta only [jpI]
        refine tr_bind tr_require (fun _ _ => ?_)
        exact tr_weaken' (tr_pure (F := fun r : Nat × List (Nat × Nat × Nat) => r.1 = np) rfl)
          (fun r hr => by rw [hr]; omega) (fun _ _ => trivial)
      have hfaces : 12 * nf ≤ allocBound bs.length (d + (nf + np)) :=
        allocBound_of_decl (c := 12) (by rw [hK]; omega) (by omega)
      have hjpA : ∀ u, Tr bs (d + (nf + np)) (jpA u) (fun r => d + r.1) (fun _ => True) := by
        intro u
        simp -zeta only [jpA]
        refine tr_bind (tr_alloc hfaces) (fun _ _ => ?_)
        apply tr_ite <;> intro _
        · refine tr_bind (tr_alloc hfaces) (fun _ _ => ?_)
          refine tr_bind (tr_lift_any (leaf_decodeSymbols_suf _ _)) (fun syms _ => ?_)
          exact tr_bind tr_ofOption (fun idx _ => hjpI idx)
        repeat' (first
          | exact tr_bind (tr_replicateM' _ (fun _ => True) _ tr_rdU8_any _) (fun idx _ => hjpI idx)
          | exact tr_bind (tr_replicateM' _ (fun _ => True) _ tr_rdU16 _) (fun idx _ => hjpI idx)
          | exact tr_bind (tr_replicateM' _ (fun _ => True) _ tr_varint _) (fun idx _ => hjpI idx)
          | exact tr_bind (tr_replicateM' _ (fun _ => True) _ tr_rdU32 _) (fun idx _ => hjpI idx)
          | (apply tr_ite <;> intro _))
      apply tr_ite <;> intro _
      · exact tr_bind tr_require (fun u _ => hjpA u)
      · exact hjpA ()
    apply tr_ite <;> intro _
    · exact tr_bind tr_rdU32 (fun np _ => hjpP np)
    · exact tr_bind tr_varint (fun np _ => hjpP np)
  apply tr_ite <;> intro _
  · exact tr_bind tr_rdU32 (fun nf _ => hjpF nf)
  · exact tr_bind tr_varint (fun nf _ => hjpF nf)

/-! ### the whole decoder -/

theorem tr_decodeHeader (d : Nat) : Tr bs d decodeHeader (fun _ => d) (fun _ => True) := by
  unfold decodeHeader
  refine tr_bind tr_bytes (fun magic _ => ?_)
  refine tr_bind tr_require (fun _ _ => ?_)
  refine tr_bind tr_rdU8_any (fun major _ => ?_)
  refine tr_bind tr_rdU8_any (fun minor _ => ?_)
  refine tr_bind tr_rdU8_any (fun et _ => ?_)
  refine tr_bind tr_rdU8_any (fun em _ => ?_)
  exact tr_bind tr_rdU16 (fun flags _ => tr_pure trivial)

/-- the dispatcher keeps the allocation invariant whenever the body decoders do -/
theorem tr_decodeStreamWith (hb : IsBytes bs) (eb kd : DecOpts → DecM Geometry) (opts : DecOpts)
    (heb : Tr bs 0 (eb opts) (fun _ => 0) (fun _ => True)) (hkd : Tr bs 0 (kd opts) (fun _ => 0) (fun _ => True)) :
    Tr bs 0 (decodeStreamWith eb kd opts) (fun _ => 0) (fun _ => True) := by
  unfold decodeStreamWith
  refine tr_bind (tr_decodeHeader 0) (fun h _ => ?_)
  refine tr_bind tr_require (fun _ _ => ?_)
  extract_lets isMesh maxMajor maxMinor ver jpM
  refine tr_bind tr_require (fun _ _ => ?_)
  apply tr_ite <;> intro _
  · exact tr_failWith
  apply tr_ite <;> intro _
  · exact tr_failWith
  refine tr_bind tr_setVersion (fun _ _ => ?_)
  have hjpM : ∀ md, Tr bs 0 (jpM md) (fun _ => 0) (fun _ => True) := by
    intro md
    simp -zeta only [jpM]
    apply tr_ite <;> intro _
    · exact tr_bind heb (fun g _ => tr_pure trivial)
    apply tr_ite <;> intro _
    · exact tr_bind hkd (fun g _ => tr_pure trivial)
    apply tr_ite <;> intro _
    · refine tr_bind (tr_decodeSeqConnectivity 0) (fun r _ => ?_)
      obtain ⟨np, faces⟩ := r
      refine tr_bind (tr_decodePointAttributesSeq hb opts np (0 + np) (by omega)) (fun atts _ => ?_)
      exact tr_weaken (tr_pure (F := fun _ => True) trivial) (fun _ => Nat.zero_le _) (fun _ h => h)
    · refine tr_bind tr_rdI32 (fun np _ => ?_)
      extract_lets numPoints
      refine tr_bind tr_declare (fun _ _ => ?_)
      refine tr_bind (tr_decodePointAttributesSeq hb opts numPoints (0 + numPoints) (by omega)) (fun atts _ => ?_)
      exact tr_weaken (tr_pure (F := fun _ => True) trivial) (fun _ => Nat.zero_le _) (fun _ h => h)
  apply tr_ite <;> intro _
  · refine tr_bind (F := fun _ => True) ?_ (fun md _ => hjpM md)
    exact tr_bind (tr_lift_any leaf_decodeGeometryMetadata_suf) (fun g _ => tr_pure (F := fun _ => True) trivial)
  · exact tr_bind (tr_pure (F := fun _ => True) trivial) (fun md _ => hjpM md)

/-- **C18 on the model.** Every allocation event of the dispatcher on the byte string `bs` — whether the
    stream is accepted or rejected — is at most `allocA + allocK * (bs.length + declared)`, provided the
    Edgebreaker / kd-tree body decoders keep the invariant. -/
theorem decodeStreamWith_alloc_bounded (eb kd : DecOpts → DecM Geometry) (opts : DecOpts) (bs : Bytes) (hb : IsBytes bs)
    (heb : Tr bs 0 (eb opts) (fun _ => 0) (fun _ => True)) (hkd : Tr bs 0 (kd opts) (fun _ => 0) (fun _ => True)) :
    ∀ e ∈ (decodeStreamWith eb kd opts { rest := bs }).2.allocs,
      e.2 ≤ allocA + allocK * (bs.length + (decodeStreamWith eb kd opts { rest := bs }).2.declared) := by
  have h0 : Inv bs 0 { rest := bs } := ⟨List.suffix_refl _, Nat.le_refl _, by simp⟩
  have h := tr_decodeStreamWith hb eb kd opts heb hkd _ h0
  rcases hr : decodeStreamWith eb kd opts { rest := bs } with ⟨r, s'⟩
  cases r with
  | none => exact (h.1 s' hr).allocs
  | some a => exact (h.2 a s' hr).1.allocs

end Draco.Robust
