import DracoModel.EbPredict
import Mathlib.Data.Nat.Sqrt
import Mathlib.Tactic.Ring
import Mathlib.Tactic.Linarith
import Mathlib.Tactic.NormNum

/-!
# `IntSqrt` (core/math_utils.h) is the floor square root on all of `uint64_t`

`Draco.Eb.intSqrt` models the C++ routine

```
uint64_t act_number = number; uint64_t square_root = 1;
while (act_number >= 2) { square_root *= 2; act_number /= 4; }
do { square_root = (square_root + number / square_root) / 2; }
while (square_root * square_root > number);
```

with all `uint64_t` operations reduced mod `2 ^ 64` and the two loops bounded by fuel 40 / 80.
We prove that for every `n < 2 ^ 64` neither the wrap-around nor the fuel bound is ever
reached and that the result is `Nat.sqrt n`.
-/

namespace Draco.Eb

/-- one Newton step never goes below the floor square root (AM-GM with floors) -/
theorem intSqrt_step_ge (n x : Nat) (hx : 0 < x) : Nat.sqrt n ≤ (x + n / x) / 2 := by
  have h1 : n < x * (n / x + 1) := Nat.lt_mul_div_succ n hx
  generalize n / x = q at h1
  have h2 : x + q ≤ 2 * ((x + q) / 2) + 1 := by omega
  generalize (x + q) / 2 = y at h2
  have h3 : n < (y + 1) ^ 2 := by
    have h4 : 4 * (x * (q + 1)) ≤ (x + (q + 1)) ^ 2 := by
      zify
      nlinarith [sq_nonneg ((x : ℤ) - ((q : ℤ) + 1))]
    have h5 : (x + (q + 1)) ^ 2 ≤ (2 * (y + 1)) ^ 2 := Nat.pow_le_pow_left (by omega) 2
    have h6 : (2 * (y + 1)) ^ 2 = 4 * (y + 1) ^ 2 := by ring
    omega
  exact Nat.le_of_lt_succ (Nat.sqrt_lt'.2 h3)

/-- above the floor square root, the quotient `n / x` is at most the floor square root -/
theorem intSqrt_div_le (n x : Nat) (hx : Nat.sqrt n < x) : n / x ≤ Nat.sqrt n := by
  have hx0 : 0 < x := by omega
  apply Nat.le_of_lt_succ
  rw [Nat.div_lt_iff_lt_mul hx0, Nat.succ_eq_add_one]
  have h1 : n < (Nat.sqrt n + 1) * (Nat.sqrt n + 1) := Nat.lt_succ_sqrt n
  have h2 : (Nat.sqrt n + 1) * (Nat.sqrt n + 1) ≤ (Nat.sqrt n + 1) * x :=
    Nat.mul_le_mul_left _ hx
  omega

/-- the Newton loop: from any `x > 0` whose first step neither wraps nor leaves `[0, 2^32)`,
and with fuel at least one more than the bit length of the distance of the first iterate to the
root, the loop returns the floor square root -/
theorem intSqrt_newton_spec (n : Nat) (hn0 : 0 < n) (hn : n < 2 ^ 64) :
    ∀ (fuel x : Nat), 0 < x → x + n / x < 2 ^ 33 →
      (x + n / x) / 2 - Nat.sqrt n < 2 ^ fuel →
      intSqrt.newton n (fuel + 1) x = Nat.sqrt n := by
  have hs0 : 0 < Nat.sqrt n := Nat.sqrt_pos.2 hn0
  intro fuel
  induction fuel with
  | zero =>
    intro x hx hsum hd
    have hge := intSqrt_step_ge n x hx
    have hy : (x + n / x) / 2 = Nat.sqrt n := by omega
    have hmod : (x + n / x) % 2 ^ 64 = x + n / x := Nat.mod_eq_of_lt (by omega)
    have hsq : Nat.sqrt n * Nat.sqrt n ≤ n := Nat.sqrt_le n
    have hmod2 : (Nat.sqrt n * Nat.sqrt n) % 2 ^ 64 = Nat.sqrt n * Nat.sqrt n :=
      Nat.mod_eq_of_lt (by omega)
    have hne : Nat.sqrt n ≠ 0 := by omega
    simp only [intSqrt.newton, hmod, hy, hmod2, beq_iff_eq, hne, if_false, gt_iff_lt]
    rw [if_neg (by omega)]
  | succ fuel ih =>
    intro x hx hsum hd
    have hge := intSqrt_step_ge n x hx
    have hmod : (x + n / x) % 2 ^ 64 = x + n / x := Nat.mod_eq_of_lt (by omega)
    generalize hyd : (x + n / x) / 2 = y at hge hd
    have hy32 : y < 2 ^ 32 := by omega
    have hyy : y * y < 2 ^ 64 := by
      have : y * y ≤ (2 ^ 32 - 1) * (2 ^ 32 - 1) := Nat.mul_le_mul (by omega) (by omega)
      omega
    have hmod2 : (y * y) % 2 ^ 64 = y * y := Nat.mod_eq_of_lt hyy
    have hne : y ≠ 0 := by omega
    rw [intSqrt.newton]
    simp only [hmod, hyd, hmod2, beq_iff_eq, hne, if_false, gt_iff_lt]
    by_cases hc : n < y * y
    · rw [if_pos hc]
      have hys : Nat.sqrt n < y := Nat.sqrt_lt.2 hc
      have hq : n / y ≤ Nat.sqrt n := intSqrt_div_le n y hys
      apply ih y (by omega) (by omega)
      have hp : 2 ^ (fuel + 1) = 2 * 2 ^ fuel := by ring
      omega
    · rw [if_neg hc]
      have h1 : y ≤ Nat.sqrt n := Nat.le_sqrt.2 (by omega)
      omega

/-- the estimation loop: invariants `sq = 2 ^ j`, `act = n / sq²`, `sq² ≤ 2 n` -/
theorem intSqrt_est_spec (n : Nat) (hn : n < 2 ^ 64) :
    ∀ (fuel act sq : Nat), act < 2 * 4 ^ fuel → sq * sq * act ≤ n → n < sq * sq * (act + 1) →
      sq * sq ≤ 2 * n → (∃ j, sq = 2 ^ j) →
      ∃ j, intSqrt.est fuel act sq = 2 ^ j ∧ 2 ^ j * 2 ^ j ≤ 2 * n ∧ n < 2 * (2 ^ j * 2 ^ j) := by
  intro fuel
  induction fuel with
  | zero =>
    intro act sq hf hlo hhi hsq ⟨j, hj⟩
    refine ⟨j, ?_, ?_, ?_⟩
    · simp [intSqrt.est, hj]
    · rw [← hj]; exact hsq
    · rw [← hj]
      have : act + 1 ≤ 2 := by omega
      have := Nat.mul_le_mul_left (sq * sq) this
      omega
  | succ fuel ih =>
    intro act sq hf hlo hhi hsq ⟨j, hj⟩
    rw [intSqrt.est]
    by_cases hc : act ≥ 2
    · rw [if_pos hc]
      -- `sq² · 2 ≤ sq² · act ≤ n`
      have h2 : sq * sq * 2 ≤ sq * sq * act := Nat.mul_le_mul_left _ hc
      have hsq2 : (sq * 2) * (sq * 2) = 4 * (sq * sq) := by ring
      have hlt : sq * 2 < 2 ^ 64 := by
        by_contra hge
        have : 2 ^ 64 * 2 ^ 64 ≤ (sq * 2) * (sq * 2) := Nat.mul_le_mul (by omega) (by omega)
        omega
      rw [Nat.mod_eq_of_lt hlt]
      apply ih
      · have : 4 ^ (fuel + 1) = 4 * 4 ^ fuel := by ring
        omega
      · rw [hsq2]
        have : 4 * (sq * sq) * (act / 4) = sq * sq * (4 * (act / 4)) := by ring
        rw [this]
        exact le_trans (Nat.mul_le_mul_left _ (by omega)) hlo
      · rw [hsq2]
        have : 4 * (sq * sq) * (act / 4 + 1) = sq * sq * (4 * (act / 4) + 4) := by ring
        rw [this]
        exact lt_of_lt_of_le hhi (Nat.mul_le_mul_left _ (by omega))
      · rw [hsq2]; omega
      · exact ⟨j + 1, by rw [hj]; ring⟩
    · rw [if_neg hc]
      refine ⟨j, hj, ?_, ?_⟩
      · rw [← hj]; exact hsq
      · rw [← hj]
        have : act + 1 ≤ 2 := by omega
        have := Nat.mul_le_mul_left (sq * sq) this
        omega

/-- `IntSqrt` computes the floor square root of every `uint64_t` -/
theorem intSqrt_eq_sqrt (n : Nat) (h : n < 2 ^ 64) : intSqrt n = Nat.sqrt n := by
  unfold intSqrt
  by_cases h0 : n = 0
  · subst h0; simp
  have hn0 : 0 < n := Nat.pos_of_ne_zero h0
  have hb : (n == 0) = false := by simpa using h0
  simp only [hb, Bool.false_eq_true, if_false]
  obtain ⟨j, hj, hlo, hhi⟩ := intSqrt_est_spec n h 40 n 1 (by norm_num; omega) (by omega)
    (by omega) (by omega) ⟨0, rfl⟩
  rw [hj]
  have hpos : 0 < 2 ^ j := Nat.pos_of_ne_zero (by positivity)
  -- `j ≤ 32`
  have hj32 : j ≤ 32 := by
    by_contra hgt
    have h33 : 2 ^ 33 ≤ 2 ^ j := Nat.pow_le_pow_right (by norm_num) (by omega)
    have : 2 ^ 33 * 2 ^ 33 ≤ 2 ^ j * 2 ^ j := Nat.mul_le_mul h33 h33
    omega
  -- `n / 2^j < 2 · 2^j`
  have hq : n / 2 ^ j < 2 * 2 ^ j := by
    rw [Nat.div_lt_iff_lt_mul hpos]
    have : 2 * 2 ^ j * 2 ^ j = 2 * (2 ^ j * 2 ^ j) := by ring
    omega
  have hsum : 2 ^ j + n / 2 ^ j < 2 ^ 33 := by
    by_cases h32 : j = 32
    · subst h32
      have : n / 2 ^ 32 < 2 ^ 32 := by
        rw [Nat.div_lt_iff_lt_mul (by norm_num)]; omega
      omega
    · have : 2 ^ j ≤ 2 ^ 31 := Nat.pow_le_pow_right (by norm_num) (by omega)
      omega
  exact intSqrt_newton_spec n hn0 h 79 (2 ^ j) hpos hsum (by omega)

/-- `IntSqrt` is the floor square root on all 64-bit inputs -/
theorem intSqrt_correct (n : Nat) (h : n < 2 ^ 64) :
    intSqrt n ^ 2 ≤ n ∧ n < (intSqrt n + 1) ^ 2 := by
  rw [intSqrt_eq_sqrt n h]
  exact ⟨Nat.sqrt_le' n, Nat.lt_succ_sqrt' n⟩

end Draco.Eb
