import DracoModel.Stripifier
/-
  DracoProofs.StripsChain — what a triangle strip written by `StoreStrip` means to a consumer.

  A *store chain* is the sequence of corners `c_0, c_1, …` visited by `StoreStrip`: `c_{i+1}` is
  the opposite of the "exit corner" `zz i c_i` of face `i` and the point ids agree across the
  shared edge (`Link`, the test of `GetOppositeCorner`).  For such a chain the index stream decodes
  (OpenGL strip rule) to exactly the faces of the chain, each with its own orientation.
-/
namespace Draco
namespace Strips

/-! ### corner arithmetic -/

theorem prevC_prevC (c : Nat) : prevC (prevC c) = nextC c := by
  unfold prevC nextC; (repeat' split) <;> omega

theorem nextC_nextC (c : Nat) : nextC (nextC c) = prevC c := by
  unfold prevC nextC; (repeat' split) <;> omega

theorem nextC_prevC (c : Nat) : nextC (prevC c) = c := by
  unfold prevC nextC; (repeat' split) <;> omega

theorem prevC_nextC (c : Nat) : prevC (nextC c) = c := by
  unfold prevC nextC; (repeat' split) <;> omega

theorem nextC_div (c : Nat) : nextC c / 3 = c / 3 := by
  unfold nextC; split <;> omega

theorem prevC_div (c : Nat) : prevC c / 3 = c / 3 := by
  unfold prevC; split <;> omega

/-- the corner whose opposite `StoreStrip` / `GenerateStripsFromCorner` take after the face at
    position `j` of a strip, entered through corner `d` -/
def zz (j d : Nat) : Nat := if j = 0 then d else if j % 2 = 1 then prevC d else nextC d

theorem zz_div (j d : Nat) : zz j d / 3 = d / 3 := by
  unfold zz; split
  · rfl
  · split
    · exact prevC_div d
    · exact nextC_div d

/-- the test of `GetOppositeCorner`: same point ids on both sides of the shared edge -/
def Link (cx : Ctx) (x o : Nat) : Prop :=
  cx.pt (nextC x) = cx.pt (prevC o) ∧ cx.pt (prevC x) = cx.pt (nextC o)

theorem Link.symm {cx : Ctx} {x o : Nat} (h : Link cx x o) : Link cx o x := ⟨h.2.symm, h.1.symm⟩

theorem getOpp_eq_some {cx : Ctx} {x o : Nat} :
    cx.getOpp x = some o ↔ (oget cx.opp x = some o ∧ Link cx x o) := by
  unfold Ctx.getOpp Link
  cases h : oget cx.opp x with
  | none => simp
  | some o' =>
    simp only
    constructor
    · intro hh
      split at hh
      · cases hh
      · split at hh
        · cases hh
        · rename_i n1 n2
          cases hh
          exact ⟨rfl, Decidable.not_not.mp n1, Decidable.not_not.mp n2⟩
    · intro ⟨e, l1, l2⟩
      cases e
      rw [if_neg (Decidable.not_not.mpr l1), if_neg (Decidable.not_not.mpr l2)]

/-- store chain starting at position `i` -/
def SChain (cx : Ctx) : Nat → List Nat → Prop
  | _, [] => True
  | _, [_] => True
  | i, c :: c' :: L => oget cx.opp (zz i c) = some c' ∧ Link cx (zz i c) c' ∧ SChain cx (i + 1) (c' :: L)

/-- what `StoreStrip` writes for the face at position `i` entered through corner `c` -/
def emit (cx : Ctx) (i c : Nat) : List Nat :=
  if i = 0 then [cx.pt c, cx.pt (nextC c), cx.pt (prevC c)] else [cx.pt c]

def stream (cx : Ctx) : Nat → List Nat → List Nat
  | _, [] => []
  | i, c :: L => emit cx i c ++ stream cx (i + 1) L

/-- the face at position `i` entered through `c`, as the consumer reads it -/
def triOf (cx : Ctx) (i c : Nat) : Face :=
  if i = 0 then (cx.pt c, cx.pt (nextC c), cx.pt (prevC c)) else (cx.pt (nextC c), cx.pt (prevC c), cx.pt c)

def chainTris (cx : Ctx) : Nat → List Nat → List Face
  | _, [] => []
  | i, c :: L => triOf cx i c :: chainTris cx (i + 1) L

theorem stream_pos (cx : Ctx) (i : Nat) (hi : i ≠ 0) (c : Nat) (L : List Nat) :
    stream cx i (c :: L) = cx.pt c :: stream cx (i + 1) L := by
  simp [stream, emit, hi]

/-- decoding from the middle of a strip: `a b` are the two indices before the one of corner `c` -/
theorem stripTriangles_chain (cx : Ctx) (i : Nat) (hi : i ≠ 0) (C : List Nat) (a b : Nat) :
    ∀ c, SChain cx i (c :: C) →
      (if i % 2 = 1 then a = cx.pt (prevC c) ∧ b = cx.pt (nextC c)
       else a = cx.pt (nextC c) ∧ b = cx.pt (prevC c)) →
      stripTriangles (i % 2 = 1) (a :: b :: stream cx i (c :: C)) = chainTris cx i (c :: C) := by
  induction C generalizing i a b with
  | nil =>
    intro c _ hab
    rw [stream_pos cx i hi]
    simp only [stream, stripTriangles, chainTris, triOf, hi, if_false]
    by_cases hp : i % 2 = 1
    · simp only [hp, if_true, decide_true] at hab ⊢
      rw [hab.1, hab.2]
    · simp only [hp, if_false, decide_false] at hab ⊢
      rw [hab.1, hab.2]
      simp
  | cons c' C ih =>
    intro c hch hab
    obtain ⟨hopp, hlink, hrest⟩ := hch
    rw [stream_pos cx i hi]
    have hstep : stripTriangles (i % 2 = 1) (a :: b :: cx.pt c :: stream cx (i + 1) (c' :: C)) =
        (if (decide (i % 2 = 1)) = true then (b, a, cx.pt c) else (a, b, cx.pt c)) ::
          stripTriangles (!decide (i % 2 = 1)) (b :: cx.pt c :: stream cx (i + 1) (c' :: C)) := by
      rfl
    rw [hstep]
    have hnext : (!decide (i % 2 = 1)) = decide ((i + 1) % 2 = 1) := by
      by_cases hp : i % 2 = 1
      · have : ¬ (i + 1) % 2 = 1 := by omega
        simp [hp, this]
      · have : (i + 1) % 2 = 1 := by omega
        simp [hp, this]
    rw [hnext, ih (i + 1) (by omega) b (cx.pt c) c' hrest]
    · simp only [chainTris, triOf, hi, if_false]
      by_cases hp : i % 2 = 1
      · simp only [hp, if_true, decide_true] at hab ⊢
        rw [hab.1, hab.2]
      · simp only [hp, if_false, decide_false] at hab ⊢
        rw [hab.1, hab.2]
        simp
    · -- the invariant for the next face, from the link across the shared edge
      unfold Link zz at hlink
      simp only [hi, if_false] at hlink
      by_cases hp : i % 2 = 1
      · have hq : ¬ (i + 1) % 2 = 1 := by omega
        simp only [hp, if_true] at hab hlink
        simp only [hq, if_false]
        rw [nextC_prevC, prevC_prevC] at hlink
        exact ⟨by rw [hab.2, hlink.2], hlink.1⟩
      · have hq : (i + 1) % 2 = 1 := by omega
        simp only [hp, if_false] at hab hlink
        simp only [hq, if_true]
        rw [nextC_nextC, prevC_nextC] at hlink
        exact ⟨by rw [hab.2, hlink.1], hlink.2⟩

/-- **the consumer reads back the faces of the chain** -/
theorem stripTriangles_stream (cx : Ctx) (C : List Nat) (h : SChain cx 0 C) :
    stripTriangles false (stream cx 0 C) = chainTris cx 0 C := by
  cases C with
  | nil => rfl
  | cons c C =>
    cases C with
    | nil => simp [stream, emit, stripTriangles, chainTris, triOf]
    | cons c' C =>
      obtain ⟨_, hlink, hrest⟩ := h
      have h1 : stream cx 0 (c :: c' :: C) =
          cx.pt c :: cx.pt (nextC c) :: cx.pt (prevC c) :: stream cx 1 (c' :: C) := by
        simp [stream, emit]
      rw [h1]
      have h2 : stripTriangles false (cx.pt c :: cx.pt (nextC c) :: cx.pt (prevC c) :: stream cx 1 (c' :: C)) =
          (cx.pt c, cx.pt (nextC c), cx.pt (prevC c)) ::
            stripTriangles true (cx.pt (nextC c) :: cx.pt (prevC c) :: stream cx 1 (c' :: C)) := rfl
      rw [h2]
      have h3 := stripTriangles_chain cx 1 (by omega) C (cx.pt (nextC c)) (cx.pt (prevC c)) c' hrest
        (by
          unfold Link zz at hlink
          simp only [if_true] at hlink
          simp only [show (1 % 2 = 1) from rfl, if_true]
          exact ⟨hlink.1, hlink.2⟩)
      simp only [show (1 % 2 = 1) from rfl, decide_true] at h3
      rw [h3]
      simp [chainTris, triOf]

/-! ### every triangle of a chain is a rotation of the mesh face of its corner -/

/-- same oriented triangle, other first corner -/
def FaceRot (f' f : Face) : Prop := f' = f ∨ f' = Cleanup.rotL f ∨ f' = Cleanup.rotL (Cleanup.rotL f)

theorem pt_cases (cx : Ctx) (c : Nat) :
    (c % 3 = 0 ∧ cx.pt c = (cx.faces.getD (c / 3) (0, 0, 0)).1) ∨
    (c % 3 = 1 ∧ cx.pt c = (cx.faces.getD (c / 3) (0, 0, 0)).2.1) ∨
    (c % 3 = 2 ∧ cx.pt c = (cx.faces.getD (c / 3) (0, 0, 0)).2.2) := by
  unfold Ctx.pt
  have : c % 3 = 0 ∨ c % 3 = 1 ∨ c % 3 = 2 := by omega
  rcases this with h | h | h
  · left; simp [h]
  · right; left; simp [h]
  · right; right; simp [h]

theorem triOf_faceRot (cx : Ctx) (i c : Nat) :
    FaceRot (triOf cx i c) (cx.faces.getD (c / 3) (0, 0, 0)) := by
  have hn : nextC c / 3 = c / 3 := nextC_div c
  have hp : prevC c / 3 = c / 3 := prevC_div c
  have hc := pt_cases cx c
  have hcn := pt_cases cx (nextC c)
  have hcp := pt_cases cx (prevC c)
  rw [hn] at hcn
  rw [hp] at hcp
  generalize cx.faces.getD (c / 3) (0, 0, 0) = f at *
  obtain ⟨f0, f1, f2⟩ := f
  have hmod : c % 3 = 0 ∨ c % 3 = 1 ∨ c % 3 = 2 := by omega
  have hnm : nextC c % 3 = (c + 1) % 3 := by unfold nextC; split <;> omega
  have hpm : prevC c % 3 = (c + 2) % 3 := by unfold prevC; split <;> omega
  unfold triOf FaceRot Cleanup.rotL
  dsimp only at *
  rcases hmod with h | h | h
  · have e0 : cx.pt c = f0 := by rcases hc with ⟨_, e⟩ | ⟨h', _⟩ | ⟨h', _⟩ <;> first | exact e | omega
    have e1 : cx.pt (nextC c) = f1 := by rcases hcn with ⟨h', _⟩ | ⟨_, e⟩ | ⟨h', _⟩ <;> first | exact e | omega
    have e2 : cx.pt (prevC c) = f2 := by rcases hcp with ⟨h', _⟩ | ⟨h', _⟩ | ⟨_, e⟩ <;> first | exact e | omega
    rw [e0, e1, e2]
    split
    · exact Or.inl rfl
    · exact Or.inr (Or.inl rfl)
  · have e0 : cx.pt c = f1 := by rcases hc with ⟨h', _⟩ | ⟨_, e⟩ | ⟨h', _⟩ <;> first | exact e | omega
    have e1 : cx.pt (nextC c) = f2 := by rcases hcn with ⟨h', _⟩ | ⟨h', _⟩ | ⟨_, e⟩ <;> first | exact e | omega
    have e2 : cx.pt (prevC c) = f0 := by rcases hcp with ⟨_, e⟩ | ⟨h', _⟩ | ⟨h', _⟩ <;> first | exact e | omega
    rw [e0, e1, e2]
    split
    · exact Or.inr (Or.inl rfl)
    · exact Or.inr (Or.inr rfl)
  · have e0 : cx.pt c = f2 := by rcases hc with ⟨h', _⟩ | ⟨h', _⟩ | ⟨_, e⟩ <;> first | exact e | omega
    have e1 : cx.pt (nextC c) = f0 := by rcases hcn with ⟨_, e⟩ | ⟨h', _⟩ | ⟨h', _⟩ <;> first | exact e | omega
    have e2 : cx.pt (prevC c) = f1 := by rcases hcp with ⟨h', _⟩ | ⟨_, e⟩ | ⟨h', _⟩ <;> first | exact e | omega
    rw [e0, e1, e2]
    split
    · exact Or.inr (Or.inr rfl)
    · exact Or.inl rfl

end Strips
end Draco
