import DracoProofs.KdSpecCheck
/-
  The decode of `encodeGeometryKd …` with every attribute transform skipped declares exactly the
  transforms of `declaredTransformKd` (`DeclaresKd`): the second geometry `Spec.checkCore` is
  evaluated on.
-/
namespace Draco.KdEnc
open Draco SeqEnc Kd DecM

/-- the transform data the all-skipped decode attaches to the attribute of one encoder state -/
def skippedTransform (e : AttEnc) : TransformData :=
  match e.transform with
  | .quant q mins range => .quantization (q : Nat) mins range
  | _ => .none

theorem map_zipWith_forall2 {α β γ δ : Type} (R : α → β → Prop) (F : α → β → γ) (tr : γ → δ) (G : β → δ)
    (h : ∀ a b, R a b → tr (F a b) = G b) : ∀ (l : List α) (r : List β), List.Forall₂ R l r →
    (List.zipWith F l r).map tr = r.map G := by
  intro l r hf
  induction hf with
  | nil => rfl
  | cons hab _ ih => simp only [List.zipWith_cons_cons, List.map_cons, h _ _ hab, ih]

theorem geometryOfPointsWith_transforms (n : Nat) (encs : List AttEnc) (hf : ∀ e ∈ encs, EncFacts n e)
    (pts : List (List Nat)) :
    (geometryOfPointsWith { skip := allTypes } n encs pts).atts.map (·.transform) =
      encs.map skippedTransform := by
  simp only [geometryOfPointsWith]
  rw [zip3With_maps]
  refine map_zipWith_forall2 _ _ _ _ ?_ _ _ (kdAttsOf_fits n (dimOf encs) encs 0 hf (by omega))
  intro ka e ⟨he, hd, _, _⟩
  simp only [skippedTransform]
  cases htr : e.transform with
  | none => rfl
  | signed mins => rfl
  | quant q mins range =>
    have hc : allTypes.contains ka.desc.attType = true := by
      rw [hd]; exact allTypes_contains _ he.attType
    simp only [finishAttribute, hc, if_true]

theorem skippedTransform_declared (opts : EncOpts) (n i : Nat) (a : Attribute) (e : AttEnc)
    (h : encodeAttribute opts n i a = some e) : skippedTransform e = declaredTransformKd opts i a := by
  unfold encodeAttribute at h
  simp only at h
  cases hk : kindOf a.dataType with
  | none => rw [hk] at h; cases h
  | some k =>
    rw [hk] at h
    have hkc := kindOf_cases a.dataType k hk
    by_cases h9 : a.dataType = Generated.DT_FLOAT32.toNat
    · have hk2 : k = 2 := by
        have h9' : a.dataType = 9 := h9
        rcases hkc with ⟨_, h0 | h0 | h0⟩ | ⟨_, h0 | h0 | h0⟩ | ⟨h0, _⟩ <;> omega
      subst hk2
      simp only at h
      cases hq : quantizationParams a (opts.att i) with
      | none => rw [hq] at h; cases h
      | some r =>
        obtain ⟨mins, range, q⟩ := r
        rw [hq] at h
        simp only [Option.some.injEq] at h
        subst h
        simp only [skippedTransform, declaredTransformKd, h9, if_true, hq]
    · have h9' : ¬ a.dataType = 9 := h9
      have hdecl : declaredTransformKd opts i a = .none := by
        simp only [declaredTransformKd, h9, if_false]
      rw [hdecl]
      rcases hkc with ⟨rfl, _⟩ | ⟨rfl, _⟩ | ⟨_, h0⟩
      · simp only [Option.some.injEq] at h; subst h; rfl
      · simp only [Option.some.injEq] at h; subst h; rfl
      · exact absurd h0 h9'

/-- every attribute of a cloud the encoder accepts is accepted by `encodeAttribute` -/
theorem encodeAttribute_of_full (ch : Choices) (g : Geometry) (md : Option GeometryMetadata)
    (opts : EncOpts) (bs : Bytes) (encs : List AttEnc)
    (henc : encodeGeometryKdFull ch g md opts = some (bs, encs)) (i : Nat) (a : Attribute)
    (hi : g.atts[i]? = some a) : ∃ e, encodeAttribute opts g.numPoints i a = some e := by
  obtain ⟨e, _, he⟩ := allSome_zipIdxFrom_index (fun i a => encodeAttribute opts g.numPoints i a) g.atts 0 encs
    (encs_of_full ch g md opts bs encs henc) i a hi
  exact ⟨e, by simpa using he⟩

theorem encodeGeometryKd_full (ch : Choices) (g : Geometry) (md : Option GeometryMetadata)
    (opts : EncOpts) (bs : Bytes) (henc : encodeGeometryKd ch g md opts = some bs) :
    ∃ encs, encodeGeometryKdFull ch g md opts = some (bs, encs) := by
  unfold encodeGeometryKd at henc
  cases hf : encodeGeometryKdFull ch g md opts with
  | none => rw [hf] at henc; cases henc
  | some r =>
    obtain ⟨bs', encs⟩ := r
    rw [hf] at henc
    simp only [Option.map_some, Option.some.injEq] at henc
    subst henc
    exact ⟨encs, rfl⟩

/-- the decode of `encodeGeometryKd …` with every transform skipped succeeds and declares the
    transforms of `declaredTransformKd` -/
theorem kd_allskipped_declares (ch : Choices) (hpart : PartSpec ch.part) (g : Geometry)
    (md : Option GeometryMetadata) (opts : EncOpts) (bs : Bytes)
    (hok : GeomOK g opts) (hmd : ∀ m, md = some m → m.WF')
    (henc : encodeGeometryKd ch g md opts = some bs) (extra : Bytes) :
    ∃ gs st, decodeGeometry { skip := allTypes } { rest := bs ++ extra } = (some ⟨gs, md⟩, st) ∧
      st.rest = extra ∧ DeclaresKd g opts gs := by
  obtain ⟨encs, hf⟩ := encodeGeometryKd_full ch g md opts bs henc
  obtain ⟨r, st, h1, h2, _, hmd', pts', _, hp2⟩ :=
    (runsP_decodeStreamWith_with { skip := allTypes } Eb.decodeEdgebreaker ch hpart g md opts bs encs hok hmd hf).run
      { rest := bs ++ extra } extra rfl rfl
  obtain ⟨rg, rm⟩ := r
  simp only at hmd' hp2
  subst hmd' hp2
  refine ⟨geometryOfPointsWith { skip := allTypes } g.numPoints encs pts', st, ?_, h2, ?_⟩
  · unfold decodeGeometry
    rw [h1]
  · unfold DeclaresKd
    rw [geometryOfPointsWith_transforms _ _ (encs_facts ch g _ opts bs encs hok hf)]
    exact allSome_map_eq (fun i a => encodeAttribute opts g.numPoints i a) skippedTransform
      (fun i a => declaredTransformKd opts i a) g.atts 0 encs (by
        intro j a e _ he
        rw [Nat.zero_add] at he ⊢
        exact skippedTransform_declared opts g.numPoints j a e he) (encs_of_full ch g _ opts bs encs hf)

end Draco.KdEnc
