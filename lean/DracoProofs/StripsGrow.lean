import DracoProofs.StripsStore
/-
  DracoProofs.StripsGrow — `GenerateStripsFromCorner` (`Strips.growLoop`, `stripFromCorner`):
  the strip it reports can be walked by `StoreStrip` from the reported start corner as a store
  chain over exactly the reported, pairwise different, previously unvisited faces.

  Needs that `Opposite` is an involution (`OppInv`; true of every corner table, clause I1 of C13).
-/
namespace Draco
namespace Strips

/-- `Opposite(Opposite(c)) == c` whenever `Opposite(c)` is valid -/
def OppInv (cx : Ctx) : Prop := ∀ c o, oget cx.opp c = some o → oget cx.opp o = some c

/-! ### the corners visited by the `while` loop -/

def growCorners (cx : Ctx) : Nat → Nat → Nat → Array Bool → List Nat
  | 0, _, _, _ => []
  | fuel + 1, j, ci, vis =>
    if vis.getD (ci / 3) true then []
    else
      ci :: (match cx.getOpp (zz j ci) with
        | none => []
        | some o => growCorners cx fuel (j + 1) o (vis.setIfInBounds (ci / 3) true))

/-- `start_ci` after the backward pass: the corner of the last face at an even count -/
def backStart (init : Nat) : Nat → List Nat → Nat
  | _, [] => init
  | j, c :: L => backStart (if (j + 1) % 2 = 0 then c else init) (j + 1) L

theorem push_append_toArray (a : Array Nat) (f : Nat) (l : List Nat) :
    a.push f ++ l.toArray = a ++ (f :: l).toArray := by
  apply Array.toList_inj.1
  simp

theorem growLoop_spec (cx : Ctx) (back : Bool) (fuel ci : Nat) (st : Grow) :
    growLoop cx back fuel ci st =
      { visited := markList st.visited ((growCorners cx fuel st.numAdded ci st.visited).map (· / 3))
        strip := st.strip ++ ((growCorners cx fuel st.numAdded ci st.visited).map (· / 3)).toArray
        numAdded := st.numAdded + (growCorners cx fuel st.numAdded ci st.visited).length
        startCi := if back then backStart st.startCi st.numAdded (growCorners cx fuel st.numAdded ci st.visited)
                   else st.startCi } := by
  induction fuel generalizing ci st with
  | zero =>
    cases back <;> simp [growLoop, growCorners, markList, backStart]
  | succ fuel ih =>
    unfold growLoop growCorners
    by_cases hv : st.visited.getD (ci / 3) true = true
    · cases back <;> simp [hv, markList, backStart]
    · simp only [hv, if_false, Bool.false_eq_true]
      have hz : (if st.numAdded + 1 > 1 then
            if (st.numAdded + 1) % 2 = 1 then (nextC ci, st.startCi)
            else (prevC ci, if back = true then ci else st.startCi)
          else (ci, st.startCi)) =
          (zz st.numAdded ci, if back = true ∧ (st.numAdded + 1) % 2 = 0 then ci else st.startCi) := by
        unfold zz
        by_cases h0 : st.numAdded = 0
        · simp [h0]
        · have h1 : st.numAdded + 1 > 1 := by omega
          simp only [h1, if_true, h0, if_false]
          by_cases hp : (st.numAdded + 1) % 2 = 1
          · have : st.numAdded % 2 ≠ 1 := by omega
            have h2 : ¬ (st.numAdded + 1) % 2 = 0 := by omega
            simp [hp, this]
          · have : st.numAdded % 2 = 1 := by omega
            have h2 : (st.numAdded + 1) % 2 = 0 := by omega
            cases back <;> simp [this, h2]
      rw [hz]
      dsimp only
      cases hg : cx.getOpp (zz st.numAdded ci) with
      | none =>
        cases back <;> simp [markList, backStart]
      | some o =>
        dsimp only
        rw [ih]
        dsimp only
        rw [push_append_toArray]
        cases back
        · simp [markList]; omega
        · simp [markList, backStart]; omega

/-! ### properties of the visited corners -/

/-- consecutive corners are linked through `GetOppositeCorner` -/
def GChain (cx : Ctx) : Nat → List Nat → Prop
  | _, [] => True
  | _, [_] => True
  | j, c :: c' :: L => cx.getOpp (zz j c) = some c' ∧ GChain cx (j + 1) (c' :: L)

/-- faces pairwise different and not yet visited (hence existing) -/
def Fresh (vis : Array Bool) (L : List Nat) : Prop :=
  (L.map (· / 3)).Nodup ∧ ∀ c ∈ L, vis.getD (c / 3) true = false

theorem getD_set_false {vis : Array Bool} {f g : Nat}
    (h : (vis.setIfInBounds f true).getD g true = false) : g ≠ f ∧ vis.getD g true = false := by
  simp only [Array.getD_eq_getD_getElem?, Array.getElem?_setIfInBounds] at h
  by_cases hfg : f = g
  · subst hfg
    by_cases hlt : f < vis.size
    · simp [hlt] at h
    · simp [hlt] at h
  · simp only [hfg, if_false] at h
    refine ⟨fun e => hfg e.symm, ?_⟩
    simpa [Array.getD_eq_getD_getElem?] using h

theorem growCorners_props (cx : Ctx) (fuel j ci : Nat) (vis : Array Bool) :
    GChain cx j (growCorners cx fuel j ci vis) ∧ Fresh vis (growCorners cx fuel j ci vis) ∧
    (∀ c, (growCorners cx fuel j ci vis).head? = some c → c = ci) := by
  induction fuel generalizing j ci vis with
  | zero => simp [growCorners, GChain, Fresh]
  | succ fuel ih =>
    unfold growCorners
    by_cases hv : vis.getD (ci / 3) true = true
    · simp [hv, GChain, Fresh]
    · simp only [hv, if_false, Bool.false_eq_true]
      have hv' : vis.getD (ci / 3) true = false := by simpa using hv
      cases hg : cx.getOpp (zz j ci) with
      | none =>
        simp only
        refine ⟨trivial, ⟨by simp, ?_⟩, by simp⟩
        intro c hc
        simp at hc
        subst hc
        exact hv'
      | some o =>
        simp only
        obtain ⟨h1, h2, h3⟩ := ih (j + 1) o (vis.setIfInBounds (ci / 3) true)
        refine ⟨?_, ⟨?_, ?_⟩, by simp⟩
        · cases hL : growCorners cx fuel (j + 1) o (vis.setIfInBounds (ci / 3) true) with
          | nil => trivial
          | cons c' L' =>
            rw [hL] at h1 h3
            have : c' = o := h3 c' rfl
            subst this
            exact ⟨hg, h1⟩
        · rw [List.map_cons, List.nodup_cons]
          refine ⟨?_, h2.1⟩
          intro hmem
          obtain ⟨c', hc', he⟩ := List.mem_map.1 hmem
          have := (getD_set_false (h2.2 c' hc')).1
          exact this he
        · intro c hc
          simp only [List.mem_cons] at hc
          rcases hc with hc | hc
          · subst hc; exact hv'
          · exact (getD_set_false (h2.2 c hc)).2

theorem GChain.toSChain {cx : Ctx} {j : Nat} {L : List Nat} (h : GChain cx j L) : SChain cx j L := by
  induction L generalizing j with
  | nil => trivial
  | cons c L ih =>
    cases L with
    | nil => trivial
    | cons c' L =>
      obtain ⟨h1, h2⟩ := h
      have := getOpp_eq_some.1 h1
      exact ⟨this.1, this.2, ih h2⟩

theorem zz_parity {j j' : Nat} (h1 : j ≠ 0) (h2 : j' ≠ 0) (hp : j % 2 = j' % 2) (c : Nat) : zz j c = zz j' c := by
  unfold zz
  simp only [h1, h2, if_false, hp]

/-- positions only matter through their parity (beyond the first) -/
theorem SChain_parity {cx : Ctx} {j j' : Nat} {L : List Nat} (h1 : j ≠ 0) (h2 : j' ≠ 0) (hp : j % 2 = j' % 2)
    (h : SChain cx j L) : SChain cx j' L := by
  induction L generalizing j j' with
  | nil => trivial
  | cons c L ih =>
    cases L with
    | nil => trivial
    | cons c' L =>
      obtain ⟨a, b, d⟩ := h
      rw [zz_parity h1 h2 hp] at a b
      exact ⟨a, b, ih (by omega) (by omega) (by omega) d⟩

theorem GChain_prefix {cx : Ctx} {j : Nat} {L M : List Nat} (h : GChain cx j (L ++ M)) : GChain cx j L := by
  induction L generalizing j with
  | nil => trivial
  | cons c L ih =>
    cases L with
    | nil => trivial
    | cons c' L =>
      obtain ⟨h1, h2⟩ := h
      exact ⟨h1, ih h2⟩

theorem zz_zz {i j : Nat} (hi : i ≠ 0) (hj : j ≠ 0) (hp : (i + j) % 2 = 1) (b : Nat) : zz i (zz j b) = b := by
  unfold zz
  simp only [hi, hj, if_false]
  by_cases h : j % 2 = 1
  · have : ¬ i % 2 = 1 := by omega
    simp only [h, this, if_true, if_false]
    exact nextC_prevC b
  · have : i % 2 = 1 := by omega
    simp only [h, this, if_true, if_false]
    exact prevC_nextC b

/-! ### walking the backward pass in the forward direction -/

/-- accumulate the exit corners of the backward faces in reverse order -/
def revZ : Nat → List Nat → List Nat → List Nat
  | _, [], acc => acc
  | j, b :: L, acc => revZ (j + 1) L (zz j b :: acc)

theorem revZ_length (j : Nat) (L acc : List Nat) : (revZ j L acc).length = L.length + acc.length := by
  induction L generalizing j acc with
  | nil => simp [revZ]
  | cons b L ih => simp [revZ, ih]; omega

theorem revZ_faces (j : Nat) (L acc : List Nat) :
    (revZ j L acc).map (· / 3) = (L.map (· / 3)).reverse ++ acc.map (· / 3) := by
  induction L generalizing j acc with
  | nil => simp [revZ]
  | cons b L ih => simp [revZ, ih, zz_div]

/-- `Q j b acc`: coming from further back, at any position `i` of the other parity, the walk
    continues through the face of `b` (exit corner `zz j b` of the generator = entry corner of the
    store) and then through `acc` -/
def Q (cx : Ctx) (j b : Nat) (acc : List Nat) : Prop :=
  ∀ i, i ≠ 0 → (i + j) % 2 = 1 → SChain cx i (zz j b :: acc)

theorem revZ_chain {cx : Ctx} (hinv : OppInv cx) (L : List Nat) :
    ∀ (j b : Nat) (acc : List Nat) (e : Nat), GChain cx j (b :: L ++ [e]) → Q cx j b acc → (j = 0 → L = [] → True) →
      ∃ x X, revZ j (b :: L) acc = x :: X ∧
        (∀ i, i ≠ 0 → (i + (j + L.length)) % 2 = 1 → SChain cx i (x :: X)) ∧
        oget cx.opp e = some x ∧ Link cx e x := by
  induction L with
  | nil =>
    intro j b acc e hg hq _
    obtain ⟨h1, _⟩ := hg
    obtain ⟨ho, hl⟩ := getOpp_eq_some.1 h1
    refine ⟨zz j b, acc, rfl, ?_, hinv _ _ ho, hl.symm⟩
    intro i hi hp
    exact hq i hi (by simpa using hp)
  | cons b' L ih =>
    intro j b acc e hg hq _
    obtain ⟨h1, h2⟩ := hg
    obtain ⟨ho, hl⟩ := getOpp_eq_some.1 h1
    have hq' : Q cx (j + 1) b' (zz j b :: acc) := by
      intro i hi hp
      refine ⟨?_, ?_, hq (i + 1) (by omega) (by omega)⟩
      · rw [zz_zz hi (by omega) hp]
        exact hinv _ _ ho
      · rw [zz_zz hi (by omega) hp]
        exact hl.symm
    obtain ⟨x, X, e1, e2, e3, e4⟩ := ih (j + 1) b' (zz j b :: acc) e h2 hq' (fun _ _ => trivial)
    refine ⟨x, X, ?_, ?_, e3, e4⟩
    · simpa [revZ] using e1
    · intro i hi hp
      apply e2 i hi
      simp only [List.length_cons] at hp
      omega

/-! ### the result of GenerateStripsFromCorner -/

theorem backStart_append (init j : Nat) (L : List Nat) (e : Nat) :
    backStart init j (L ++ [e]) = if (j + L.length + 1) % 2 = 0 then e else backStart init j L := by
  induction L generalizing init j with
  | nil => simp [backStart]
  | cons c L ih =>
    simp only [List.cons_append, backStart, ih, List.length_cons]
    have : j + 1 + L.length + 1 = j + (L.length + 1) + 1 := by omega
    rw [this]

/-- the backward corners that remain after the odd last one is dropped -/
def evenPrefix (B : List Nat) : List Nat := if B.length % 2 = 1 then B.dropLast else B

theorem evenPrefix_length_even (B : List Nat) : (evenPrefix B).length % 2 = 0 := by
  unfold evenPrefix
  split
  · simp only [List.length_dropLast]; omega
  · omega

theorem evenPrefix_prefix (B : List Nat) : ∃ M, B = evenPrefix B ++ M := by
  unfold evenPrefix
  split
  · rename_i h
    have hne : B ≠ [] := by intro e; simp [e] at h
    exact ⟨[B.getLast hne], (List.dropLast_concat_getLast hne).symm⟩
  · exact ⟨[], by simp⟩

theorem backStart_evenPrefix (init : Nat) (B : List Nat) :
    backStart init 0 B = ((evenPrefix B).getLast?).getD init := by
  unfold evenPrefix
  split
  · rename_i h
    have hne : B ≠ [] := by intro e; simp [e] at h
    conv => lhs; rw [← List.dropLast_concat_getLast hne]
    rw [backStart_append]
    have hl : (0 + B.dropLast.length + 1) % 2 ≠ 0 := by
      simp only [List.length_dropLast]
      have : B.length ≥ 1 := List.length_pos_iff.2 hne
      omega
    simp only [hl, if_false]
    -- now an even-length list
    have hev : B.dropLast.length % 2 = 0 := by simp only [List.length_dropLast]; omega
    generalize B.dropLast = D at hev
    cases hD : D.getLast? with
    | none =>
      have : D = [] := List.getLast?_eq_none_iff.1 hD
      subst this
      rfl
    | some l =>
      have hne' : D ≠ [] := by intro e; simp [e] at hD
      conv => lhs; rw [← List.dropLast_concat_getLast hne']
      rw [backStart_append]
      have : D.length ≥ 1 := List.length_pos_iff.2 hne'
      have hl' : (0 + D.dropLast.length + 1) % 2 = 0 := by simp only [List.length_dropLast]; omega
      simp only [hl', if_true, Option.getD_some]
      rw [List.getLast?_eq_some_getLast hne'] at hD
      exact Option.some.inj hD
  · rename_i h
    cases hD : B.getLast? with
    | none =>
      have : B = [] := List.getLast?_eq_none_iff.1 hD
      subst this
      rfl
    | some l =>
      have hne' : B ≠ [] := by intro e; simp [e] at hD
      conv => lhs; rw [← List.dropLast_concat_getLast hne']
      rw [backStart_append]
      have : B.length ≥ 1 := List.length_pos_iff.2 hne'
      have hl' : (0 + B.dropLast.length + 1) % 2 = 0 := by simp only [List.length_dropLast]; omega
      simp only [hl', if_true, Option.getD_some]
      rw [List.getLast?_eq_some_getLast hne'] at hD
      exact Option.some.inj hD

end Strips
end Draco

namespace Draco
namespace Strips

/-! ### assembling the chain of `stripFromCorner` -/

/-- freshness in terms of the face list (invariant under permutation) -/
def FreshF (vis : Array Bool) (fs : List Nat) : Prop := fs.Nodup ∧ ∀ f ∈ fs, vis.getD f true = false

theorem fresh_iff (vis : Array Bool) (L : List Nat) : Fresh vis L ↔ FreshF vis (L.map (· / 3)) := by
  unfold Fresh FreshF
  simp

theorem FreshF.perm {vis : Array Bool} {a b : List Nat} (h : FreshF vis a) (p : a.Perm b) : FreshF vis b :=
  ⟨(p.nodup_iff).1 h.1, fun f hf => h.2 f ((p.mem_iff).2 hf)⟩

theorem markList_getD_false {vis : Array Bool} {fs : List Nat} {g : Nat}
    (h : (markList vis fs).getD g true = false) : g ∉ fs ∧ vis.getD g true = false := by
  induction fs generalizing vis with
  | nil => exact ⟨by simp, h⟩
  | cons f fs ih =>
    have h' : (markList (vis.setIfInBounds f true) fs).getD g true = false := h
    obtain ⟨h1, h2⟩ := ih h'
    obtain ⟨h3, h4⟩ := getD_set_false h2
    exact ⟨by simp [h1, h3], h4⟩

/-- faces fresh after marking `fs` are fresh before, and different from `fs` -/
theorem freshF_append {vis : Array Bool} {fs gs : List Nat} (h1 : FreshF vis fs)
    (h2 : FreshF (markList vis fs) gs) : FreshF vis (fs ++ gs) := by
  refine ⟨?_, ?_⟩
  · rw [List.nodup_append]
    refine ⟨h1.1, h2.1, ?_⟩
    intro a ha b hb hab
    subst hab
    exact (markList_getD_false (h2.2 a hb)).1 ha
  · intro f hf
    rcases List.mem_append.1 hf with hf | hf
    · exact h1.2 f hf
    · exact (markList_getD_false (h2.2 f hf)).2

theorem freshF_prefix {vis : Array Bool} {a b : List Nat} (h : FreshF vis (a ++ b)) : FreshF vis a :=
  ⟨(List.nodup_append.1 h.1).1, fun f hf => h.2 f (List.mem_append_left _ hf)⟩

/-- the backward corners that end up in the strip -/
def backCorners (cx : Ctx) (vis : Array Bool) (ci : Nat) : List Nat :=
  match cx.getOpp (prevC ci) with
  | none => []
  | some o =>
    evenPrefix (growCorners cx (cx.faces.size + 1) 0 (nextC o)
      (markList vis ((growCorners cx (cx.faces.size + 1) 0 ci vis).map (· / 3))))

theorem pop_append_toArray (a : Array Nat) (l : List Nat) (h : l ≠ []) :
    (a ++ l.toArray).pop = a ++ l.dropLast.toArray := by
  apply Array.toList_inj.1
  simp [List.dropLast_append_of_ne_nil h]

theorem stripFromCorner_eq (cx : Ctx) (vis : Array Bool) (ci : Nat) :
    stripFromCorner cx vis ci =
      ((((growCorners cx (cx.faces.size + 1) 0 ci vis) ++ backCorners cx vis ci).map (· / 3)).toArray,
        ((backCorners cx vis ci).getLast?).getD ci) := by
  unfold stripFromCorner backCorners
  simp only [growLoop_spec, Bool.false_eq_true, if_false, Nat.zero_add]
  cases hg : cx.getOpp (prevC ci) with
  | none => simp
  | some o =>
    have ho := (getOpp_eq_some.1 hg).1
    simp only [Option.isNone_some, Bool.false_eq_true, if_false, nextC_nextC, ho, Option.map_some, if_true]
    generalize hB : growCorners cx (cx.faces.size + 1) 0 (nextC o)
      (markList vis ((growCorners cx (cx.faces.size + 1) 0 ci vis).map (· / 3))) = B
    rw [backStart_evenPrefix]
    unfold evenPrefix
    by_cases hodd : B.length % 2 = 1
    · have hne : B ≠ [] := by intro e; simp [e] at hodd
      simp only [hodd, if_true]
      congr 1
      rw [Array.append_assoc]
      have : (List.map (fun x => x / 3) B).toArray ≠ #[] := by simp [hne]
      rw [← Array.append_assoc, pop_append_toArray _ _ (by simpa using hne)]
      apply Array.toList_inj.1
      simp [List.map_dropLast]
    · simp only [hodd, if_false]
      congr 1
      apply Array.toList_inj.1
      simp

end Strips
end Draco

namespace Draco
namespace Strips

theorem growCorners_head (cx : Ctx) (fuel j ci : Nat) (vis : Array Bool) (h : vis.getD (ci / 3) true = false) :
    ∃ F', growCorners cx (fuel + 1) j ci vis = ci :: F' := by
  unfold growCorners
  simp only [h, Bool.false_eq_true, if_false]
  exact ⟨_, rfl⟩

/-- **the strip reported by `GenerateStripsFromCorner` is a store chain** from the reported start
    corner over exactly the reported faces, which are pairwise different, previously unvisited, and
    contain the face the search started from -/
theorem stripFromCorner_chain {cx : Ctx} (hinv : OppInv cx) (vis : Array Bool) (ci : Nat)
    (hfresh : vis.getD (ci / 3) true = false) :
    ∃ C : List Nat, C.length = (stripFromCorner cx vis ci).1.size ∧
      C.head? = some (stripFromCorner cx vis ci).2 ∧ SChain cx 0 C ∧ Fresh vis C ∧ ci / 3 ∈ C.map (· / 3) := by
  rw [stripFromCorner_eq]
  obtain ⟨F', hF⟩ := growCorners_head cx cx.faces.size 0 ci vis hfresh
  obtain ⟨hFg, hFf, _⟩ := growCorners_props cx (cx.faces.size + 1) 0 ci vis
  rw [hF] at hFg hFf ⊢
  -- the backward corners
  have hback : backCorners cx vis ci = [] ∨
      ∃ o b L e, cx.getOpp (prevC ci) = some o ∧ backCorners cx vis ci = b :: L ++ [e] ∧ b = nextC o ∧
        L.length % 2 = 0 ∧ GChain cx 0 (b :: L ++ [e]) ∧
        FreshF (markList vis ((ci :: F').map (· / 3))) ((b :: L ++ [e]).map (· / 3)) := by
    unfold backCorners
    cases hg : cx.getOpp (prevC ci) with
    | none => left; rfl
    | some o =>
      simp only
      rw [hF]
      generalize hB : growCorners cx (cx.faces.size + 1) 0 (nextC o) (markList vis ((ci :: F').map (· / 3))) = B
      obtain ⟨hBg, hBf, hBh⟩ := growCorners_props cx (cx.faces.size + 1) 0 (nextC o)
        (markList vis ((ci :: F').map (· / 3)))
      rw [hB] at hBg hBf hBh
      obtain ⟨M, hM⟩ := evenPrefix_prefix B
      have hev := evenPrefix_length_even B
      cases hP : evenPrefix B with
      | nil => left; rfl
      | cons b P =>
        right
        have hPne : P ≠ [] := by
          intro e
          rw [hP, e] at hev
          simp at hev
        have hb : b = nextC o := by
          apply hBh
          rw [hM, hP]
          rfl
        refine ⟨o, b, P.dropLast, P.getLast hPne, rfl, ?_, hb, ?_, ?_, ?_⟩
        · rw [List.cons_append, List.dropLast_concat_getLast hPne]
        · rw [hP] at hev
          simp only [List.length_cons, List.length_dropLast] at hev ⊢
          have : P.length ≥ 1 := List.length_pos_iff.2 hPne
          omega
        · rw [List.cons_append, List.dropLast_concat_getLast hPne, ← hP]
          rw [hM] at hBg
          exact GChain_prefix hBg
        · rw [List.cons_append, List.dropLast_concat_getLast hPne, ← hP]
          have := (fresh_iff _ _).1 hBf
          rw [hM, List.map_append] at this
          exact freshF_prefix this
  rcases hback with hnil | ⟨o, b, L, e, hgo, hB, hb, hLev, hBg, hBf⟩
  · -- forward part only
    rw [hnil]
    refine ⟨ci :: F', by simp, by simp, hFg.toSChain, ?_, by simp⟩
    simpa using hFf
  · rw [hB]
    obtain ⟨hoo, hol⟩ := getOpp_eq_some.1 hgo
    -- the tail: the start face entered through Previous(ci), then the forward faces
    have htail : ∀ i, i ≠ 0 → i % 2 = 0 → SChain cx i (prevC ci :: F') := by
      intro i hi hp
      cases F' with
      | nil => trivial
      | cons d1 F'' =>
        obtain ⟨h1, h2⟩ := hFg
        rw [zz_zero] at h1
        obtain ⟨h1o, h1l⟩ := getOpp_eq_some.1 h1
        have hz : zz i (prevC ci) = ci := by
          unfold zz
          have : ¬ i % 2 = 1 := by omega
          simp only [hi, this, if_false]
          exact nextC_prevC ci
        refine ⟨by rw [hz]; exact h1o, by rw [hz]; exact h1l, ?_⟩
        exact SChain_parity (by omega) (by omega) (by omega) h2.toSChain
    have hq : Q cx 0 b (prevC ci :: F') := by
      intro i hi hp
      rw [zz_zero, hb]
      have hz : zz i (nextC o) = o := by
        unfold zz
        have : i % 2 = 1 := by omega
        simp only [hi, this, if_false, if_true]
        exact prevC_nextC o
      exact ⟨by rw [hz]; exact hinv _ _ hoo, by rw [hz]; exact hol.symm, htail (i + 1) (by omega) (by omega)⟩
    obtain ⟨x, X, e1, e2, e3, e4⟩ := revZ_chain hinv L 0 b (prevC ci :: F') e hBg hq (fun _ _ => trivial)
    refine ⟨e :: revZ 0 (b :: L) (prevC ci :: F'), ?_, ?_, ?_, ?_, ?_⟩
    · simp [revZ_length]
      omega
    · have : (b :: L ++ [e]).getLast? = some e := by
        rw [show b :: L ++ [e] = (b :: L) ++ [e] from rfl, List.getLast?_append]
        simp
      show (e :: revZ 0 (b :: L) (prevC ci :: F')).head? = some ((b :: L ++ [e]).getLast?.getD ci)
      rw [this]
      rfl
    · rw [e1]
      refine ⟨by rw [zz_zero]; exact e3, by rw [zz_zero]; exact e4, ?_⟩
      exact e2 1 (by omega) (by omega)
    · -- same faces as forward ++ backward, up to order
      rw [fresh_iff]
      have hall : FreshF vis (((ci :: F').map (· / 3)) ++ ((b :: L ++ [e]).map (· / 3))) :=
        freshF_append ((fresh_iff _ _).1 hFf) hBf
      apply hall.perm
      simp only [List.map_cons, List.map_append, revZ_faces, prevC_div, List.map_nil]
      -- (ci/3 :: F'f) ++ (b/3 :: Lf ++ [e/3])  ~  e/3 :: (rev (b/3 :: Lf) ++ ci/3 :: F'f)
      have p1 : (ci / 3 :: F'.map (· / 3)) ++ (b / 3 :: (L.map (· / 3) ++ [e / 3])) |>.Perm
          ((b / 3 :: (L.map (· / 3) ++ [e / 3])) ++ (ci / 3 :: F'.map (· / 3))) := List.perm_append_comm
      refine p1.trans ?_
      have p2 : (b / 3 :: (L.map (· / 3) ++ [e / 3])).Perm (e / 3 :: (b / 3 :: L.map (· / 3)).reverse) := by
        have : b / 3 :: (L.map (· / 3) ++ [e / 3]) = (b / 3 :: L.map (· / 3)) ++ [e / 3] := by simp
        rw [this]
        refine List.perm_append_comm.trans ?_
        simp only [List.singleton_append]
        exact List.Perm.cons _ (List.reverse_perm _).symm
      have := List.Perm.append_right (ci / 3 :: F'.map (· / 3)) p2
      simpa using this
    · simp [revZ_faces, prevC_div]

end Strips
end Draco
