import DracoProofs.EbCountsStream
import DracoProofs.EbConnInv
/-
  Size facts about the decoded connectivity for the count theorems, from `decodeConnectivity` itself:
  `decodeConnectivity_stages_nv` — the stages `DecStagesOf mesh co` together with `co.vc.size < 2 ^ 31` (the decoder
  requires `num_encoded_vertices + num_split_symbols < 2^31`, `connLoop` rejects more vertices than that:
  `Eb.connLoop_vc`) and `co.numConnVerts ≤ co.vc.size`; hence `mesh.vc.size ≤ inv` (`hNV`).
-/
namespace Draco.Eb
open Draco Draco.DecM Draco.Robust

/-- the stages of `decodeConnectivity` with the bound on the vertex table -/
def DecStagesNV (mesh : Mesh) : Prop :=
  ∃ co, DecStagesOf mesh co ∧ co.vc.size < 2 ^ 31 ∧ co.numConnVerts ≤ co.vc.size

attribute [local irreducible] Robust.Post

theorem decodeConnectivity_stages_nv : Post decodeConnectivity DecStagesNV := by
  unfold decodeConnectivity
  post_walk
  all_goals
    have hloop := connLoop_vc _ _ _ ‹connLoop _ _ = Except.ok _›
    dsimp only at hloop
    exact ⟨_, ⟨_, _, _, _, ‹connLoop _ _ = Except.ok _›, rfl, rfl, rfl, rfl, by assumption, by assumption⟩,
      Nat.lt_of_le_of_lt hloop.1 (of_decide_eq_true (by assumption)), hloop.2⟩

theorem decodeConnectivity_stages_nv_of_run {s s' : DSt} {mesh : Mesh}
    (h : decodeConnectivity s = (some mesh, s')) : DecStagesNV mesh := by
  have := decodeConnectivity_stages_nv
  unfold Robust.Post at this
  exact this s mesh s' h

/-- **`hNV`**: the vertex table of a decoded mesh fits the index type -/
theorem decodeConnectivity_vc_le {s s' : DSt} {mesh : Mesh} (h : decodeConnectivity s = (some mesh, s')) :
    mesh.vc.size ≤ inv := by
  obtain ⟨co, hst, h1, _⟩ := decodeConnectivity_stages_nv_of_run h
  obtain ⟨_, _, _, _, _, _, _, _, hvc, _⟩ := hst
  rw [hvc]
  unfold inv
  omega

end Draco.Eb
