import DracoProofs.EbDecSim
/-
  M5: the start-face loop `Eb.connStart` on `false` start-face bits only pops the active corner stack, and the compaction
  `Eb.connCompact` is trivial without invalid vertices.
-/
namespace Draco.EbEnc.DecSim
open Draco Draco.EbEnc
open Draco.Eb (inv connStart connCompact ConnMain ConnStart ConnIn ConnOut Trav R)
open Draco.EbEnc.ConnTri (bind_forIn_total FSt Dd T2 yields_Dd)
set_option linter.unusedSimpArgs false

def popN (a : Array Nat) : Nat → Array Nat
  | 0 => a
  | i+1 => (popN a i).pop

theorem popN_size (a : Array Nat) : ∀ i, (popN a i).size = a.size - i
  | 0 => rfl
  | i+1 => by simp [popN, popN_size a i]; omega

/-- the state of the start-face loop after `j` boundary start faces -/
def G2 (m : ConnMain) (tr : Trav) (t0 j : Nat) : FSt :=
  (m.c2v, m.opp, m.hole, popN m.stack j, m.numFaces, T2 t0 j, Dd tr.startFace j, tr.startFaceBits, List.replicate j false)

/-- the result of the start-face loop -/
def startOf (m : ConnMain) : ConnStart :=
  { c2v := m.c2v, opp := m.opp, hole := m.hole,
    tags := T2 (if 1 < m.stack.size then m.tags ||| Eb.tg_components_1 else m.tags) m.stack.size,
    startBits := List.replicate m.stack.size false }

set_option maxRecDepth 100000 in
set_option maxHeartbeats 2000000 in
theorem connStart_ok (ci : ConnIn) (tr : Trav) (hleg : tr.legacy = false) (m : ConnMain) (hnf : m.numFaces = ci.numFaces)
    (hsf : Yields RAnsBitDec.nextBit tr.startFace (List.replicate m.stack.size false)) :
    connStart ci tr m = .ok (startOf m) := by
  unfold connStart
  dsimp only
  simp (config := { maxSteps := 100000000 }) only [gt_iff_lt, hleg, Bool.false_eq_true, ↓reduceIte]
  have hstep : ∀ (j : Nat), j < m.stack.size → (popN m.stack j).isEmpty = false ∧ ¬ popN m.stack j = #[] ∧
      (Dd tr.startFace j).nextBit.1 = false := by
    intro j hj
    have hsz := popN_size m.stack j
    have hne : ¬ popN m.stack j = #[] := by intro e; rw [e] at hsz; simp at hsz; omega
    exact ⟨by rw [Array.isEmpty_eq_false_iff]; exact hne, hne, yields_Dd tr.startFace _ hsf j hj⟩
  by_cases hk2 : 1 < m.stack.size
  · rw [if_pos hk2]
    refine bind_forIn_total m.stack.size _ _ _ (fun j s => s = G2 m tr (m.tags ||| Eb.tg_components_1) j) _ ?_ ?_ ?_
    · simp only [G2, popN, T2, Dd, List.replicate]
    · intro j s hj hI
      subst hI
      refine ⟨_, ?_, rfl⟩
      obtain ⟨a1, a2, a3⟩ := hstep j hj
      simp [G2, a1, a2, a3, T2, Dd, popN, List.replicate_succ, pure, Except.pure]
    · intro s hs
      subst hs
      simp [G2, hnf, startOf, hk2, bind, Except.bind, pure, Except.pure, Eb.raise]
  · rw [if_neg hk2]
    refine bind_forIn_total m.stack.size _ _ _ (fun j s => s = G2 m tr m.tags j) _ ?_ ?_ ?_
    · simp only [G2, popN, T2, Dd, List.replicate]
    · intro j s hj hI
      subst hI
      refine ⟨_, ?_, rfl⟩
      obtain ⟨a1, a2, a3⟩ := hstep j hj
      simp [G2, a1, a2, a3, T2, Dd, popN, List.replicate_succ, pure, Except.pure]
    · intro s hs
      subst hs
      simp [G2, hnf, startOf, hk2, bind, Except.bind, pure, Except.pure, Eb.raise]

/-- the result of the compaction without invalid vertices -/
def compactOf (m : ConnMain) (s : ConnStart) : ConnOut :=
  { c2v := s.c2v, opp := s.opp, vc := m.vc, hole := s.hole, numConnVerts := m.vc.size, tags := s.tags,
    startFaces := s.startBits.reverse }

/-- the compaction without invalid vertices -/
theorem connCompact_ok (ci : ConnIn) (m : ConnMain) (s : ConnStart) (hinv : m.invalid = #[]) :
    connCompact ci m s = .ok (compactOf m s) := by
  unfold connCompact
  simp [hinv, compactOf, bind, Except.bind, pure, Except.pure, Eb.raise]

end Draco.EbEnc.DecSim
