import DracoProofs.EbBasic
import DracoProofs.EbTraversalInv
import DracoProofs.EbPredictSize
import DracoProofs.RobustValid
/-
  C03 for the Edgebreaker body decoder `Eb.decodeEdgebreaker`: what an accepted stream — corrupted
  ones included — guarantees about the returned geometry.
-/
namespace Draco.Eb
open Draco Draco.DecM Draco.Robust

/-! ### `UpdatePointToAttributeIndexMapping`: every entry is a value of the vertex → value map -/

/-- entries written by the corner loop: below `np` and taken from `v2d` -/
def FromV2d (np : Nat) (v2d : Array Nat) (e : Nat) : Prop := e < np ∧ ∃ i, ∃ h : i < v2d.size, e = v2d[i]

def MapOkV (np : Nat) (v2d m : Array Nat) : Prop :=
  m.size = np ∧ ∀ p (hp : p < m.size), m[p] = inv ∨ FromV2d np v2d m[p]

theorem pointToValueStep_okV {t : TView} {faces : Array Nat} {np : Nat} {v2d : Array Nat} {c : Nat}
    {m m' : Array Nat} (h : pointToValueStep t faces np v2d c m = .ok m') :
    ∃ (hc : c < faces.size) (e : Nat), faces[c] < np ∧ FromV2d np v2d e ∧ m' = m.setIfInBounds faces[c] e := by
  unfold pointToValueStep at h
  simp only [bind, Except.bind] at h
  split at h
  · simp at h
  · rename_i pt hpt
    obtain ⟨hc, hv⟩ := rd_ok hpt
    split at h
    · simp at h
    · rename_i v _
      split at h
      · simp [throw, throwThe, MonadExceptOf.throw] at h
      · split at h
        · simp at h
        · rename_i e he
          obtain ⟨hi, hev⟩ := rd_ok he
          split at h
          · simp [throw, throwThe, MonadExceptOf.throw] at h
          · rename_i hcond
            simp only [Bool.or_eq_true, decide_eq_true_eq, not_or, Nat.not_le] at hcond
            refine ⟨hc, e, ?_, ⟨hcond.2, v, hi, hev.symm⟩, ?_⟩
            · rw [hv]; exact hcond.1
            · simp only [pure, Except.pure, Except.ok.injEq] at h
              rw [hv]; exact h.symm

theorem MapOkV.set {np : Nat} {v2d m : Array Nat} (hm : MapOkV np v2d m) (p e : Nat) (he : FromV2d np v2d e) :
    MapOkV np v2d (m.setIfInBounds p e) := by
  refine ⟨by simpa using hm.1, ?_⟩
  intro q hq
  have hq' : q < m.size := by simpa using hq
  by_cases hpq : p = q
  · subst hpq
    right
    simpa using he
  · have := hm.2 q hq'
    simpa [Array.getElem_setIfInBounds, hpq, hq'] using this

theorem pointToValueLoop_okV {t : TView} {faces : Array Nat} {np : Nat} {v2d : Array Nat} :
    ∀ (n c : Nat) (m m' : Array Nat), MapOkV np v2d m →
      pointToValueLoop t faces np v2d n c m = .ok m' → MapOkV np v2d m' := by
  intro n
  induction n with
  | zero =>
    intro c m m' hm h
    simp only [pointToValueLoop, pure, Except.pure, Except.ok.injEq] at h
    subst h
    exact hm
  | succ n ih =>
    intro c m m' hm h
    simp only [pointToValueLoop, bind, Except.bind] at h
    split at h
    · simp at h
    · rename_i m1 hstep
      obtain ⟨hc, e, hf, he, hm1⟩ := pointToValueStep_okV hstep
      exact ih (c + 1) m1 m' (by rw [hm1]; exact hm.set _ _ he) h

/-- `pointToValueMap` on the success path: one entry per point, every entry a value of `v2d` below
    `np`; every face corner is a point below `np` -/
theorem pointToValueMap_okV {t : TView} {faces : Array Nat} {np : Nat} {v2d m : Array Nat}
    (h : pointToValueMap t faces np v2d = .ok m) :
    m.size = np ∧ (∀ p (hp : p < m.size), FromV2d np v2d m[p]) ∧
    (∀ k, k < 3 * t.numFaces → ∃ hk : k < faces.size, faces[k] < np) ∧ (0 < np → 0 < t.numFaces) := by
  have h0 := pointToValueMap_ok h
  refine ⟨h0.1, ?_, h0.2.2, ?_⟩
  rotate_left
  · intro hnp
    rcases Nat.eq_zero_or_pos t.numFaces with h0f | h0f
    · exfalso
      unfold pointToValueMap at h
      rw [h0f] at h
      simp only [pointToValueLoop, bind, Except.bind, pure, Except.pure] at h
      split at h
      · cases h
      · rename_i hn
        apply hn
        rw [Array.any_eq_true]
        exact ⟨0, by simpa using hnp, by simp⟩
    · exact h0f
  unfold pointToValueMap at h
  simp only [bind, Except.bind] at h
  split at h
  · cases h
  · rename_i m0 hloop
    have hm := pointToValueLoop_okV (3 * t.numFaces) 0 _ m0
      (⟨by simp, fun p hp => Or.inl (by simp)⟩ : MapOkV np v2d (Array.replicate np inv)) hloop
    by_cases hany : (m0.any fun x => x == inv) = true
    · simp [hany, raise] at h
    · simp only [hany, Bool.false_eq_true, if_false, pure, Except.pure, Except.ok.injEq] at h
      subst h
      intro p hp
      rcases hm.2 p hp with hi | hv
      · exfalso
        apply hany
        rw [Array.any_eq_true]
        exact ⟨p, hp, by simp [hi]⟩
      · exact hv

/-! ### the instrumented monad -/

theorem liftR_ok {α} {r : R α} {a : α} {s s' : DSt} (h : liftR r s = (some a, s')) : r = .ok a := by
  unfold liftR at h
  split at h
  · simp only [DecM.ret] at h; cases h; rfl
  · simp [DecM.fail] at h
  · simp [DecM.failWith] at h
  · simp [DecM.failWith] at h
  · simp [DecM.failWith] at h

theorem post_liftR {α} (r : R α) : Post (liftR r) (fun a => r = .ok a) :=
  fun _ _ _ h => liftR_ok h

theorem post_liftR_of {α} {r : R α} {Q : α → Prop} (h : ∀ a, r = .ok a → Q a) : Post (liftR r) Q :=
  post_mono (post_liftR r) h

theorem post_tag {β} (t : String) {f : Unit → DecM β} {Q : β → Prop} (hf : Post (f ()) Q) :
    Post (DecM.tag t >>= f) Q := post_bind_any (fun _ => hf)

/-! ### integer values: as many as entries × components -/

theorem readCodedValuesEb_length (pre20 : Bool) (ne nc : Nat) (hne : 0 < ne) (hnc : 0 < nc) :
    Post (readCodedValuesEb pre20 (ne * nc) nc) (fun raw => raw.length = ne * nc) := by
  unfold readCodedValuesEb
  apply post_bind_any; intro compressed
  apply post_ite <;> intro _
  · exact post_symbolsV _ ne nc
  · apply post_bind_any; intro numBytes
    apply post_ite <;> intro hnb
    · refine post_bind (post_bytes (4 * (ne * nc))) (fun b hb => ?_)
      apply post_pure
      exact leGroups_length 4 (ne * nc) (by omega) b (by rw [hb]; omega)
    · apply post_bind_any; intro _
      apply post_bind_any; intro rem
      apply post_bind_any; intro _
      apply post_ite <;> intro hz
      · apply post_pure
        simp
      · refine post_bind (post_bytes (numBytes * (ne * nc))) (fun b hb => ?_)
        apply post_pure
        have : 0 < numBytes := by
          rcases Nat.eq_zero_or_pos numBytes with h | h
          · simp [h] at hz
          · exact h
        exact leGroups_length numBytes (ne * nc) this b (by rw [hb]; exact Nat.mul_comm _ _)

theorem post_bind_liftR {α β} {r : R α} {f : α → DecM β} {Q : β → Prop}
    (hf : ∀ a, r = .ok a → Post (f a) Q) : Post (liftR r >>= f) Q :=
  post_bind (post_liftR r) hf

attribute [local irreducible] Robust.Post

/-- walks along a `do` block: `liftR` results are kept as hypotheses, every other bind is skipped -/
macro "post_walk" : tactic =>
  `(tactic| repeat' (first
      | exact post_fail
      | exact post_failWith
      | apply post_pure
      | (apply post_bind_liftR; intro _ _)
      | (apply post_bind_require; intro _)
      | (apply post_bind_any; intro _)
      | (apply post_ite <;> intro _)))

theorem applySchemeEb_size (ver : Nat) (scheme : Scheme) (nc ne : Nat) (md : MeshData) (pos : PosSource)
    (posF : PosSourceF) (vals : Array Int) (hnc : 0 < nc) (hv : vals.size = ne * nc) :
    Post (applySchemeEb ver scheme md pos posF nc vals) (fun r => r.size = vals.size) := by
  unfold applySchemeEb
  cases scheme
  all_goals simp only []
  all_goals post_walk
  all_goals (try (first
    | rfl
    | exact parallelogramDecode_ok (by assumption)
    | exact multiParallelogramDecode_ok (by assumption)
    | exact constrainedMultiDecode_ok (by assumption)
    | exact texCoordsDecode_ok (by assumption)
    | exact geometricNormalDecode_ok (by assumption)
    | exact post_liftR_of (fun _ h => deltaDecodeWrap_ok h)
    | exact post_liftR_of (fun _ h => texCoordsDeprecatedDecode_ok h)))
  all_goals
    rw [List.size_toArray, deltaDecode_length _ nc ne hnc (fun p cr hp hc => ?_) _ (by simpa using hv), hv]
    split
    · simp at hc ⊢; omega
    · exact hc

theorem decodeIntegerValuesEb_size (kind ne nc ac : Nat) (md : MeshData) (pointIds : Array Nat) (parent : Option Parent) :
    Post (decodeIntegerValuesEb kind ne nc ac md pointIds parent) (fun r => r.1.size = ne * nc ∧ 0 < ne ∧ 0 < nc) := by
  unfold decodeIntegerValuesEb
  apply post_bind_any; intro ver
  apply post_bind_any; intro sel
  obtain ⟨scheme, unsupp⟩ := sel
  simp only []
  apply post_ite <;> intro _
  · exact post_failWith
  apply post_bind_any; intro par
  obtain ⟨pos, posF, unsupp2⟩ := par
  simp only []
  apply post_ite <;> intro _
  · exact post_failWith
  have tail : ∀ tr : TransformData, Post (do
      require (decide (nc > 0))
      alloc "integer_decoder.portable_attribute" (4 * (ne * nc))
      require (decide (ne > 0))
      let raw ← readCodedValuesEb (decide (ver < bsVersion 2 0)) (ne * nc) nc
      let out ← applySchemeEb ver scheme md pos posF nc
        (if scheme.isOcta = true then (List.map (toSigned 32) raw).toArray else (List.map ofSymbol raw).toArray)
      pure (out, tr)) (fun r => r.1.size = ne * nc ∧ 0 < ne ∧ 0 < nc) := by
    intro tr
    apply post_bind_require; intro hnc
    have hnc : 0 < nc := by simpa using hnc
    apply post_bind_any; intro _
    apply post_bind_require; intro hne
    have hne : 0 < ne := by simpa using hne
    refine post_bind (readCodedValuesEb_length _ ne nc hne hnc) (fun raw hlen => ?_)
    have hsz : (if scheme.isOcta = true then (List.map (toSigned 32) raw).toArray
        else (List.map ofSymbol raw).toArray).size = ne * nc := by
      split <;> simp [hlen]
    refine post_bind (applySchemeEb_size ver scheme nc ne md pos posF _ hnc hsz) (fun out hout => ?_)
    apply post_pure
    exact ⟨by rw [hout, hsz], hne, hnc⟩
  apply post_ite <;> intro _
  · apply post_bind_any; intro tr
    exact tail tr
  · apply post_bind_pure
    exact tail _

/-! ### per-attribute states -/

/-- after `DecodeAttributesDecoderData` -/
def D1 (s : EbAttState) : Prop := Robust.S1 s.toSeq

/-- after the decoder of the attribute has run, `np` = number of points of the mesh -/
def AttOK (np : Nat) (s : EbAttState) : Prop :=
  Robust.S2 s.numValues s.toSeq ∧ s.map.size = np ∧ ∀ p (h : p < s.map.size), s.map[p] < s.numValues

/-- the point → value map of a decoder: one entry per point, every entry below the number of values -/
def MapFacts (np ne : Nat) (m : Array Nat) : Prop := m.size = np ∧ ∀ p (h : p < m.size), m[p] < ne

theorem decodeDecoderDescs_post (i : Nat) : Post (decodeDecoderDescs i) (fun l => ∀ s ∈ l, D1 s) := by
  unfold decodeDecoderDescs
  refine post_bind decodeAttDescs_post (fun descs hd => ?_)
  apply post_bind_any; intro _
  refine post_mono (post_mapM' _ DescOk D1 (fun d hdok => ?_) descs hd) (fun l h => h.2)
  apply post_bind_any; intro dt
  apply post_bind_require; intro hdt
  have hdt : dt ≤ 3 := by simpa using hdt
  have h9 : Generated.DT_FLOAT32.toNat = 9 := by decide
  extract_lets jpIn jpOut
  have hIn : ∀ u, (dt = 2 → d.dataType = 9) → (dt = 3 → d.numComponents = 3 ∧ d.dataType = 9) → Post (jpIn u) D1 := by
    intro u h2 h3
    simp -zeta only [jpIn]
    exact post_pure ⟨hdok, hdt, h2, h3⟩
  have hOut : ∀ u, (dt = 2 → d.dataType = 9) → Post (jpOut u) D1 := by
    intro u h2
    simp -zeta only [jpOut]
    apply post_ite <;> intro hc
    · apply post_bind_require; intro hr
      refine hIn () h2 (fun _ => ?_)
      simpa [h9] using hr
    · exact hIn () h2 (fun h => by simp [h] at hc)
  apply post_ite <;> intro hc
  · apply post_bind_require; intro hr
    refine hOut () (fun _ => ?_)
    simpa [h9] using hr
  · exact hOut () (fun h => by simp [h] at hc)

theorem decodePortable_post (ver : Nat) (skip : List Nat) (posAtt : Option Nat) (all : Array EbAttState)
    (md : MeshData) (pointIds m : Array Nat) (done : List EbAttState) (s0 : EbAttState) (np : Nat)
    (hs : D1 s0) (hm : MapFacts np pointIds.size m) :
    Post (decodePortable ver skip posAtt all md pointIds m done s0) (AttOK np) := by
  unfold decodePortable
  obtain ⟨hdesc, hty, ht2, ht3⟩ := hs
  extract_lets numEntries s stride nc parent
  apply post_bind_any; intro _
  apply post_ite <;> intro hc
  · refine post_bind (post_bytes (numEntries * stride)) (fun b hb => ?_)
    apply post_pure
    have hc0 : s0.decoderType = 0 := by simpa [s] using hc
    refine ⟨⟨⟨hdesc, hty, ht2, ht3⟩, fun _ => hb, fun h => (h hc0).elim⟩, hm.1, hm.2⟩
  · have hc0 : s0.decoderType ≠ 0 := by simpa [s] using hc
    refine post_bind (decodeIntegerValuesEb_size _ numEntries nc _ md pointIds parent) (fun r hr => ?_)
    obtain ⟨vals, tr⟩ := r
    simp only [] at hr ⊢
    have hport : vals.toList.length = numEntries * (if (s0.decoderType == 3) = true then 2 else s0.desc.numComponents) := by
      simpa [nc, s] using hr.1
    apply post_ite <;> intro _
    · apply post_bind_any; intro _
      apply post_pure
      exact ⟨⟨⟨hdesc, hty, ht2, ht3⟩, fun h => (hc0 h).elim, fun _ => hport⟩, hm.1, hm.2⟩
    · apply post_pure
      exact ⟨⟨⟨hdesc, hty, ht2, ht3⟩, fun h => (hc0 h).elim, fun _ => hport⟩, hm.1, hm.2⟩

theorem decodePortables_post (ver : Nat) (skip : List Nat) (posAtt : Option Nat) (all : Array EbAttState)
    (md : MeshData) (pointIds m : Array Nat) (done : List EbAttState) (np : Nat)
    (hm : MapFacts np pointIds.size m) :
    ∀ (mine acc : List EbAttState), (∀ s ∈ mine, D1 s) → (∀ s ∈ acc, AttOK np s) →
      Post (decodePortables ver skip posAtt all md pointIds m done mine acc)
        (fun l => l.length = acc.length + mine.length ∧ ∀ s ∈ l, AttOK np s) := by
  intro mine
  induction mine with
  | nil =>
    intro acc _ hacc
    simp only [decodePortables]
    exact post_pure ⟨by simp, hacc⟩
  | cons s rest ih =>
    intro acc hmine hacc
    simp only [decodePortables]
    refine post_bind (decodePortable_post ver skip posAtt all md pointIds m (done ++ acc) s np
      (hmine s (by simp)) hm) (fun s' hs' => ?_)
    refine post_mono (ih (acc ++ [s']) (fun x hx => hmine x (by simp [hx])) ?_) ?_
    · intro x hx
      rcases List.mem_append.mp hx with h | h
      · exact hacc x h
      · simp at h; subst h; exact hs'
    · intro l hl
      refine ⟨?_, hl.2⟩
      rw [hl.1]; simp; omega

theorem decodeDataNeeded_post (ver np : Nat) (s : EbAttState) (hs : AttOK np s) :
    Post (decodeDataNeeded ver s) (AttOK np) := by
  unfold decodeDataNeeded
  apply post_ite <;> intro _
  · apply post_bind_any; intro tr
    apply post_ite <;> intro _
    · exact post_pure hs
    · exact post_pure hs
  · exact post_pure hs

theorem transformCheck_post (opts : DecOpts) (ver np : Nat) (s : EbAttState) (hs : AttOK np s) :
    Post (transformCheck opts ver s) (AttOK np) := by
  unfold transformCheck
  extract_lets jp
  have hjp : ∀ u, Post (jp u) (AttOK np) := by
    intro u
    simp -zeta only [jp]
    exact post_pure hs
  apply post_ite <;> intro _
  · apply post_bind_any; intro u
    exact hjp u
  · exact hjp ()

/-! ### one attributes decoder -/

/-- attribute corner tables have vertices only if the base table has -/
def MeshLm (mesh : Mesh) : Prop := ∀ i : Nat, 1 ≤ (mesh.atts[i]! : AttConn).lm.size → 1 ≤ mesh.vc.size

/-- every corner of every face is a point of the mesh -/
def FacesOK (mesh : Mesh) : Prop :=
  ∀ k, k < 3 * mesh.numFaces → ∃ hk : k < mesh.faces.size, mesh.faces[k] < mesh.numPoints

/-- the map of a decoder from the traversal result and `UpdatePointToAttributeIndexMapping` -/
theorem mapFacts_of (np : Nat) (seq : SeqOut) (m : Array Nat)
    (hinv : SInv seq) (hne : 1 ≤ np → 1 ≤ seq.v2d.size → 1 ≤ seq.d2c.size)
    (hsz : m.size = np) (hfrom : ∀ p (hp : p < m.size), FromV2d np seq.v2d m[p]) :
    MapFacts np seq.pointIds.size m := by
  refine ⟨hsz, fun p hp => ?_⟩
  obtain ⟨_, i, hi, he⟩ := hfrom p hp
  rw [he, hinv.1]
  rcases hinv.2 i hi with h0 | hlt
  · rw [h0]
    exact hne (by omega) (by omega)
  · exact hlt

theorem decodeOneDecoder_post (opts : DecOpts) (ver : Nat) (mesh : Mesh) (posAtt : Option Nat) (all : Array EbAttState)
    (i : Nat) (dec : AttDecoder) (mine done : List EbAttState) (hlm : MeshLm mesh)
    (hmine : ∀ s ∈ mine, D1 s) (hdone : ∀ s ∈ done, AttOK mesh.numPoints s) :
    Post (decodeOneDecoder opts ver mesh posAtt all i dec mine done)
      (fun l => (∀ s ∈ l, AttOK mesh.numPoints s) ∧ l.length = done.length + mine.length ∧
        (mine ≠ [] → FacesOK mesh)) := by
  unfold decodeOneDecoder
  extract_lets view
  apply post_bind_any; intro _
  apply post_bind_liftR; intro seq hseq
  apply post_bind_any; intro _
  -- facts about the sequence
  have hvnf : view.numFaces = mesh.numFaces := by
    simp only [view, viewOfDecoder]; split <;> rfl
  have hseqok : SInv seq ∧ seq.v2d.size = (if dec.attDataId < 0 then mesh.vc.size
        else max (mesh.atts[dec.attDataId.toNat]! : AttConn).lm.size mesh.vc.size) ∧
      (1 ≤ mesh.numFaces → 1 ≤ seq.v2d.size → 1 ≤ seq.d2c.size) := by
    unfold sequenceOfDecoder at hseq
    dsimp only at hseq
    split at hseq
    · rename_i hc
      have hcd : dec.cornerDecoder = false := by
        simp only [Bool.and_eq_true, Bool.not_eq_true'] at hc
        exact hc.1
      have hview : viewOfDecoder mesh dec =
          { c2v := mesh.c2v, opp := mesh.opp, seam := #[], lm := mesh.vc, isAtt := false, numFaces := mesh.numFaces } := by
        unfold viewOfDecoder; simp [hcd]
      rw [hview] at hseq
      obtain ⟨h1, h2, h3⟩ := maxPredictionDegree_ok _ _ _ _ hseq
      refine ⟨h1, h2, fun hnf hv => h3 hnf ?_⟩
      show 1 ≤ mesh.vc.size
      rw [h2] at hv
      split at hv
      · exact hv
      · rcases Nat.le_total (mesh.atts[dec.attDataId.toNat]! : AttConn).lm.size mesh.vc.size with hle | hle
        · rw [Nat.max_eq_right hle] at hv; exact hv
        · rw [Nat.max_eq_left hle] at hv; exact hlm _ hv
    · obtain ⟨h1, h2, h3⟩ := depthFirst_ok _ _ _ _ hseq
      exact ⟨h1, h2, fun hnf _ => h3 (by rw [hvnf]; exact hnf)⟩
  extract_lets md jpB jpA
  have hB : ∀ m, (mine = [] ∨ (MapFacts mesh.numPoints seq.pointIds.size m ∧ FacesOK mesh)) →
      Post (jpB m) (fun l => (∀ s ∈ l, AttOK mesh.numPoints s) ∧
        l.length = done.length + mine.length ∧ (mine ≠ [] → FacesOK mesh)) := by
    intro m hm
    simp -zeta only [jpB]
    rcases hm with hnil | hm
    · subst hnil
      simp only [decodePortables]
      apply post_bind_pure
      simp only [mapM']
      apply post_bind_pure
      apply post_bind_pure
      apply post_pure
      exact ⟨by simpa using hdone, by simp, fun h => (h rfl).elim⟩
    · refine post_bind (decodePortables_post ver opts.skip posAtt all md seq.pointIds m done mesh.numPoints hm.1
        mine [] hmine (by simp)) (fun mine1 h1 => ?_)
      refine post_bind (post_mapM' _ (AttOK mesh.numPoints) (AttOK mesh.numPoints)
        (fun s hs => decodeDataNeeded_post ver _ s hs) mine1 h1.2) (fun mine2 h2 => ?_)
      refine post_bind (post_mapM' _ (AttOK mesh.numPoints) (AttOK mesh.numPoints)
        (fun s hs => transformCheck_post opts ver _ s hs) mine2 h2.2) (fun mine3 h3 => ?_)
      apply post_pure
      refine ⟨?_, ?_, fun _ => hm.2⟩
      · intro s hs
        rcases List.mem_append.mp hs with h | h
        · exact hdone s h
        · exact h3.2 s h
      · simp only [List.length_append, h3.1, h2.1, h1.1]
        simp
  have hA : ∀ u, Post (jpA u) (fun l => (∀ s ∈ l, AttOK mesh.numPoints s) ∧
      l.length = done.length + mine.length ∧ (mine ≠ [] → FacesOK mesh)) := by
    intro u
    simp -zeta only [jpA]
    apply post_ite <;> intro hemp
    · apply post_bind_pure
      exact hB _ (Or.inl (by simpa using hemp))
    · apply post_bind_any; intro _
      apply post_bind_liftR; intro m hmap
      obtain ⟨h1, h2, h3, h4⟩ := pointToValueMap_okV hmap
      refine hB m (Or.inr ⟨mapFacts_of _ seq m hseqok.1 (fun hnp hv => hseqok.2.2 ?_ hv) h1 h2, ?_⟩)
      · have := h4 (by omega)
        rw [hvnf] at this; exact this
      · intro k hk
        exact h3 k (by rw [hvnf]; exact hk)
  apply post_ite <;> intro _
  · apply post_bind_any; intro u
    exact hA u
  · exact hA ()

/-! ### all attributes decoders, the final attributes -/

/-- what holds of the attributes decoded so far -/
def Done (mesh : Mesh) (done : List EbAttState) : Prop :=
  (∀ s ∈ done, AttOK mesh.numPoints s) ∧ (done ≠ [] → FacesOK mesh)

theorem decodeDecoders_post (opts : DecOpts) (ver : Nat) (mesh : Mesh) (posAtt : Option Nat) (all : Array EbAttState)
    (hlm : MeshLm mesh) :
    ∀ (work : List (Nat × AttDecoder × List EbAttState)) (done : List EbAttState),
      (∀ w ∈ work, ∀ s ∈ w.2.2, D1 s) → Done mesh done →
      Post (decodeDecoders opts ver mesh posAtt all work done) (Done mesh) := by
  intro work
  induction work with
  | nil =>
    intro done _ hd
    simp only [decodeDecoders]
    exact post_pure hd
  | cons w rest ih =>
    intro done hw hd
    obtain ⟨i, dec, mine⟩ := w
    simp only [decodeDecoders]
    refine post_bind (decodeOneDecoder_post opts ver mesh posAtt all i dec mine done hlm
      (hw (i, dec, mine) (by simp)) hd.1) (fun done' h' => ?_)
    refine ih done' (fun x hx => hw x (by simp [hx])) ⟨h'.1, fun hne => ?_⟩
    by_cases hm : mine = []
    · subst hm
      have : done ≠ [] := by
        intro hd0; subst hd0
        have := h'.2.1
        simp at this
        exact hne this
      exact hd.2 this
    · exact h'.2.2 hm

theorem valid_of_map (a : Attribute) (np : Nat) (m : List Nat) (h1 : 1 ≤ a.numComponents)
    (h2 : 1 ≤ dataTypeLength a.dataType)
    (h3 : a.numValues * (dataTypeLength a.dataType * a.numComponents) ≤ a.values.length)
    (h4 : a.map = some m) (h5 : m.length = np) (h6 : ∀ x ∈ m, x < a.numValues) : a.valid np = true := by
  unfold Attribute.valid Attribute.stride
  rw [h4]
  simp only [ge_iff_le, Bool.and_eq_true, decide_eq_true_eq, beq_iff_eq, List.all_eq_true]
  exact ⟨⟨⟨h1, h2⟩, h3⟩, h5, h6⟩

/-- the final step: `finishSeqAttribute` with the explicit map of an Edgebreaker attribute -/
theorem finishEb_post (opts : DecOpts) (s : EbAttState) (np : Nat) (hs : AttOK np s) :
    Post (finishSeqAttribute opts s.toSeq s.numValues (some s.map.toList)) (fun a => a.valid np = true) := by
  obtain ⟨hs2, hmsz, hment⟩ := hs
  have hml : s.map.toList.length = np := by simpa using hmsz
  have hme : ∀ x ∈ s.map.toList, x < s.numValues := by
    intro x hx
    rw [Array.mem_toList_iff, Array.mem_iff_getElem] at hx
    obtain ⟨i, hi, rfl⟩ := hx
    exact hment i hi
  unfold finishSeqAttribute
  dsimp only
  have h5 : Generated.DT_INT32.toNat = 5 := by decide
  obtain ⟨⟨⟨hnc, hdt1, hdt12⟩, hty, ht2, ht3⟩, hraw, hport⟩ := hs2
  have hdtl := dataTypeLength_pos _ hdt1 hdt12
  apply post_ite <;> intro hc0
  · apply post_pure
    simp only [beq_iff_eq] at hc0
    exact valid_of_map _ np _ hnc hdtl (by simp only [AttDesc.toAttribute]; rw [hraw hc0]) rfl hml hme
  have hc0' : s.toSeq.decoderType ≠ 0 := by simpa using hc0
  have hp := hport hc0'
  apply post_ite <;> intro _
  · apply post_pure
    have hnc2 : 1 ≤ (if (s.toSeq.decoderType == 3) = true then 2 else s.toSeq.desc.numComponents) := by split <;> omega
    refine valid_of_map _ np _ hnc2 (by simp only [h5]; decide) ?_ rfl hml hme
    simp only [h5]
    rw [map_flatten_length (intToLE 4) 4 (intToLE_length 4), hp]
    have : dataTypeLength 5 = 4 := by decide
    rw [this, Nat.mul_comm 4, ← Nat.mul_assoc]
  split
  · rename_i h1'
    apply post_pure
    refine valid_of_map _ np _ hnc hdtl ?_ rfl hml hme
    simp only [AttDesc.toAttribute]
    rw [map_flatten_length (intToLE _) _ (intToLE_length _), hp]
    have : (s.toSeq.decoderType == 3) = false := by simp [h1']
    simp only [this, Bool.false_eq_true, if_false]
    rw [Nat.mul_comm (dataTypeLength _), ← Nat.mul_assoc]
  · rename_i h2'
    split
    · apply post_pure
      refine valid_of_map _ np _ hnc hdtl ?_ rfl hml hme
      simp only [AttDesc.toAttribute]
      rw [dequantAll_flatten_length, hp]
      have : (s.toSeq.decoderType == 3) = false := by simp [h2']
      simp only [this, Bool.false_eq_true, if_false, ht2 h2']
      have : dataTypeLength 9 = 4 := by decide
      rw [this, Nat.mul_comm 4, ← Nat.mul_assoc]
    · exact post_fail
  · rename_i hn1 hn2
    have hn1' : s.toSeq.decoderType ≠ 1 := hn1
    have hn2' : s.toSeq.decoderType ≠ 2 := hn2
    have h3' : s.toSeq.decoderType = 3 := by omega
    split
    · apply post_pure
      refine valid_of_map _ np _ hnc hdtl ?_ rfl hml hme
      simp only [AttDesc.toAttribute]
      have : (s.toSeq.decoderType == 3) = true := by simp [h3']
      simp only [this, if_true] at hp
      rw [octaAll_flatten_length _ s.numValues _ (by rw [hp]; exact Nat.mul_comm _ _)]
      simp only [(ht3 h3').1, (ht3 h3').2]
      have : dataTypeLength 9 = 4 := by decide
      rw [this]
    · exact post_fail

theorem decodeAttributes_post (opts : DecOpts) (ver : Nat) (mesh : Mesh) (hlm : MeshLm mesh) :
    Post (decodeAttributes opts ver mesh)
      (fun atts => (∀ a ∈ atts, a.valid mesh.numPoints = true) ∧ (atts ≠ [] → FacesOK mesh)) := by
  unfold decodeAttributes
  apply post_bind_any; intro rem0
  apply post_bind_any; intro _
  apply post_bind_any; intro numDecoders
  apply post_bind_any; intro decoders
  apply post_bind_any; intro _
  refine post_bind (post_mapM' decodeDecoderDescs (fun _ => True) (fun l => ∀ s ∈ l, D1 s)
    (fun i _ => decodeDecoderDescs_post i) (List.range numDecoders) (fun _ _ => trivial)) (fun descLists hdl => ?_)
  extract_lets all posAtt work
  have hwork : ∀ w ∈ work, ∀ s ∈ w.2.2, D1 s := by
    intro w hw s hs
    obtain ⟨i, dec, mine⟩ := w
    have h1 := (List.of_mem_zip hw).2
    have h2 := (List.of_mem_zip h1).2
    exact hdl.2 mine h2 s hs
  refine post_bind (decodeDecoders_post opts ver mesh posAtt all hlm work [] hwork ⟨by simp, fun h => (h rfl).elim⟩)
    (fun done hdone => ?_)
  refine post_mono (post_mapM' _ (AttOK mesh.numPoints) (fun a => a.valid mesh.numPoints = true)
    (fun s hs => finishEb_post opts s mesh.numPoints hs) done hdone.1) (fun atts h => ⟨h.2, fun hne => ?_⟩)
  apply hdone.2
  intro hd0
  rw [hd0] at h
  simp at h
  exact hne h.1

/-! ### the connectivity result -/

theorem list_mapM_ok {α β : Type} (f : α → R β) : ∀ (l : List α) (r : List β), l.mapM f = .ok r →
    ∀ y ∈ r, ∃ x ∈ l, f x = .ok y := by
  intro l
  induction l with
  | nil =>
    intro r h
    simp [List.mapM_nil, pure, Except.pure] at h
    subst h; simp
  | cons a as ih =>
    intro r h
    rw [List.mapM_cons] at h
    simp only [bind, Except.bind, pure, Except.pure] at h
    split at h
    · cases h
    · rename_i b hb
      split at h
      · cases h
      · rename_i bs hbs
        cases h
        intro y hy
        rcases List.mem_cons.mp hy with rfl | hy
        · exact ⟨a, by simp, hb⟩
        · obtain ⟨x, hx, hfx⟩ := ih bs hbs y hy
          exact ⟨x, by simp [hx], hfx⟩

theorem mapM_buildAttConn_lm (c2v opp vc : Array Nat) (seams : Array (Array Nat)) (atts : Array AttConn)
    (h : seams.mapM (fun sc => buildAttConn c2v opp vc sc) = .ok atts) :
    ∀ i : Nat, 1 ≤ (atts[i]! : AttConn).lm.size → 1 ≤ vc.size := by
  intro i hi
  rw [Array.mapM_eq_mapM_toList] at h
  cases hl : List.mapM (fun sc => buildAttConn c2v opp vc sc) seams.toList with
  | error e => rw [hl] at h; cases h
  | ok l =>
    rw [hl] at h
    simp only [Functor.map, Except.map, Except.ok.injEq] at h
    subst h
    by_cases hlt : i < l.length
    · have hmem : l[i] ∈ l := List.getElem_mem hlt
      obtain ⟨sc, _, hsc⟩ := list_mapM_ok _ _ _ hl _ hmem
      apply buildAttConn_ok c2v opp vc sc _ hsc
      simpa [hlt] using hi
    · simp [hlt] at hi
      have : (default : AttConn).lm.size = 0 := rfl
      omega

theorem decodeConnectivity_post : Post decodeConnectivity MeshLm := by
  unfold decodeConnectivity
  post_walk
  all_goals exact mapM_buildAttConn_lm _ _ _ _ _ (by assumption)

/-! ### the body decoder -/

theorem facesOf_valid (mesh : Mesh) (h : FacesOK mesh) :
    (facesOf mesh).all (fun (a, b, c) => a < mesh.numPoints && b < mesh.numPoints && c < mesh.numPoints) = true := by
  rw [List.all_eq_true]
  intro f hf
  unfold facesOf at hf
  rw [List.mem_map] at hf
  obtain ⟨k, hk, rfl⟩ := hf
  have hk' : k < mesh.numFaces := List.mem_range.mp hk
  obtain ⟨h0, g0⟩ := h (3 * k) (by omega)
  obtain ⟨h1, g1⟩ := h (3 * k + 1) (by omega)
  obtain ⟨h2, g2⟩ := h (3 * k + 2) (by omega)
  simp only [Array.getD, h0, h1, h2, dite_true, Bool.and_eq_true, decide_eq_true_eq]
  exact ⟨⟨g0, g1⟩, g2⟩

/-- **C03 for the Edgebreaker body**: every attribute of an accepted stream is valid for the number
    of points of the mesh, and — whenever the mesh has an attribute — so are the faces. -/
theorem decodeEdgebreaker_post (opts : DecOpts) :
    Post (decodeEdgebreaker opts) (fun g => (∀ a ∈ g.atts, a.valid g.numPoints = true) ∧
      (g.atts ≠ [] → g.valid = true)) := by
  unfold decodeEdgebreaker
  apply post_bind_any; intro ver
  refine post_bind decodeConnectivity_post (fun mesh hlm => ?_)
  apply post_bind_any; intro _
  refine post_bind (decodeAttributes_post opts ver mesh hlm) (fun atts ha => ?_)
  apply post_pure
  refine ⟨ha.1, fun hne => ?_⟩
  simp only [Geometry.valid, Bool.and_eq_true]
  refine ⟨facesOf_valid mesh (ha.2 hne), ?_⟩
  rw [List.all_eq_true]
  exact ha.1

end Draco.Eb
