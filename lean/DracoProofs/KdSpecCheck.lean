import DracoProofs.KdEncTuples
import DracoProofs.SpecCheck
/-
  The executable specification RoundTripOK (`Spec.checkCore .kdTree`, DracoModel/Spec.lean — the
  predicate the checks evaluate on the implementation's outputs) accepts every geometry that is
  `SameUpToPointOrder` to `expectedKd g opts`, together with any geometry whose attributes declare
  the transforms of `declaredTransformKd` (the all-skipped decode, `KdSkipDeclares.lean`).
-/
namespace Draco.KdEnc
open Draco SeqEnc Kd

/-! ### `chunkBytes` without a length hypothesis -/

theorem chunkBytes_go_getD (k : Nat) (hk : 0 < k) : ∀ (fuel : Nat) (bs : Bytes) (acc : Array Bytes) (p : Nat),
    bs.length < fuel →
    (Spec.chunkBytes.go k fuel bs acc).getD p [] =
      if h : p < acc.size then acc[p] else (bs.drop ((p - acc.size) * k)).take k := by
  intro fuel
  induction fuel with
  | zero => intro bs acc p h; omega
  | succ f ih =>
    intro bs acc p hf
    have hk0 : (k == 0) = false := by simp; omega
    cases bs with
    | nil =>
      simp only [Spec.chunkBytes.go, List.isEmpty_nil, Bool.true_or, if_true, List.drop_nil, List.take_nil]
      simp only [Array.getD]
      split <;> rfl
    | cons b bs =>
      simp only [Spec.chunkBytes.go, List.isEmpty_cons, hk0, Bool.or_self, Bool.false_eq_true, if_false]
      rw [ih _ _ p (by simp only [List.length_drop, List.length_cons] at hf ⊢; omega)]
      simp only [Array.size_push]
      by_cases h1 : p < acc.size
      · rw [dif_pos (by omega), dif_pos h1, Array.getElem_push_lt h1]
      · by_cases h2 : p = acc.size
        · subst h2
          rw [dif_pos (by omega), dif_neg h1]
          simp
        · rw [dif_neg (by omega), dif_neg h1, List.drop_drop]
          have : k + (p - (acc.size + 1)) * k = (p - acc.size) * k := by
            have : p - acc.size = (p - (acc.size + 1)) + 1 := by omega
            rw [this, Nat.succ_mul]; omega
          rw [this]

/-- chunk `p` of `chunkBytes`, whatever the length of the buffer -/
theorem chunkBytes_getD' (k : Nat) (hk : 0 < k) (bs : Bytes) (p : Nat) :
    (Spec.chunkBytes k bs).getD p [] = (bs.drop (p * k)).take k := by
  unfold Spec.chunkBytes
  rw [chunkBytes_go_getD k hk _ bs #[] p (by omega)]
  simp

/-- the row of point `p` of an attribute with the identity point map, as `Spec.checkCore` reads it -/
theorem view_pointRow_id (d : Attribute) (hmap : d.map = none) (hs : 0 < d.stride) (p : Nat) :
    (Spec.view d).pointRow p = (d.values.drop (p * d.stride)).take d.stride := by
  unfold Spec.AttView.pointRow Spec.view Spec.valueIndex Spec.rows
  simp only [hmap, Option.map_none]
  exact chunkBytes_getD' d.stride hs d.values p

/-! ### `sortRows` identifies permutations -/

theorem lexLe_cons (x y : Nat) (xs ys : List Nat) :
    Spec.lexLe (x :: xs) (y :: ys) = true ↔ x < y ∨ (x = y ∧ Spec.lexLe xs ys = true) := by
  simp only [Spec.lexLe]
  by_cases h1 : x < y
  · simp [h1]
  · by_cases h2 : x > y
    · simp only [h1, h2, if_false, if_true]
      constructor
      · intro h; cases h
      · intro h; exfalso; rcases h with h | ⟨h, _⟩ <;> omega
    · have : x = y := by omega
      simp [this]

theorem lexLe_total : ∀ (a b : List Nat), (Spec.lexLe a b || Spec.lexLe b a) = true
  | [], _ => by simp [Spec.lexLe]
  | _ :: _, [] => by simp [Spec.lexLe]
  | x :: xs, y :: ys => by
    have ih := lexLe_total xs ys
    rw [Bool.or_eq_true] at ih ⊢
    rw [lexLe_cons, lexLe_cons]
    rcases Nat.lt_trichotomy x y with h | h | h
    · exact Or.inl (Or.inl h)
    · rcases ih with ih | ih
      · exact Or.inl (Or.inr ⟨h, ih⟩)
      · exact Or.inr (Or.inr ⟨h.symm, ih⟩)
    · exact Or.inr (Or.inl h)

theorem lexLe_trans : ∀ (a b c : List Nat), Spec.lexLe a b = true → Spec.lexLe b c = true →
    Spec.lexLe a c = true
  | [], _, _ => by intro _ _; simp [Spec.lexLe]
  | _ :: _, [], _ => by intro h _; simp [Spec.lexLe] at h
  | _ :: _, _ :: _, [] => by intro _ h; simp [Spec.lexLe] at h
  | x :: xs, y :: ys, z :: zs => by
    intro h1 h2
    rw [lexLe_cons] at h1 h2 ⊢
    rcases h1 with h1 | ⟨h1, h1'⟩
    · rcases h2 with h2 | ⟨h2, _⟩
      · exact Or.inl (by omega)
      · exact Or.inl (by omega)
    · rcases h2 with h2 | ⟨h2, h2'⟩
      · exact Or.inl (by omega)
      · exact Or.inr ⟨by omega, lexLe_trans xs ys zs h1' h2'⟩

theorem lexLe_antisymm : ∀ (a b : List Nat), Spec.lexLe a b = true → Spec.lexLe b a = true → a = b
  | [], [] => by intro _ _; rfl
  | [], _ :: _ => by intro _ h; simp [Spec.lexLe] at h
  | _ :: _, [] => by intro h _; simp [Spec.lexLe] at h
  | x :: xs, y :: ys => by
    intro h1 h2
    rw [lexLe_cons] at h1 h2
    rcases h1 with h1 | ⟨h1, h1'⟩
    · rcases h2 with h2 | ⟨h2, _⟩ <;> omega
    · rcases h2 with h2 | ⟨_, h2'⟩
      · omega
      · rw [h1, lexLe_antisymm xs ys h1' h2']

/-- the sorted row lists of two permutations of each other are equal: `sortRows` compares
    multisets -/
theorem sortRows_perm (l₁ l₂ : List (List Nat)) (h : l₁.Perm l₂) : Spec.sortRows l₁ = Spec.sortRows l₂ := by
  unfold Spec.sortRows
  refine List.Perm.eq_of_pairwise (le := fun a b => Spec.lexLe a b = true)
    (fun a b _ _ => lexLe_antisymm a b)
    (List.pairwise_mergeSort (fun a b c => lexLe_trans a b c) lexLe_total l₁)
    (List.pairwise_mergeSort (fun a b c => lexLe_trans a b c) lexLe_total l₂)
    ((List.mergeSort_perm l₁ _).trans (h.trans (List.mergeSort_perm l₂ _).symm))

/-! ### what the stream declares, what the options request -/

/-- the transform data the kd-tree stream of `g` declares for attribute `i`: the quantization of a
    float attribute (`quantizationParams`, as written by `KdTreeAttributesEncoder`), nothing for
    an integer attribute -/
def declaredTransformKd (opts : EncOpts) (i : Nat) (a : Attribute) : TransformData :=
  if a.dataType = Generated.DT_FLOAT32.toNat then
    match quantizationParams a (opts.att i) with
    | some (mins, range, q) => .quantization (q : Nat) mins range
    | none => .none
  else .none

/-- the requested quantization: every float attribute with its `quantization_bits` -/
def quantReqKd (g : Geometry) (opts : EncOpts) : Spec.QuantReq :=
  (zipIdxFrom 0 g.atts).filterMap fun ia =>
    if ia.2.dataType = Generated.DT_FLOAT32.toNat then some (ia.2.uniqueId, (opts.att ia.1).quantBits.toNat)
    else none

/-- `gs` carries the declared transforms of the encoded `g`, attribute by attribute — what the
    decode with every transform skipped returns (`kd_allskipped_declares`) -/
def DeclaresKd (g : Geometry) (opts : EncOpts) (gs : Geometry) : Prop :=
  gs.atts.map (·.transform) = (zipIdxFrom 0 g.atts).map fun ia => declaredTransformKd opts ia.1 ia.2

theorem dequantRow_mapRow' (range bits : Nat) : ∀ (mins r : List Nat),
    SeqEnc.dequantRow range bits mins (r.map (toSigned 32)) =
      (Kd.mapRow (fun m v => Leaf.dequant range bits m (toSigned 32 v)) mins r).flatMap (writeLE 4) := by
  intro mins
  induction mins with
  | nil => intro r; cases r <;> simp [SeqEnc.dequantRow, Kd.mapRow]
  | cons m ms ih =>
    intro r
    cases r with
    | nil => simp [SeqEnc.dequantRow, Kd.mapRow]
    | cons v vs =>
      have := ih vs
      simp only [SeqEnc.dequantRow, List.map_cons, List.zipWith_cons_cons, List.flatten_cons, Kd.mapRow,
        List.flatMap_cons] at this ⊢
      rw [this]

theorem quantizationParams_bits (a : Attribute) (o : AttOpts) (mins : List Nat) (range q : Nat)
    (h : quantizationParams a o = some (mins, range, q)) : q = o.quantBits.toNat := by
  unfold quantizationParams at h
  split at h
  · cases h
  · split at h
    · cases h
    · split at h
      · simp only [Option.some.injEq, Prod.mk.injEq] at h
        exact h.2.2.symm
      · simp only at h
        split at h
        · cases h
        · simp only [Option.some.injEq, Prod.mk.injEq] at h
          exact h.2.2.symm

/-- what `Spec.checkCore` needs to know about one attribute the encoder accepts: the expected
    attribute is, row by row, `Spec.expectedRow` of the declared transform; the rows fill one stride;
    the declared transform is the requested one -/
structure SpecAttFactsKd (opts : EncOpts) (n i : Nat) (a : Attribute) : Prop where
  expected : expectedAttributeOf opts n i a = (descOf a).toAttribute n
    ((pointRows a n).flatMap fun r => Spec.expectedRow (declaredTransformKd opts i a) r)
  rowLen : ∀ r ∈ pointRows a n, (Spec.expectedRow (declaredTransformKd opts i a) r).length = a.stride
  trOk : Spec.transformOk (declaredTransformKd opts i a)
    (if a.dataType = Generated.DT_FLOAT32.toNat then some (opts.att i).quantBits.toNat else none) = true

theorem specAttFactsKd (opts : EncOpts) (n i : Nat) (a : Attribute) (e : AttEnc)
    (hok : AttOK a (opts.att i) n) (h : encodeAttribute opts n i a = some e) :
    SpecAttFactsKd opts n i a := by
  obtain ⟨hrl, hrs⟩ := pointRows_spec a n hok.valid
  obtain ⟨hfacts, hdesc⟩ := encodeAttribute_facts opts n i a e hok h
  unfold encodeAttribute at h
  simp only at h
  cases hk : kindOf a.dataType with
  | none => rw [hk] at h; cases h
  | some k =>
    rw [hk] at h
    have hkc := kindOf_cases a.dataType k hk
    by_cases h9 : a.dataType = Generated.DT_FLOAT32.toNat
    · have hk2 : k = 2 := by
        have h9' : a.dataType = 9 := h9
        rcases hkc with ⟨_, h0 | h0 | h0⟩ | ⟨_, h0 | h0 | h0⟩ | ⟨h0, _⟩ <;> omega
      subst hk2
      simp only at h
      cases hq : quantizationParams a (opts.att i) with
      | none => rw [hq] at h; cases h
      | some r =>
        obtain ⟨mins, range, q⟩ := r
        rw [hq] at h
        simp only [Option.some.injEq] at h
        have htr := hfacts.trans
        rw [← h] at htr
        simp only [TransWF, descOf] at htr
        obtain ⟨_, hq1, hq30, hml, _, _⟩ := htr
        have hdecl : declaredTransformKd opts i a = .quantization (q : Nat) mins range := by
          simp only [declaredTransformKd, h9, if_true, hq]
        have hstride : a.stride = a.numComponents * 4 := by
          rw [Attribute.stride, h9, Nat.mul_comm]; rfl
        have hrow : ∀ r ∈ pointRows a n, Spec.expectedRow (.quantization (q : Nat) mins range) r =
            (Kd.mapRow (fun m v => Leaf.dequant range q m (toSigned 32 v)) mins
              ((quantizeRow mins range q 0 (rowF32s a.numComponents r)).map (toUnsigned 32))).flatMap (writeLE 4) := by
          intro r hr
          rw [expectedRow_quant mins range q a.numComponents r (by rw [hrs r hr, hstride]) hml,
            ← dequantRow_mapRow', List.map_map]
          congr 1
          have hspec := (quantizeRow_spec mins range q (rowF32s a.numComponents r) 0).2
          generalize quantizeRow mins range q 0 (rowF32s a.numComponents r) = ks at hspec
          induction ks with
          | nil => rfl
          | cons x xs ihx =>
            simp only [List.map_cons, Function.comp]
            rw [Wrap.toSigned_toUnsigned32 x (hspec x (by simp)).1 (hspec x (by simp)).2]
            congr 1
            exact ihx (fun v hv => hspec v (by simp [hv]))
        refine ⟨?_, ?_, ?_⟩
        · simp only [expectedAttributeOf, h9, if_true, hq, hdecl]
          congr 1
          apply flatMap_congr'
          intro r hr
          exact (hrow r hr).symm
        · intro r hr
          rw [hdecl, hrow r hr, flatMap_len_const _ 4 _ (fun x _ => wle_length _ _),
            mapRow_len _ _ _ (by rw [List.length_map, quantizeRow_length, rowF32s_length, hml]),
            List.length_map, quantizeRow_length, rowF32s_length, hstride]
        · rw [hdecl, if_pos h9, quantizationParams_bits a _ mins range q hq]
          simp [Spec.transformOk]
    · have hdecl : declaredTransformKd opts i a = .none := by
        simp only [declaredTransformKd, h9, if_false]
      refine ⟨?_, ?_, ?_⟩
      · simp only [expectedAttributeOf, h9, if_false, hdecl, Spec.expectedRow]
        congr 1
        exact (flatMap_id_flatten _).symm
      · intro r hr
        rw [hdecl]
        exact hrs r hr
      · rw [hdecl, if_neg h9]
        rfl

/-! ### list plumbing -/

theorem collect_of_forall2 {α β : Type} (f : α → Option β) : ∀ (l : List α) (r : List β),
    List.Forall₂ (fun x y => f x = some y) l r → Spec.collect (l.map f) = some r := by
  intro l r h
  induction h with
  | nil => rfl
  | cons hxy _ ih => simp only [List.map_cons, hxy, Spec.collect, ih]

theorem forall2_of_getElem {α β : Type} (R : α → β → Prop) : ∀ (l : List α) (r : List β),
    l.length = r.length → (∀ j (h1 : j < l.length) (h2 : j < r.length), R l[j] r[j]) →
    List.Forall₂ R l r := by
  intro l
  induction l with
  | nil => intro r hl _; cases r with
    | nil => exact List.Forall₂.nil
    | cons _ _ => simp at hl
  | cons x xs ih =>
    intro r hl h
    cases r with
    | nil => simp at hl
    | cons y ys =>
      refine List.Forall₂.cons (h 0 (by simp) (by simp)) (ih ys (by simpa using hl) ?_)
      intro j h1 h2
      exact h (j + 1) (by simpa using h1) (by simpa using h2)

theorem forall2_of_map_eq {α β γ : Type} (f : α → γ) (g : β → γ) : ∀ (l : List α) (r : List β),
    l.map f = r.map g → List.Forall₂ (fun a b => f a = g b) l r := by
  intro l
  induction l with
  | nil => intro r h; cases r with
    | nil => exact List.Forall₂.nil
    | cons _ _ => simp at h
  | cons x xs ih =>
    intro r h
    cases r with
    | nil => simp at h
    | cons y ys =>
      simp only [List.map_cons, List.cons.injEq] at h
      exact List.Forall₂.cons h.1 (ih ys h.2)

theorem forall2_getElem {α β : Type} {R : α → β → Prop} {l : List α} {r : List β}
    (h : List.Forall₂ R l r) : ∀ j (h1 : j < l.length) (h2 : j < r.length), R l[j] r[j] := by
  induction h with
  | nil => intro j h1; simp at h1
  | cons hxy _ ih =>
    intro j h1 h2
    cases j with
    | zero => exact hxy
    | succ j => exact ih j (by simpa using h1) (by simpa using h2)

theorem flatMap_zipWith_left {α β γ δ : Type} (f : α → β → γ) (g : γ → List δ) (h : α → List δ)
    (hfg : ∀ a b, g (f a b) = h a) : ∀ (l : List α) (r : List β), l.length = r.length →
    (List.zipWith f l r).flatMap g = l.flatMap h := by
  intro l
  induction l with
  | nil => intro r _; rfl
  | cons x xs ih =>
    intro r hl
    cases r with
    | nil => simp at hl
    | cons y ys =>
      simp only [List.zipWith_cons_cons, List.flatMap_cons, hfg, ih ys (by simpa using hl)]

theorem flatMap_zipWith_right {α β γ δ : Type} (f : α → β → γ) (g : γ → List δ) (h : β → List δ)
    (hfg : ∀ a b, g (f a b) = h b) : ∀ (l : List α) (r : List β), l.length = r.length →
    (List.zipWith f l r).flatMap g = r.flatMap h := by
  intro l
  induction l with
  | nil => intro r hl; cases r with
    | nil => rfl
    | cons _ _ => simp at hl
  | cons x xs ih =>
    intro r hl
    cases r with
    | nil => simp at hl
    | cons y ys =>
      simp only [List.zipWith_cons_cons, List.flatMap_cons, hfg, ih ys (by simpa using hl)]

theorem valid_stride_pos (a : Attribute) (n : Nat) (hv : a.valid n = true) : 0 < a.stride := by
  unfold Attribute.valid at hv
  simp only [Bool.and_eq_true, decide_eq_true_eq] at hv
  obtain ⟨⟨⟨h1, h2⟩, _⟩, _⟩ := hv
  exact Nat.mul_pos (by omega) (by omega)

/-- what equality "up to the values" with the expected attribute says about a decoded attribute -/
theorem fields_of_strip (d : Attribute) (opts : EncOpts) (n i : Nat) (a : Attribute)
    (h : ({ d with values := [] } : Attribute) = { expectedAttributeOf opts n i a with values := [] }) :
    d.uniqueId = a.uniqueId ∧ d.attType = a.attType ∧ d.dataType = a.dataType ∧
      d.numComponents = a.numComponents ∧ d.normalized = a.normalized ∧ d.map = none ∧
      d.stride = a.stride := by
  have h1 := congrArg Attribute.uniqueId h
  have h2 := congrArg Attribute.attType h
  have h3 := congrArg Attribute.dataType h
  have h4 := congrArg Attribute.numComponents h
  have h5 := congrArg Attribute.normalized h
  have h6 := congrArg Attribute.map h
  simp only [expectedAttributeOf, AttDesc.toAttribute, descOf] at h1 h2 h3 h4 h5 h6
  refine ⟨h1, h2, h3, h4, h5, h6, ?_⟩
  simp only [Attribute.stride, h3, h4]

/-- the separator-joined tuple `Spec.expTupleL` / `Spec.decTupleL` build from the value rows of
    one point -/
def joinTuple (t : List Bytes) : List Nat := t.flatMap fun r => [2000000] ++ r

/-! ### RoundTripOK accepts `expectedKd g opts` up to the order of the points -/

/-- the matched triples `checkCore` builds -/
def matchedKd (g : Geometry) (opts : EncOpts) (g' : Geometry) : List Spec.Matched :=
  List.zipWith (fun (ia : Nat × Attribute) (d : Attribute) =>
    (⟨Spec.view ia.2, Spec.view d, declaredTransformKd opts ia.1 ia.2⟩ : Spec.Matched))
    (zipIdxFrom 0 g.atts) g'.atts

theorem checkCore_kd (g : Geometry) (opts : EncOpts) (g' gs : Geometry) (hok : GeomOK g opts)
    (hnd : (g.atts.map (·.uniqueId)).Nodup)
    (henc : ∀ i a, g.atts[i]? = some a → ∃ e, encodeAttribute opts g.numPoints i a = some e)
    (hsame : SameUpToPointOrder g' (expectedKd g opts)) (hdecl : DeclaresKd g opts gs) :
    Spec.checkCore .kdTree (quantReqKd g opts) g g' gs = true := by
  obtain ⟨_, hnp, _, hstrip, hperm⟩ := hsame
  have hnp' : g'.numPoints = g.numPoints := hnp
  let L := zipIdxFrom 0 g.atts
  have hLsnd : L.map (·.2) = g.atts := zipIdxFrom_map_snd g.atts 0
  have hLlen : L.length = g.atts.length := by rw [← hLsnd, List.length_map]
  have hLnd : (L.map fun ia => ia.2.uniqueId).Nodup := by
    have : (L.map fun ia => ia.2.uniqueId) = (L.map (·.2)).map (·.uniqueId) := by rw [List.map_map]; rfl
    rw [this, hLsnd]; exact hnd
  have hLmem : ∀ ia ∈ L, g.atts[ia.1]? = some ia.2 := by
    intro ia hia
    obtain ⟨j, h1, h2⟩ := zipIdxFrom_mem g.atts 0 ia hia
    rw [h1, Nat.zero_add]; exact h2
  have hfacts : ∀ ia ∈ L, SpecAttFactsKd opts g.numPoints ia.1 ia.2 ∧ AttOK ia.2 (opts.att ia.1) g.numPoints := by
    intro ia hia
    have hi := hLmem ia hia
    obtain ⟨e, he⟩ := henc ia.1 ia.2 hi
    exact ⟨specAttFactsKd opts g.numPoints ia.1 ia.2 e (hok.atts _ _ hi) he, hok.atts _ _ hi⟩
  have hE : (expectedKd g opts).atts = L.map fun ia => expectedAttributeOf opts g.numPoints ia.1 ia.2 := rfl
  -- the decoded attributes against the expected ones, field by field
  rw [hE, List.map_map] at hstrip
  have hF := forall2_of_map_eq _ _ _ _ hstrip
  have hlen' : g'.atts.length = L.length := Kd.forall2_len hF
  have hfield : ∀ j (h1 : j < g'.atts.length) (h2 : j < L.length),
      g'.atts[j].uniqueId = L[j].2.uniqueId ∧ g'.atts[j].attType = L[j].2.attType ∧
      g'.atts[j].dataType = L[j].2.dataType ∧ g'.atts[j].numComponents = L[j].2.numComponents ∧
      g'.atts[j].normalized = L[j].2.normalized ∧ g'.atts[j].map = none ∧
      g'.atts[j].stride = L[j].2.stride := by
    intro j h1 h2
    exact fields_of_strip _ opts g.numPoints L[j].1 L[j].2 (forall2_getElem hF j h1 h2)
  have huids : g'.atts.map (·.uniqueId) = L.map fun ia => ia.2.uniqueId := by
    apply List.ext_getElem (by simp [hlen'])
    intro j h1 h2
    simp only [List.getElem_map]
    exact (hfield j (by simpa using h1) (by simpa using h2)).1
  have hnd' : (g'.atts.map (·.uniqueId)).Nodup := by rw [huids]; exact hLnd
  have hgslen : gs.atts.length = L.length := by
    have := congrArg List.length hdecl
    simpa using this
  -- every attribute is matched
  have hmatch : List.Forall₂ (fun (ia : Nat × Attribute) m =>
      Spec.matchOne (quantReqKd g opts) g' gs ia.2 = some m) L (matchedKd g opts g') := by
    apply forall2_of_getElem _ _ _ (by simp [matchedKd, L, hlen'])
    intro j h1 h2
    have hj' : j < g'.atts.length := by omega
    have hjs : j < gs.atts.length := by omega
    obtain ⟨f1, f2, f3, f4, f5, _, _⟩ := hfield j hj' h1
    have hia : L[j] ∈ L := List.getElem_mem h1
    obtain ⟨sf, _⟩ := hfacts L[j] hia
    have hms : (matchedKd g opts g')[j] =
        ⟨Spec.view L[j].2, Spec.view g'.atts[j], declaredTransformKd opts L[j].1 L[j].2⟩ := by
      simp only [matchedKd, List.getElem_zipWith]
      rfl
    have htr : gs.atts[j].transform = declaredTransformKd opts L[j].1 L[j].2 := by
      have := congrArg (fun l => l[j]?) hdecl
      simp only [List.getElem?_map, List.getElem?_eq_getElem hjs, Option.map_some] at this
      have h3 : (zipIdxFrom 0 g.atts)[j]? = some L[j] := List.getElem?_eq_getElem h1
      rw [h3] at this
      simpa using this
    rw [hms]
    unfold Spec.matchOne Spec.findAtt Spec.skipOf
    rw [← f1]
    rw [find?_key (fun (z : Attribute) => z.uniqueId) g'.atts hnd' g'.atts[j] (List.getElem_mem hj'),
      findIdx?_key (fun (z : Attribute) => z.uniqueId) g'.atts hnd' j hj']
    simp only [List.getElem?_eq_getElem hjs]
    have hdesc : (g'.atts[j].attType != L[j].2.attType || g'.atts[j].dataType != L[j].2.dataType ||
        g'.atts[j].numComponents != L[j].2.numComponents ||
        g'.atts[j].normalized != L[j].2.normalized) = false := by
      simp [f2, f3, f4, f5]
    rw [hdesc]
    simp only [Bool.false_eq_true, if_false]
    have hlook : (quantReqKd g opts).lookup L[j].2.uniqueId =
        if L[j].2.dataType = Generated.DT_FLOAT32.toNat then some (opts.att L[j].1).quantBits.toNat else none := by
      have := lookup_filterMap_key (fun (z : Nat × Attribute) => z.2.uniqueId)
        (fun z => decide (z.2.dataType = Generated.DT_FLOAT32.toNat))
        (fun z => (opts.att z.1).quantBits.toNat) L hLnd L[j] hia
      simp only [decide_eq_true_eq] at this
      exact this
    rw [f1, hlook, htr, sf.trOk]
    rfl
  have hcollect : Spec.collect (g.atts.map (Spec.matchOne (quantReqKd g opts) g' gs)) =
      some (matchedKd g opts g') := by
    rw [← hLsnd, List.map_map]
    exact collect_of_forall2 _ L _ hmatch
  unfold Spec.checkCore
  rw [hcollect]
  have hlen : g.atts.length = g'.atts.length := by rw [hlen', hLlen]
  have hed : (g.atts.map (·.uniqueId)).eraseDups.length = (g.atts.map (·.uniqueId)).length := by
    rw [eraseDups_of_nodup _ hnd]
  simp only [← hlen, beq_self_eq_true, hed, Bool.true_and, hnp']
  -- both sides are the joined point tuples
  have hexp : (List.range g.numPoints).map (Spec.expTupleL (matchedKd g opts g')) =
      (pointTuples (expectedKd g opts)).map joinTuple := by
    simp only [pointTuples, List.map_map]
    apply List.map_congr_left
    intro p hp
    have hp : p < g.numPoints := by simpa using hp
    simp only [Function.comp, joinTuple, Spec.expTupleL, matchedKd]
    rw [flatMap_zipWith_left
      (fun (ia : Nat × Attribute) (d : Attribute) =>
        (⟨Spec.view ia.2, Spec.view d, declaredTransformKd opts ia.1 ia.2⟩ : Spec.Matched))
      (fun m => [2000000] ++ Spec.expectedRow m.tr (m.orig.pointRow p))
      (fun (ia : Nat × Attribute) => [2000000] ++
        Spec.expectedRow (declaredTransformKd opts ia.1 ia.2) ((Spec.view ia.2).pointRow p))
      (fun _ _ => rfl) (zipIdxFrom 0 g.atts) g'.atts hlen'.symm, hE, List.flatMap_map, List.flatMap_map]
    apply flatMap_congr'
    intro ia hia
    obtain ⟨sf, ha⟩ := hfacts ia hia
    obtain ⟨hrl, _⟩ := pointRows_spec ia.2 g.numPoints ha.valid
    have hpl : p < (pointRows ia.2 g.numPoints).length := by rw [hrl]; exact hp
    rw [view_pointRow_orig ia.2 g.numPoints p ha.valid hp]
    have hget : (pointRows ia.2 g.numPoints).getD p [] = (pointRows ia.2 g.numPoints)[p] := by
      simp [List.getD, hpl]
    have hstr : (expectedAttributeOf opts g.numPoints ia.1 ia.2).stride = ia.2.stride := by
      simp [expectedAttributeOf, AttDesc.toAttribute, descOf, Attribute.stride]
    rw [hget, hstr]
    have hv : (expectedAttributeOf opts g.numPoints ia.1 ia.2).values =
        (pointRows ia.2 g.numPoints).flatMap fun r =>
          Spec.expectedRow (declaredTransformKd opts ia.1 ia.2) r := by
      rw [sf.expected]; rfl
    rw [hv, chunk_flatMap _ ia.2.stride _ p sf.rowLen hpl]
  have hdec : (List.range g.numPoints).map (Spec.decTupleL (matchedKd g opts g')) =
      (pointTuples g').map joinTuple := by
    simp only [pointTuples, List.map_map, hnp']
    apply List.map_congr_left
    intro p _
    simp only [Function.comp, joinTuple, Spec.decTupleL, matchedKd]
    rw [flatMap_zipWith_right
      (fun (ia : Nat × Attribute) (d : Attribute) =>
        (⟨Spec.view ia.2, Spec.view d, declaredTransformKd opts ia.1 ia.2⟩ : Spec.Matched))
      (fun m => [2000000] ++ m.dec.pointRow p)
      (fun (d : Attribute) => [2000000] ++ (Spec.view d).pointRow p)
      (fun _ _ => rfl) (zipIdxFrom 0 g.atts) g'.atts hlen'.symm, List.flatMap_map]
    apply flatMap_congr'
    intro d hd
    obtain ⟨j, hj, rfl⟩ := List.getElem_of_mem hd
    have hjL : j < L.length := by omega
    obtain ⟨_, _, _, _, _, f6, f7⟩ := hfield j hj hjL
    obtain ⟨_, ha⟩ := hfacts L[j] (List.getElem_mem hjL)
    rw [view_pointRow_id _ f6 (by rw [f7]; exact valid_stride_pos _ _ ha.valid) p]
  rw [hexp, hdec, sortRows_perm _ _ (hperm.symm.map joinTuple)]
  simp

end Draco.KdEnc
