import DracoProofs.EbTraceS4
import DracoProofs.EbNoSLink
/-
  Towards the vertex bound of the decoder for runs WITH `S` (`hv_S`): the pure counting part and the sanity check of the
  statement on the annulus.

  PROVED: `invalid_size_StS` (`invalid.size` = number of `S` among the symbols decoded so far), `vc_size_StS`
  (`vc.size = 3 · #E + #R + #L`), both over the pure decoder `StS`.
  CHECKED on the model's own run on the annulus (`annConn`, one split event), by kernel evaluation: the statement
  `vc.size ≤ (usedVerts t.vc).length + syms.count 1`, its run-level form with `numVertices − numIsolated + numSplitSymbols`,
  and `numSplitSymbols = symbols.count 1` (`annulus_hv`).
  NOT PROVED (see the report): the injection of the LIVE decoder vertices into the encoder's used vertices.
-/
namespace Draco.EbEnc.DecSim
open Draco Draco.EbEnc
open Draco.Eb (inv TopoSplit)

theorem stepSS_invalid (n : Nat) (evs : List TopoSplit) (sym j : Nat) (s : DSS) :
    (stepSS n evs sym j s).invalid.size = s.invalid.size + (if sym = 1 then 1 else 0) := by
  unfold stepSS
  by_cases h1 : sym = 1
  · rw [if_pos h1, if_pos h1]
    show (s.invalid.push _).size = _
    simp
  · rw [if_neg h1, if_neg h1]
    split <;> rfl

/-- every `S` makes one vertex invalid -/
theorem invalid_size_StS (syms : List Nat) (evs : List TopoSplit) (nf maxV : Nat) :
    ∀ j, j ≤ syms.length → (StS syms evs nf maxV j).invalid.size = (syms.take j).count 1
  | 0, _ => by simp [StS, DSS.init]
  | j+1, h => by
    have ih := invalid_size_StS syms evs nf maxV j (by omega)
    show (stepSS syms.length evs syms[j]! j (StS syms evs nf maxV j)).invalid.size = _
    rw [stepSS_invalid, ih, List.take_succ_eq_append_getElem (by omega), List.count_append]
    have : syms[j]! = syms[j] := by simp [show j < syms.length by omega]
    rw [this]
    simp [List.count_cons]

theorem stepSS_vc (n : Nat) (evs : List TopoSplit) (sym j : Nat) (s : DSS) :
    (stepSS n evs sym j s).vc.size =
      s.vc.size + (if sym = 7 then 3 else if sym = 5 ∨ sym = 3 then 1 else 0) := by
  unfold stepSS
  by_cases h1 : sym = 1
  · rw [if_pos h1]
    subst h1
    show ((Array.set! _ _ _).set! _ _).size = _
    simp [Array.set!]
  · rw [if_neg h1]
    by_cases h0 : sym = 0
    · rw [if_pos h0]
      subst h0
      show (Array.set! _ _ _).size = _
      simp [Array.set!, DSS.base]
    · rw [if_neg h0]
      show (step sym j s.base).vc.size = _
      unfold step
      by_cases h7 : sym = 7
      · rw [if_pos h7, if_pos h7]; simp [stepE, DSS.base]
      · rw [if_neg h7, if_neg h7]
        by_cases h5 : sym = 5
        · rw [if_pos h5, if_pos (Or.inl h5)]; simp [stepR, DSS.base, Array.set!]
        · rw [if_neg h5]
          by_cases h3 : sym = 3
          · rw [if_pos h3, if_pos (Or.inr h3)]; simp [stepL, DSS.base, Array.set!]
          · rw [if_neg h3, if_neg (by omega)]; simp [stepC, DSS.base, Array.set!]

/-- `E` creates three vertices, `R` and `L` one, `C` and `S` none -/
theorem vc_size_StS (syms : List Nat) (evs : List TopoSplit) (nf maxV : Nat) :
    ∀ j, j ≤ syms.length → (StS syms evs nf maxV j).vc.size =
      3 * (syms.take j).count 7 + (syms.take j).count 5 + (syms.take j).count 3
  | 0, _ => by simp [StS, DSS.init]
  | j+1, h => by
    have ih := vc_size_StS syms evs nf maxV j (by omega)
    show (stepSS syms.length evs syms[j]! j (StS syms evs nf maxV j)).vc.size = _
    rw [stepSS_vc, ih, List.take_succ_eq_append_getElem (by omega)]
    simp only [List.count_append]
    have : syms[j]! = syms[j] := by simp [show j < syms.length by omega]
    rw [this]
    simp only [List.count_cons, List.count_nil]
    by_cases h7 : syms[j] = 7
    · simp [h7]; omega
    · by_cases h5 : syms[j] = 5
      · simp [h5]; omega
      · by_cases h3 : syms[j] = 3
        · simp [h3]; omega
        · simp [h7, h5, h3]

/-! ### the reduction of `hv_S` to two invariants of `StS` -/

/-- **`hv_S`, reduced**: for tables `c2v`, `vc` isomorphic to the encoder's (`CTIso`, from `ctIso_StS_closed`), if every LIVE
    decoder vertex records one of its corners (`hlive`) and at most `K` vertices are dead (`hdead`; for `StS`: the entries
    of `invalid`, `invalid_size_StS`), the vertex table has at most `(usedVerts t.vc).length + K` entries -/
theorem vc_size_le_of_live {t : CT} {P : Array Nat} {c2v opp vc : Array Nat} {K : Nat}
    (hiso : CTIso t P P.size c2v opp)
    (hcov : ∀ d, d < 3 * P.size → ∃ k, iter (AttViews.sRP t.opp) k t.vc[t.c2v[phi P d]!]! = phi P d)
    (hvlt : ∀ d, d < 3 * P.size → t.c2v[phi P d]! < t.numVertices)
    (hphi : ∀ d, d < 3 * P.size → phi P d ≠ inv)
    (hlive : ∀ v, v < vc.size → vc[v]! ≠ inv → vc[v]! < 3 * P.size ∧ c2v[vc[v]!]! = v)
    (hdead : ((List.range vc.size).filter (fun v => vc[v]! == inv)).length ≤ K) :
    vc.size ≤ (CountsIso.usedVerts t.vc).length + K := by
  have hnd : (((List.range vc.size).filter (fun v => vc[v]! != inv)).map (fun v => t.c2v[phi P vc[v]!]!)).Nodup := by
    refine List.Nodup.map_on ?_ (List.nodup_range.filter _)
    intro v hv v' hv' e
    rw [List.mem_filter, List.mem_range] at hv hv'
    obtain ⟨a1, a2⟩ := hlive v hv.1 (by simpa using hv.2)
    obtain ⟨b1, b2⟩ := hlive v' hv'.1 (by simpa using hv'.2)
    have := (hiso.vertex _ _ a1 b1).mpr e
    rw [a2, b2] at this
    exact this
  have hsub : ((List.range vc.size).filter (fun v => vc[v]! != inv)).map (fun v => t.c2v[phi P vc[v]!]!) ⊆
      CountsIso.usedVerts t.vc := by
    intro w hw
    rw [List.mem_map] at hw
    obtain ⟨v, hv, rfl⟩ := hw
    rw [List.mem_filter, List.mem_range] at hv
    obtain ⟨a1, _⟩ := hlive v hv.1 (by simpa using hv.2)
    rw [CountsIso.mem_usedVerts]
    refine ⟨hvlt _ a1, ?_⟩
    intro e
    obtain ⟨k, hk⟩ := hcov _ a1
    rw [e, AttViews.iter_fix (AttViews.sRP_inv _)] at hk
    exact hphi _ a1 hk.symm
  have h1 := hnd.length_le_of_subset hsub
  rw [List.length_map] at h1
  have h2 : ((List.range vc.size).filter (fun v => vc[v]! != inv)).length +
      ((List.range vc.size).filter (fun v => vc[v]! == inv)).length = vc.size := by
    have := List.length_eq_length_filter_add (l := List.range vc.size) (fun v => vc[v]! != inv)
    simp only [List.length_range] at this
    have e : ((List.range vc.size).filter (fun x => !(vc[x]! != inv))) =
        (List.range vc.size).filter (fun v => vc[v]! == inv) := by
      apply List.filter_congr
      intro v _
      cases h : vc[v]! == inv <;> simp [bne, h]
    rw [e] at this
    omega
  omega

/-! ### the statement of `hv_S` on the annulus (the model's own run, one split event) -/

/-- sanity check of the statement: the pure decoder creates 19 vertices, the encoder's table has 16 in use, the run has
    3 symbols `S` (`numSplitSymbols = 3`) -/
theorem annulus_hv :
    (StS annConn.symbols.toList.reverse annConn.splits.toList.reverse annConn.processed.size 19
      annConn.symbols.toList.reverse.length).vc.size ≤
      (CountsIso.usedVerts annConn.ct.vc).length + annConn.symbols.toList.reverse.count 1 ∧
    (StS annConn.symbols.toList.reverse annConn.splits.toList.reverse annConn.processed.size 19
      annConn.symbols.toList.reverse.length).vc.size ≤
      annConn.ct.numVertices - annConn.ct.numIsolated + annConn.numSplitSymbols ∧
    annConn.numSplitSymbols = annConn.symbols.toList.count 1 := by decide +kernel

end Draco.EbEnc.DecSim
