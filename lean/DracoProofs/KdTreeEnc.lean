import DracoProofs.KdTreeRoundtrip
/-
  `EncodeInternal` with its explicit stack = the recursive encoder, and the recursion always
  succeeds; `std::partition` as modelled satisfies the standard's contract.
-/
namespace Draco.Kd
open TreeStack

/-- a step function that never fails has a total recursion -/
theorem tree_total {F O S : Type} {step : F → S → Option (Step F O S)} {Inv : F → Prop} {μ : F → Nat}
    (hm : Measured step Inv μ) (htot : ∀ fr s, Inv fr → step fr s ≠ none) :
    ∀ (d : Nat) (fr : F) (s : S), Inv fr → μ fr ≤ d → ∃ r, TreeStack.tree step d fr s = some r := by
  intro d
  induction d with
  | zero =>
    intro fr s hi hd
    exfalso
    cases h : step fr s with
    | none => exact htot fr s hi h
    | some st =>
      cases st with
      | leaf out s1 => have := hm.leaf fr s out s1 hi h; omega
      | split out f sn s1 => have := (hm.split fr s out f sn s1 hi h).1; omega
  | succ d ih =>
    intro fr s hi hd
    rw [tree_succ]
    cases h : step fr s with
    | none => exact absurd h (htot fr s hi)
    | some st =>
      cases st with
      | leaf out s1 => exact ⟨_, rfl⟩
      | split out f sn s1 =>
        obtain ⟨hμ, hf, hsn⟩ := hm.split fr s out f sn s1 hi h
        have hsub : ∀ (o : Option F) (s' : S), (∀ c, o = some c → Inv c) → μo μ o ≤ d →
            ∃ r, sub step d o s' = some r := by
          intro o s' ho hle
          cases o with
          | none => exact ⟨_, rfl⟩
          | some c => exact ih c s' (ho c rfl) hle
        obtain ⟨r2, e2⟩ := hsub sn s1 hsn (by omega)
        obtain ⟨o2, s2⟩ := r2
        obtain ⟨r1, e1⟩ := hsub f s2 hf (by omega)
        obtain ⟨o1, s3⟩ := r1
        simp only [e2, e1]
        exact ⟨_, rfl⟩

/-- invariant of the encoder's tuples -/
def EInv (P : Params) (ef : EFrame) : Prop :=
  ef.levels.length = P.dim ∧ ef.lastAxis < P.dim ∧ ef.pts ≠ []

def eframeMu (P : Params) (ef : EFrame) : Nat :=
  ef.pts.length * (remLevels P.bitLength ef.levels + 1) + 1

theorem encAxis_lt (P : Params) (hdim : 1 ≤ P.dim) (pts : List (List Nat)) (base levels : List Nat)
    (last : Nat) (hl : last < P.dim) (hne : pts ≠ []) : (encAxis P pts base levels last).1 < P.dim := by
  unfold encAxis
  split
  · exact incMod_lt _ _ hl
  · split
    · exact minLevelAxis_lt _ _ hdim
    · exact bestAxis_lt P pts base levels hne hdim

theorem encNode_measured (part : Partition) (hpart : PartSpec part) (P : Params) (hdim : 1 ≤ P.dim) :
    Measured (encNode part P) (EInv P) (eframeMu P) := by
  constructor
  · intro fr s out s1 _ _
    simp only [eframeMu]; omega
  · intro fr s out f sn s1 hi h
    obtain ⟨hlen, hlast, hne⟩ := hi
    have hax := encAxis_lt P hdim fr.pts fr.base fr.levels fr.lastAxis hlast hne
    simp only [encNode, Option.some.injEq] at h
    generalize (encAxis P fr.pts fr.base fr.levels fr.lastAxis).1 = axis at h hax
    generalize (encAxis P fr.pts fr.base fr.levels fr.lastAxis).2 = evA at h
    unfold encNodeAt at h
    split at h
    · cases h
    split at h
    · cases h
    rename_i hfull hsmall
    simp only [encSplit, Step.split.injEq] at h
    obtain ⟨_, hf, hs, _⟩ := h
    have hperm := hpart.perm (fun p => decide (p.getD axis 0 <
      (fr.base.set axis ((fr.base.getD axis 0 + 2 ^ (P.bitLength - fr.levels.getD axis 0 - 1)) % 2 ^ 32)).getD axis 0)) fr.pts
    generalize part (fun p => decide (p.getD axis 0 <
      (fr.base.set axis ((fr.base.getD axis 0 + 2 ^ (P.bitLength - fr.levels.getD axis 0 - 1)) % 2 ^ 32)).getD axis 0)) fr.pts = lr at hf hs hperm
    obtain ⟨l, r⟩ := lr
    simp only at hf hs hperm
    have hsum : l.length + r.length = fr.pts.length := by
      have := hperm.length_eq; simpa using this
    have hrl := remLevels_set P.bitLength fr.levels axis (by omega) (by omega)
    generalize hR' : remLevels P.bitLength (fr.levels.set axis (fr.levels.getD axis 0 + 1)) = R' at hrl
    have hlen' : (fr.levels.set axis (fr.levels.getD axis 0 + 1)).length = P.dim := by
      rw [List.length_set]; exact hlen
    refine ⟨?_, ?_, ?_⟩
    · have hmul : fr.pts.length * (R' + 1 + 1) = l.length * (R' + 1) + r.length * (R' + 1) + fr.pts.length := by
        rw [← hsum]; ring
      have e1 : μo (eframeMu P) f ≤ l.length * (R' + 1) + (if l.length ≠ 0 then 1 else 0) := by
        rw [← hf]
        cases l with
        | nil => simp [μo]
        | cons x xs => simp only [List.isEmpty_cons, Bool.false_eq_true, if_false, μo, eframeMu, hR']; simp
      have e2 : μo (eframeMu P) sn ≤ r.length * (R' + 1) + (if r.length ≠ 0 then 1 else 0) := by
        rw [← hs]
        cases r with
        | nil => simp [μo]
        | cons x xs => simp only [List.isEmpty_cons, Bool.false_eq_true, if_false, μo, eframeMu, hR']; simp
      simp only [eframeMu, ← hrl]
      rw [hmul]
      split at e1 <;> split at e2 <;> omega
    · intro c hc
      rw [← hf] at hc
      cases l with
      | nil => simp at hc
      | cons x xs =>
        simp only [List.isEmpty_cons, Bool.false_eq_true, if_false, Option.some.injEq] at hc
        subst hc
        exact ⟨hlen', hax, by simp⟩
    · intro c hc
      rw [← hs] at hc
      cases r with
      | nil => simp at hc
      | cons x xs =>
        simp only [List.isEmpty_cons, Bool.false_eq_true, if_false, Option.some.injEq] at hc
        subst hc
        exact ⟨hlen', hax, by simp⟩

/-- `EncodeInternal` (explicit stack) = the recursive tree encoder, which always succeeds -/
theorem encodeInternal_eq_tree (part : Partition) (hpart : PartSpec part) (P : Params)
    (hdim : 1 ≤ P.dim) (pts : List (List Nat)) (hne : pts ≠ []) :
    TreeStack.tree (encNode part P) (encFuel P pts.length)
      ⟨pts, 0, List.replicate P.dim 0, List.replicate P.dim 0⟩ () =
        some (encodeInternal part P pts, ()) := by
  have hm := encNode_measured part hpart P hdim
  have hinv : EInv P ⟨pts, 0, List.replicate P.dim 0, List.replicate P.dim 0⟩ :=
    ⟨by simp, by simp only; omega, hne⟩
  have hmu : eframeMu P ⟨pts, 0, List.replicate P.dim 0, List.replicate P.dim 0⟩ = encFuel P pts.length := by
    simp only [eframeMu, encFuel, remLevels_replicate]
  obtain ⟨r, hr⟩ := tree_total hm (fun fr s _ => by simp [encNode]) (encFuel P pts.length) _ ()
    hinv (by rw [hmu])
  have hrun := run_eq_tree hm (encFuel P pts.length) (encFuel P pts.length) _ () hinv
    (by rw [hmu]) (by rw [hmu])
  obtain ⟨evs, u⟩ := r
  cases u
  rw [hr] at hrun ⊢
  simp only [encodeInternal, hrun, List.reverse_reverse]

/-! ### `std::partition` -/

theorem partSpec_filter : PartSpec (fun p l => (l.filter p, l.filter fun x => !p x)) := by
  constructor
  · intro p l; exact List.filter_append_perm p l
  · intro p l x hx; simp only [List.mem_filter] at hx; exact hx.2
  · intro p l x hx; simp only [List.mem_filter] at hx; simpa using hx.2

theorem mem_takeWhile_true {α : Type} (p : α → Bool) (l : List α) (x : α) (h : x ∈ l.takeWhile p) :
    p x = true := by
  have := List.all_takeWhile (p := p) (l := l)
  rw [List.all_eq_true] at this
  exact this x h

theorem stdPartitionAux_spec {α : Type} (p : α → Bool) : ∀ (fuel : Nat) (l : List α),
    ((stdPartitionAux p fuel l).1 ++ (stdPartitionAux p fuel l).2).Perm l ∧
    (∀ x ∈ (stdPartitionAux p fuel l).1, p x = true) ∧
    (∀ x ∈ (stdPartitionAux p fuel l).2, p x = false) := by
  intro fuel
  induction fuel with
  | zero =>
    intro l
    simp only [stdPartitionAux]
    refine ⟨List.filter_append_perm p l, ?_, ?_⟩
    · intro x hx; simp only [List.mem_filter] at hx; exact hx.2
    · intro x hx; simp only [List.mem_filter] at hx; simpa using hx.2
  | succ fuel ih =>
    intro l
    simp only [stdPartitionAux]
    have hpre : ∀ x ∈ l.takeWhile p, p x = true := fun x hx => mem_takeWhile_true p l x hx
    have hl : l.takeWhile p ++ l.dropWhile p = l := List.takeWhile_append_dropWhile
    cases hdw : l.dropWhile p with
    | nil =>
      simp only
      rw [hdw, List.append_nil] at hl
      refine ⟨by simp [hl], hpre, by simp⟩
    | cons x mid =>
      simp only
      have hx : p x = false := by
        have := List.head_dropWhile_not p (l := l) (by rw [hdw]; simp)
        simpa [hdw] using this
      have hr : (mid.reverse.takeWhile fun y => !p y) ++ (mid.reverse.dropWhile fun y => !p y) = mid.reverse :=
        List.takeWhile_append_dropWhile
      have htail : ∀ y ∈ mid.reverse.takeWhile (fun y => !p y), p y = false := by
        intro y hy
        have := mem_takeWhile_true _ _ y hy
        simpa using this
      cases hdr : mid.reverse.dropWhile (fun y => !p y) with
      | nil =>
        simp only
        rw [hdr, List.append_nil] at hr
        refine ⟨by rw [← hdw, hl], hpre, ?_⟩
        intro y hy
        simp only [List.mem_cons] at hy
        rcases hy with hy | hy
        · subst hy; exact hx
        · exact htail y (by rw [hr]; simpa using hy)
      | cons y mid1r =>
        simp only
        have hy : p y = true := by
          have := List.head_dropWhile_not (fun y => !p y) (l := mid.reverse) (by rw [hdr]; simp)
          simpa [hdr] using this
        obtain ⟨i1, i2, i3⟩ := ih mid1r.reverse
        generalize stdPartitionAux p fuel mid1r.reverse = rec1 at i1 i2 i3
        refine ⟨?_, ?_, ?_⟩
        · -- l = pre ++ x :: mid,  mid = mid1r.reverse ++ [y] ++ tailFail.reverse
          have hmid : mid = mid1r.reverse ++ y :: (mid.reverse.takeWhile fun y => !p y).reverse := by
            have := congrArg List.reverse hr
            rw [hdr] at this
            simpa using this.symm
          have hl' : (List.takeWhile p l ++ x :: mid).Perm l := by rw [← hdw, hl]
          refine List.Perm.trans ?_ hl'
          generalize (mid.reverse.takeWhile fun y => !p y).reverse = tf at hmid ⊢
          rw [hmid]
          have h1 : (rec1.1 ++ rec1.2).Perm mid1r.reverse := i1
          -- rearrange
          have : (List.takeWhile p l ++ y :: rec1.1 ++ (rec1.2 ++ x :: tf)).Perm
              (List.takeWhile p l ++ x :: (mid1r.reverse ++ y :: tf)) := by
            rw [List.append_assoc]
            apply List.Perm.append_left
            have e1 : (y :: rec1.1 ++ (rec1.2 ++ x :: tf)).Perm (y :: x :: ((rec1.1 ++ rec1.2) ++ tf)) := by
              simp only [List.cons_append]
              apply List.Perm.cons
              have : (rec1.1 ++ (rec1.2 ++ x :: tf)).Perm (x :: (rec1.1 ++ rec1.2 ++ tf)) := by
                rw [← List.append_assoc]
                exact List.perm_middle
              exact this
            have e2 : (x :: (mid1r.reverse ++ y :: tf)).Perm (x :: y :: (mid1r.reverse ++ tf)) :=
              List.Perm.cons _ List.perm_middle
            have e3 : (y :: x :: ((rec1.1 ++ rec1.2) ++ tf)).Perm (x :: y :: (mid1r.reverse ++ tf)) :=
              (List.Perm.swap x y _).trans (List.Perm.cons _ (List.Perm.cons _ (h1.append_right tf)))
            exact e1.trans (e3.trans e2.symm)
          exact this
        · intro z hz
          simp only [List.mem_append, List.mem_cons] at hz
          rcases hz with hz | hz | hz
          · exact hpre z hz
          · subst hz; exact hy
          · exact i2 z hz
        · intro z hz
          simp only [List.mem_append, List.mem_cons, List.mem_reverse] at hz
          rcases hz with hz | hz | hz
          · exact i3 z hz
          · subst hz; exact hx
          · exact htail z hz

/-- the partition algorithm of libstdc++ satisfies the contract of `std::partition` -/
theorem partSpec_std : PartSpec stdPartition := by
  constructor
  · intro p l; exact (stdPartitionAux_spec p l.length l).1
  · intro p l; exact (stdPartitionAux_spec p l.length l).2.1
  · intro p l; exact (stdPartitionAux_spec p l.length l).2.2

/-! ### every call the encoder makes on a bit encoder respects that encoder's contract -/

theorem leafEvents_valid (P : Params) (hbl : P.bitLength ≤ 32) (base levels p : List Nat)
    (hbox : Box P base levels) (hp : InBox P base levels p) :
    ∀ (axes : List Nat), (∀ a ∈ axes, a < P.dim) → ∀ e ∈ leafEvents P levels p axes, e.2.Valid := by
  intro axes
  induction axes with
  | nil => intro _ e he; simp [leafEvents] at he
  | cons a axes ih =>
    intro hax e he
    have ha : a < P.dim := hax a (by simp)
    have hax' : ∀ x ∈ axes, x < P.dim := fun x hx => hax x (by simp [hx])
    simp only [leafEvents] at he
    split at he
    · exact ih hax' e he
    · simp only [List.mem_cons] at he
      rcases he with he | he
      · subst he
        have h1 := (hp.2 a ha).2
        have h2 := hbox.top a ha
        have h3 := two_pow_le_32 hbl
        simp only [BitOp.Valid]
        exact ⟨by omega, by omega, by omega⟩
      · exact ih hax' e he

theorem encAxis_valid (P : Params) (hdim : 1 ≤ P.dim) (hd32 : P.dim < 2^32) (pts : List (List Nat))
    (base levels : List Nat) (last : Nat) (hne : pts ≠ []) :
    ∀ e ∈ (encAxis P pts base levels last).2, e.2.Valid := by
  intro e he
  unfold encAxis at he
  split at he
  · simp at he
  · split at he
    · simp at he
    · simp only [List.mem_singleton] at he
      subst he
      have := bestAxis_lt P pts base levels hne hdim
      simp only [BitOp.Valid]
      exact ⟨by decide, by decide, by omega⟩

theorem splitEvents_valid (n first second : Nat) (h3 : 2 < n) (h32 : n < 2^32) :
    ∀ e ∈ splitEvents n first second, e.2.Valid := by
  obtain ⟨l1, l2, _⟩ := log2_bounds n h3 h32
  intro e he
  simp only [splitEvents, List.mem_append, List.mem_singleton] at he
  rcases he with he | he
  · split at he
    · simp only [List.mem_singleton] at he; subst he; simp [BitOp.Valid]
    · simp at he
  · subst he
    simp only [BitOp.Valid]
    exact ⟨l1, l2, by omega⟩

theorem enc_events_valid (part : Partition) (hpart : PartSpec part) (P : Params)
    (hbl : P.bitLength ≤ 32) (hdim : 1 ≤ P.dim) (hd32 : P.dim < 2^32) :
    ∀ (d : Nat) (ef : EFrame) (evs : List Ev), Box P ef.base ef.levels →
    (∀ p ∈ ef.pts, InBox P ef.base ef.levels p) → ef.lastAxis < P.dim → ef.pts ≠ [] →
    ef.pts.length < 2^32 →
    TreeStack.tree (encNode part P) d ef () = some (evs, ()) → ∀ e ∈ evs, e.2.Valid := by
  intro d
  induction d with
  | zero => intro ef evs _ _ _ _ _ h; simp [TreeStack.tree] at h
  | succ d ih =>
    intro ef evs hbox hin hlast hne hn32 henc
    obtain ⟨pts, last, base, levels⟩ := ef
    simp only at hbox hin hlast hne hn32
    rw [tree_succ] at henc
    simp only [encNode] at henc
    have hva := encAxis_valid P hdim hd32 pts base levels last hne
    have haxlt := encAxis_lt P hdim pts base levels last hlast hne
    generalize encAxis P pts base levels last = e at henc hva haxlt
    obtain ⟨axis, evA⟩ := e
    simp only at henc hva haxlt
    by_cases hfull0 : P.bitLength - levels.getD axis 0 = 0
    · have hstep : encNodeAt part P ⟨pts, last, base, levels⟩ axis evA = .leaf evA () := by
        simp only [encNodeAt, hfull0, if_true]
      rw [hstep] at henc
      simp only [Option.some.injEq, Prod.mk.injEq, and_true] at henc
      subst henc
      exact hva
    · by_cases hsmall : pts.length ≤ 2
      · have hstep : encNodeAt part P ⟨pts, last, base, levels⟩ axis evA =
            .leaf (evA ++ pts.flatMap fun p => leafEvents P levels p (axesFrom axis P.dim P.dim)) () := by
          simp only [encNodeAt, hfull0, if_false, hsmall, if_true]
        rw [hstep] at henc
        simp only [Option.some.injEq, Prod.mk.injEq, and_true] at henc
        subst henc
        intro e he
        simp only [List.mem_append, List.mem_flatMap] at he
        rcases he with he | ⟨p, hp, he⟩
        · exact hva e he
        · exact leafEvents_valid P hbl base levels p hbox (hin p hp) _
            (axesFrom_lt P.dim P.dim axis haxlt) e he
      · have hlv : levels.getD axis 0 < P.bitLength := by omega
        have hstep : encNodeAt part P ⟨pts, last, base, levels⟩ axis evA =
            .split (evA ++ splitEvents pts.length
                (part (fun p => p.getD axis 0 < (upperBase P base levels axis).getD axis 0) pts).1.length
                (part (fun p => p.getD axis 0 < (upperBase P base levels axis).getD axis 0) pts).2.length)
              (if (part (fun p => p.getD axis 0 < (upperBase P base levels axis).getD axis 0) pts).1.isEmpty
                then none
                else some ⟨(part (fun p => p.getD axis 0 < (upperBase P base levels axis).getD axis 0) pts).1,
                  axis, base, nextLevels levels axis⟩)
              (if (part (fun p => p.getD axis 0 < (upperBase P base levels axis).getD axis 0) pts).2.isEmpty
                then none
                else some ⟨(part (fun p => p.getD axis 0 < (upperBase P base levels axis).getD axis 0) pts).2,
                  axis, upperBase P base levels axis, nextLevels levels axis⟩) () := by
          simp only [encNodeAt, hfull0, if_false, hsmall]
          rfl
        rw [hstep] at henc
        have hperm := hpart.perm (fun p => p.getD axis 0 < (upperBase P base levels axis).getD axis 0) pts
        have hleft := hpart.left (fun p => p.getD axis 0 < (upperBase P base levels axis).getD axis 0) pts
        have hright := hpart.right (fun p => p.getD axis 0 < (upperBase P base levels axis).getD axis 0) pts
        generalize part (fun p => p.getD axis 0 < (upperBase P base levels axis).getD axis 0) pts = lr
          at henc hperm hleft hright
        obtain ⟨l, r⟩ := lr
        simp only at henc hperm hleft hright
        have hlen : l.length + r.length = pts.length := by
          have := hperm.length_eq; simpa using this
        have hmem : ∀ p, p ∈ l ∨ p ∈ r → p ∈ pts := by
          intro p hp
          exact hperm.subset (by simpa using hp)
        have hsub : ∀ (c : List (List Nat)) (b : List Nat) (o : List Ev),
            Box P b (nextLevels levels axis) → (∀ p ∈ c, InBox P b (nextLevels levels axis) p) →
            c.length ≤ pts.length →
            sub (encNode part P) d
              (if c.isEmpty then none else some ⟨c, axis, b, nextLevels levels axis⟩) () = some (o, ()) →
            ∀ e ∈ o, e.2.Valid := by
          intro c b o hb hc hcl hsubenc
          cases c with
          | nil =>
            simp only [List.isEmpty_nil, if_true, sub, Option.some.injEq, Prod.mk.injEq, and_true] at hsubenc
            subst hsubenc
            simp
          | cons x xs =>
            simp only [List.isEmpty_cons, Bool.false_eq_true, if_false, sub] at hsubenc
            exact ih ⟨x :: xs, axis, b, nextLevels levels axis⟩ o hb hc haxlt (by simp)
              (by simp only; omega) hsubenc
        cases h2 : sub (encNode part P) d
            (if r.isEmpty then none else some ⟨r, axis, upperBase P base levels axis, nextLevels levels axis⟩) () with
        | none => rw [h2] at henc; cases henc
        | some r2 =>
          obtain ⟨o2, u2⟩ := r2
          cases u2
          rw [h2] at henc
          simp only at henc
          cases h1 : sub (encNode part P) d
              (if l.isEmpty then none else some ⟨l, axis, base, nextLevels levels axis⟩) () with
          | none => rw [h1] at henc; cases henc
          | some r1 =>
            obtain ⟨o1, u1⟩ := r1
            cases u1
            rw [h1] at henc
            simp only [Option.some.injEq, Prod.mk.injEq, and_true] at henc
            subst henc
            have v2 := hsub r (upperBase P base levels axis) o2
              (box_upper P hbl base levels hbox axis haxlt hlv)
              (fun p hp => inBox_upper P hbl base levels hbox axis haxlt hlv p (hin p (hmem p (Or.inr hp)))
                (by have := hright p hp; simpa using this)) (by omega) h2
            have v1 := hsub l base o1 (box_lower P base levels hbox axis haxlt hlv)
              (fun p hp => inBox_lower P hbl base levels hbox axis haxlt hlv p (hin p (hmem p (Or.inl hp)))
                (by have := hleft p hp; simpa using this)) (by omega) h1
            intro e he
            simp only [List.mem_append] at he
            rcases he with (he | he) | he | he
            · exact hva e he
            · exact splitEvents_valid pts.length l.length r.length (by omega) hn32 e he
            · exact v2 e he
            · exact v1 e he

end Draco.Kd
