import DracoProofs.BitTwiddle
/-
  C17 (d): DirectBitEncoder / DirectBitDecoder.  Bits are packed most significant first into
  32-bit words; `EndEncoding` always appends the (possibly empty) partial word.
-/
namespace Draco

/-! ### `msbBits` -/

theorem msbBits_mod (n w : Nat) : msbBits n (w % 2^n) = msbBits n w := by
  rw [msbBits_eq_reverse, msbBits_eq_reverse, bitsOf_mod]

theorem msbBits_append (a b X Y : Nat) (hY : Y < 2^b) :
    msbBits (a + b) (X * 2^b + Y) = msbBits a X ++ msbBits b Y := by
  rw [msbBits_eq_reverse, msbBits_eq_reverse, msbBits_eq_reverse, ← List.reverse_append]
  congr 1
  have := bitsOf_add_pow b a Y X hY
  rw [Nat.add_comm a b, Nat.add_comm (X * 2^b) Y, Nat.mul_comm X (2^b)]
  exact this

theorem msbBits_split (a b W : Nat) :
    msbBits (a + b) W = msbBits a (W / 2^b) ++ msbBits b W := by
  have h := msbBits_append a b (W / 2^b) (W % 2^b) (Nat.mod_lt _ (Nat.pow_pos (by decide)))
  rw [Nat.div_add_mod', msbBits_mod] at h
  exact h

theorem msbBits_inj (n x y : Nat) (h : msbBits n x = msbBits n y) : x % 2^n = y % 2^n := by
  rw [msbBits_eq_reverse, msbBits_eq_reverse] at h
  have h' : bitsOf n x = bitsOf n y := by
    have := congrArg List.reverse h
    simpa using this
  rw [← valOfBits_bitsOf, ← valOfBits_bitsOf, h']

theorem msbBits_succ_low (n W : Nat) : msbBits (n+1) W = msbBits n (W / 2) ++ [W % 2 == 1] := by
  have := msbBits_split n 1 W
  simpa [msbBits] using this

theorem shl_mod32 (v n : Nat) (hn : n ≤ 32) :
    (v <<< (32 - n)) % 2^32 = (v % 2^n) * 2^(32 - n) := by
  rw [Nat.shiftLeft_eq]
  have : (2:Nat)^32 = 2^n * 2^(32 - n) := by rw [← Nat.pow_add]; congr 1; omega
  rw [this, Nat.mul_mod_mul_right]

theorem and_two_pow_ne_zero (w m : Nat) : ((w &&& 2^m) != 0) = w.testBit m := by
  by_cases h : w.testBit m = true
  · rw [h]
    have : (w &&& 2^m).testBit m = true := by simp [Nat.testBit_and, h]
    have hne : w &&& 2^m ≠ 0 := by
      intro h0; rw [h0] at this; simp at this
    simp [hne]
  · have hf : w.testBit m = false := by simpa using h
    rw [hf]
    have : w &&& 2^m = 0 := by
      apply Nat.eq_of_testBit_eq
      intro i
      simp only [Nat.testBit_and, Nat.testBit_two_pow, Nat.zero_testBit]
      by_cases hi : m = i
      · subst hi; simp [hf]
      · simp [hi]
    simp [this]

theorem testBit_eq_beq (w m : Nat) : w.testBit m = ((w / 2^m) % 2 == 1) := by
  rw [Nat.testBit_eq_decide_div_mod_eq]
  rcases Nat.mod_two_eq_zero_or_one (w / 2^m) with h | h <;> simp [h]

/-! ### encoder -/

/-- coded bits: full words oldest first, each most significant bit first, then the top
    `num_local_bits_` bits of `local_bits_` -/
def DirectEnc.flat (e : DirectEnc) : List Bool :=
  e.words.reverse.flatMap (msbBits 32) ++ msbBits e.num (e.loc / 2^(32 - e.num))

def DirectEnc.Inv (e : DirectEnc) : Prop :=
  e.num < 32 ∧ e.loc < 2^32 ∧ e.loc % 2^(32 - e.num) = 0 ∧ ∀ w ∈ e.words, w < 2^32

theorem DirectEnc.start_flat : DirectEnc.start.flat = [] := by
  simp [DirectEnc.start, DirectEnc.flat, msbBits]

theorem DirectEnc.start_inv : DirectEnc.start.Inv := by
  simp [DirectEnc.start, DirectEnc.Inv]

theorem directFlat_push (words : List Nat) (W : Nat) :
    (⟨W :: words, 0, 0⟩ : DirectEnc).flat = words.reverse.flatMap (msbBits 32) ++ msbBits 32 W := by
  simp [DirectEnc.flat, msbBits]

/-- the arithmetic core: appending `n` bits `V` below the `num` bits `T` held in the top of a
    32-bit word -/
theorem top_append (num n T V : Nat) (hT : T < 2^num) (hV : V < 2^n) (hfit : num + n ≤ 32) :
    2^(32 - num) * T + V * 2^(32 - num - n) = (T * 2^n + V) * 2^(32 - num - n) ∧
    V * 2^(32 - num - n) < 2^(32 - num) ∧
    (T * 2^n + V) * 2^(32 - num - n) < 2^32 ∧ T * 2^n + V < 2^(num + n) := by
  have e1 : (2:Nat)^(32 - num) = 2^n * 2^(32 - num - n) := by rw [← Nat.pow_add]; congr 1; omega
  have e2 : (2:Nat)^32 = 2^(num + n) * 2^(32 - num - n) := by rw [← Nat.pow_add]; congr 1; omega
  have hG : 0 < 2^(32 - num - n) := Nat.pow_pos (by decide)
  have h4 : T * 2^n + V < 2^(num + n) := by
    have := pow_mul_lt n num V T hV hT
    rw [Nat.add_comm n num, Nat.add_comm, Nat.mul_comm] at this
    exact this
  refine ⟨by rw [e1]; ring, ?_, ?_, h4⟩
  · rw [e1]; exact Nat.mul_lt_mul_of_pos_right hV hG
  · rw [e2]; exact Nat.mul_lt_mul_of_pos_right h4 hG

/-- one buffer update of the encoder: OR `n` new bits `V` below the `num` bits already held -/
def DirectEnc.push (e : DirectEnc) (n V : Nat) : DirectEnc :=
  let loc' := e.loc ||| V * 2^(32 - e.num - n)
  if e.num + n = 32 then ⟨loc' :: e.words, 0, 0⟩ else ⟨e.words, loc', e.num + n⟩

theorem DirectEnc.push_spec (e : DirectEnc) (n V : Nat) (he : e.Inv) (hV : V < 2^n)
    (hfit : e.num + n ≤ 32) :
    (e.push n V).flat = e.flat ++ msbBits n V ∧ (e.push n V).Inv := by
  obtain ⟨words, loc, num⟩ := e
  obtain ⟨hnum, hloc, hdiv, hwords⟩ := he
  simp only at hnum hloc hdiv hwords hfit
  obtain ⟨T, hT⟩ : ∃ T, loc = 2^(32 - num) * T := ⟨loc / 2^(32 - num), by
    have := Nat.div_add_mod loc (2^(32 - num)); omega⟩
  have hpos : 0 < 2^(32 - num) := Nat.pow_pos (by decide)
  have hTlt : T < 2^num := by
    have e2 : (2:Nat)^32 = 2^(32 - num) * 2^num := by rw [← Nat.pow_add]; congr 1; omega
    rw [hT, e2] at hloc
    exact Nat.lt_of_mul_lt_mul_left hloc
  have hTdiv : loc / 2^(32 - num) = T := by rw [hT, Nat.mul_div_cancel_left _ hpos]
  obtain ⟨a1, a2, a3, a4⟩ := top_append num n T V hTlt hV hfit
  have hor : loc ||| V * 2^(32 - num - n) = (T * 2^n + V) * 2^(32 - num - n) := by
    rw [hT, ← Nat.two_pow_add_eq_or_of_lt a2 T, a1]
  have hbits : msbBits (num + n) (T * 2^n + V) = msbBits num T ++ msbBits n V :=
    msbBits_append num n T V hV
  unfold DirectEnc.push
  simp only [hor]
  by_cases h32 : num + n = 32
  · simp only [h32, if_true]
    have hz : 32 - num - n = 0 := by omega
    rw [hz, Nat.pow_zero, Nat.mul_one] at a3 ⊢
    refine ⟨?_, ?_⟩
    · rw [directFlat_push]
      simp only [DirectEnc.flat, List.append_assoc, hTdiv]
      rw [← h32, hbits]
    · unfold DirectEnc.Inv
      simp only
      refine ⟨by decide, by decide, by simp, ?_⟩
      intro w hw
      simp only [List.mem_cons] at hw
      rcases hw with h | h
      · rw [h]; exact a3
      · exact hwords w h
  · simp only [h32, if_false]
    have hsub : 32 - (num + n) = 32 - num - n := by omega
    refine ⟨?_, ?_⟩
    · simp only [DirectEnc.flat, List.append_assoc, hTdiv, hsub]
      rw [Nat.mul_div_cancel _ (Nat.pow_pos (by decide)), hbits]
    · unfold DirectEnc.Inv
      simp only [hsub]
      exact ⟨by omega, a3, Nat.mul_mod_left _ _, hwords⟩

theorem DirectEnc.encodeBit_eq_push (e : DirectEnc) (b : Bool) (he : e.Inv) :
    e.encodeBit b = e.push 1 (if b then 1 else 0) := by
  obtain ⟨hnum, _, _, _⟩ := he
  have hsh : (1 <<< (31 - e.num)) % 2^32 = 2^(32 - e.num - 1) := by
    rw [Nat.shiftLeft_eq, Nat.one_mul, show 32 - e.num - 1 = 31 - e.num by omega]
    exact Nat.mod_eq_of_lt (Nat.pow_lt_pow_right (by decide) (by omega))
  unfold DirectEnc.encodeBit DirectEnc.push
  cases b
  · simp only [Bool.false_eq_true, if_false, Nat.zero_mul, Nat.or_zero]
  · simp only [if_true, hsh, Nat.one_mul]

theorem DirectEnc.encodeBit_spec (e : DirectEnc) (b : Bool) (he : e.Inv) :
    (e.encodeBit b).flat = e.flat ++ [b] ∧ (e.encodeBit b).Inv := by
  rw [DirectEnc.encodeBit_eq_push e b he]
  have := DirectEnc.push_spec e 1 (if b then 1 else 0) he (by cases b <;> simp) (by
    have := he.1; omega)
  cases b <;> simpa [msbBits] using this

theorem DirectEnc.encodeLsb32_eq_push (e : DirectEnc) (n v : Nat) (he : e.Inv)
    (hn1 : 1 ≤ n) (hn : n ≤ 32) :
    e.encodeLsb32 n v =
      if n ≤ 32 - e.num then e.push n (v % 2^n)
      else (e.push (32 - e.num) ((v % 2^n) / 2^(n - (32 - e.num)))).push (n - (32 - e.num))
             ((v % 2^n) % 2^(n - (32 - e.num))) := by
  obtain ⟨hnum, _, _, _⟩ := he
  unfold DirectEnc.encodeLsb32
  simp only [shl_mod32 v n hn]
  by_cases hfit : n ≤ 32 - e.num
  · simp only [hfit, if_true]
    have hshift : ((v % 2^n) * 2^(32 - n)) >>> e.num = (v % 2^n) * 2^(32 - e.num - n) := by
      rw [Nat.shiftRight_eq_div_pow]
      have : (2:Nat)^(32 - n) = 2^(32 - e.num - n) * 2^e.num := by
        rw [← Nat.pow_add]; congr 1; omega
      rw [this, ← Nat.mul_assoc, Nat.mul_div_cancel _ (Nat.pow_pos (by decide))]
    unfold DirectEnc.push
    simp only [hshift]
  · simp only [hfit, if_false]
    have hback : ((v % 2^n) * 2^(32 - n)) >>> (32 - n) = v % 2^n := by
      rw [Nat.shiftRight_eq_div_pow, Nat.mul_div_cancel _ (Nat.pow_pos (by decide))]
    simp only [hback]
    unfold DirectEnc.push
    have h1 : e.num + (32 - e.num) = 32 := by omega
    have h2 : 32 - e.num - (32 - e.num) = 0 := by omega
    have h3 : ¬ (n - (32 - e.num) = 32) := by omega
    rw [shl_mod32 (v % 2^n) (n - (32 - e.num)) (by omega)]
    simp only [h1, if_true, h2, Nat.pow_zero, Nat.mul_one, Nat.zero_or,
      Nat.zero_add, Nat.sub_zero, Nat.shiftRight_eq_div_pow, h3, if_false]

theorem DirectEnc.encodeLsb32_spec (e : DirectEnc) (n v : Nat) (he : e.Inv)
    (hn1 : 1 ≤ n) (hn : n ≤ 32) :
    (e.encodeLsb32 n v).flat = e.flat ++ msbBits n v ∧ (e.encodeLsb32 n v).Inv := by
  rw [DirectEnc.encodeLsb32_eq_push e n v he hn1 hn]
  have hV : v % 2^n < 2^n := Nat.mod_lt _ (Nat.pow_pos (by decide))
  have hnum := he.1
  by_cases hfit : n ≤ 32 - e.num
  · simp only [hfit, if_true]
    have := DirectEnc.push_spec e n (v % 2^n) he hV (by omega)
    rw [msbBits_mod] at this
    exact this
  · simp only [hfit, if_false]
    generalize hr : 32 - e.num = rem at *
    generalize hk : n - rem = k at *
    have hnk : n = rem + k := by omega
    have hV1 : (v % 2^n) / 2^k < 2^rem := by
      rw [Nat.div_lt_iff_lt_mul (Nat.pow_pos (by decide)), ← Nat.pow_add, ← hnk]; exact hV
    obtain ⟨f1, i1⟩ := DirectEnc.push_spec e rem ((v % 2^n) / 2^k) he hV1 (by omega)
    have hnum1 : (e.push rem ((v % 2^n) / 2^k)).num = 0 := by
      unfold DirectEnc.push
      have : e.num + rem = 32 := by omega
      simp [this]
    obtain ⟨f2, i2⟩ := DirectEnc.push_spec _ k ((v % 2^n) % 2^k) i1
      (Nat.mod_lt _ (Nat.pow_pos (by decide))) (by rw [hnum1]; omega)
    refine ⟨?_, i2⟩
    rw [f2, f1, List.append_assoc, msbBits_mod, ← msbBits_split, ← hnk, msbBits_mod]

theorem DirectEnc.foldl_op_spec : ∀ (ops : List BitOp) (e : DirectEnc), e.Inv →
    (∀ op ∈ ops, op.Valid) →
    (ops.foldl DirectEnc.op e).flat = e.flat ++ opsBits ops ∧ (ops.foldl DirectEnc.op e).Inv := by
  intro ops
  induction ops with
  | nil => intro e he _; simp [opsBits, he]
  | cons op ops ih =>
    intro e he hv
    have hop := hv op (by simp)
    have hs : (e.op op).flat = e.flat ++ op.bits ∧ (e.op op).Inv := by
      cases op with
      | bit b => exact DirectEnc.encodeBit_spec e b he
      | lsb32 n v => exact DirectEnc.encodeLsb32_spec e n v he hop.1 hop.2.1
    obtain ⟨r1, r2⟩ := ih (e.op op) hs.2 (fun o ho => hv o (by simp [ho]))
    rw [List.foldl_cons]
    refine ⟨?_, r2⟩
    rw [r1, hs.1]
    simp [opsBits]

/-! ### decoder -/

/-- the bits the decoder is still going to deliver -/
def DirectDec.stream (d : DirectDec) : List Bool :=
  match d.pos with
  | [] => []
  | w :: r => msbBits (32 - d.used) w ++ r.flatMap (msbBits 32)

def DirectDec.Inv (d : DirectDec) : Prop := d.used < 32 ∧ ∀ w ∈ d.pos, w < 2^32

theorem directStream_fresh (r : List Nat) : (⟨r, 0⟩ : DirectDec).stream = r.flatMap (msbBits 32) := by
  cases r <;> simp [DirectDec.stream]

theorem flatMap_msbBits_length (r : List Nat) : (r.flatMap (msbBits 32)).length = 32 * r.length := by
  induction r with
  | nil => simp
  | cons x r ih =>
    simp only [List.flatMap_cons, List.length_append, msbBits_length, ih, List.length_cons]; omega

theorem directDec_mkInv (pos : List Nat) (used : Nat) (h1 : used < 32) (h2 : ∀ w ∈ pos, w < 2^32) :
    (⟨pos, used⟩ : DirectDec).Inv := ⟨h1, h2⟩

theorem directStream_length (d : DirectDec) (w : Nat) (r : List Nat) (h : d.pos = w :: r) :
    d.stream.length = (32 - d.used) + 32 * r.length := by
  unfold DirectDec.stream
  rw [h]
  simp only [List.length_append, msbBits_length, flatMap_msbBits_length]

theorem DirectDec.nextBit_spec (d : DirectDec) (hd : d.Inv) (b : Bool) (S : List Bool)
    (hs : d.stream = b :: S) :
    (d.nextBit).1 = b ∧ (d.nextBit).2.stream = S ∧ (d.nextBit).2.Inv := by
  obtain ⟨pos, used⟩ := d
  obtain ⟨hu, hw⟩ := hd
  simp only at hu hw
  cases pos with
  | nil => simp [DirectDec.stream] at hs
  | cons w r =>
    simp only [DirectDec.stream] at hs
    obtain ⟨m, hm⟩ : ∃ m, 32 - used = m + 1 := ⟨31 - used, by omega⟩
    rw [hm, msbBits] at hs
    simp only [List.cons_append, List.cons.injEq] at hs
    obtain ⟨hb, hS⟩ := hs
    have hsh : (1 <<< (31 - used)) % 2^32 = 2^m := by
      rw [Nat.shiftLeft_eq, Nat.one_mul, show 31 - used = m by omega]
      exact Nat.mod_eq_of_lt (Nat.pow_lt_pow_right (by decide) (by omega))
    have hbit : ((w &&& (1 <<< (31 - used)) % 2^32) != 0) = b := by
      rw [hsh, and_two_pow_ne_zero, testBit_eq_beq, hb]
    unfold DirectDec.nextBit
    simp only [hbit]
    by_cases h32 : used + 1 = 32
    · simp only [h32, if_true]
      have : m = 0 := by omega
      subst this
      refine ⟨trivial, ?_, ?_⟩
      · rw [directStream_fresh, ← hS]; simp [msbBits]
      · exact directDec_mkInv _ _ (by decide) (fun x hx => hw x (by simp [hx]))
    · simp only [h32, if_false]
      refine ⟨trivial, ?_, ?_⟩
      · simp only [DirectDec.stream]
        rw [show 32 - (used + 1) = m by omega, hS]
      · exact directDec_mkInv _ _ (by omega) hw

theorem DirectDec.lsb32_spec (d : DirectDec) (hd : d.Inv) (n v : Nat) (hn1 : 1 ≤ n) (hn : n ≤ 32)
    (S : List Bool) (hs : d.stream = msbBits n v ++ S) :
    (d.lsb32 n).1 = some (v % 2^n) ∧ (d.lsb32 n).2.stream = S ∧ (d.lsb32 n).2.Inv := by
  have hlen : n ≤ d.stream.length := by rw [hs]; simp [msbBits_length]
  obtain ⟨pos, used⟩ := d
  obtain ⟨hu, hw⟩ := hd
  simp only at hu hw
  cases pos with
  | nil => simp [DirectDec.stream] at hlen; omega
  | cons w r =>
    have hwlt : w < 2^32 := hw w (by simp)
    generalize hrem : 32 - used = rem at *
    have hused : used = 32 - rem := by omega
    have hshl : (w <<< used) % 2^32 = (w % 2^rem) * 2^used := by
      rw [hused, shl_mod32 w rem (by omega)]
    unfold DirectDec.lsb32
    simp only [hrem]
    by_cases hfit : n ≤ rem
    · simp only [hfit, if_true, hshl]
      obtain ⟨k, hk⟩ : ∃ k, rem = n + k := ⟨rem - n, by omega⟩
      simp only [DirectDec.stream, hrem] at hs
      rw [hk, msbBits_split n k w, List.append_assoc] at hs
      obtain ⟨e1, e2⟩ := List.append_inj hs (by simp [msbBits_length])
      have hval : ((w % 2^rem) * 2^used) >>> (32 - n) = v % 2^n := by
        rw [Nat.shiftRight_eq_div_pow]
        have hp : (2:Nat)^(32 - n) = 2^k * 2^used := by rw [← Nat.pow_add]; congr 1; omega
        rw [hp, Nat.mul_div_mul_right _ _ (Nat.pow_pos (by decide)), hk,
          Nat.add_comm n k, Nat.pow_add, Nat.mod_mul_right_div_self]
        exact msbBits_inj n _ _ e1
      rw [hval]
      by_cases h32 : used + n = 32
      · simp only [h32, if_true]
        have : k = 0 := by omega
        subst this
        refine ⟨trivial, ?_, directDec_mkInv _ _ (by decide) (fun x hx => hw x (by simp [hx]))⟩
        rw [directStream_fresh, ← e2]; simp [msbBits]
      · simp only [h32, if_false]
        refine ⟨trivial, ?_, directDec_mkInv _ _ (by omega) hw⟩
        simp only [DirectDec.stream]
        rw [show 32 - (used + n) = k by omega, e2]
    · simp only [hfit, if_false]
      cases r with
      | nil =>
        rw [directStream_length ⟨[w], used⟩ w [] rfl] at hlen
        simp at hlen; omega
      | cons w1 r' =>
        have hw1 : w1 < 2^32 := hw w1 (by simp)
        obtain ⟨k, hk⟩ : ∃ k, n = rem + k := ⟨n - rem, by omega⟩
        have hk1 : 1 ≤ k := by omega
        have hk32 : k ≤ used := by omega
        simp only [DirectDec.stream, hrem, List.flatMap_cons] at hs
        rw [hk, msbBits_split rem k v, show (32:Nat) = k + (32 - k) by omega,
          msbBits_split k (32 - k) w1] at hs
        simp only [List.append_assoc] at hs
        obtain ⟨e1, hs2⟩ := List.append_inj hs (by simp [msbBits_length])
        obtain ⟨e2, e3⟩ := List.append_inj hs2 (by simp [msbBits_length])
        have hB := msbBits_inj rem _ _ e1
        have hY := msbBits_inj k _ _ e2
        have hYlt : w1 / 2^(32 - k) < 2^k := by
          rw [Nat.div_lt_iff_lt_mul (Nat.pow_pos (by decide)), ← Nat.pow_add,
            show k + (32 - k) = 32 by omega]
          exact hw1
        rw [Nat.mod_eq_of_lt hYlt] at hY
        have hsub : n - rem = k := by omega
        simp only [hshl, hsub]
        have hl : ((w % 2^rem) * 2^used) >>> (32 - k - rem) = 2^k * (w % 2^rem) := by
          rw [Nat.shiftRight_eq_div_pow]
          have hp : (2:Nat)^used = 2^k * 2^(32 - k - rem) := by rw [← Nat.pow_add]; congr 1; omega
          rw [hp, ← Nat.mul_assoc, Nat.mul_div_cancel _ (Nat.pow_pos (by decide)), Nat.mul_comm]
        rw [hl, Nat.shiftRight_eq_div_pow, ← Nat.two_pow_add_eq_or_of_lt hYlt]
        refine ⟨?_, ?_, directDec_mkInv _ _ (by omega)
          (fun x hx => hw x (List.mem_cons_of_mem _ hx))⟩
        · congr 1
          rw [hk, Nat.add_comm rem k, Nat.pow_add, Nat.mod_mul, hB, hY]
          omega
        · simp only [DirectDec.stream]
          rw [show k + (32 - k) = 32 by omega] at e3
          exact e3

theorem direct_run : ∀ (ops : List BitOp) (d : DirectDec) (S : List Bool) (acc : List (Option Nat)),
    (∀ op ∈ ops, op.Valid) → d.Inv → d.stream = opsBits ops ++ S →
    (runReqs DirectDec.req (ops.map BitOp.req) d acc).1 =
      acc.reverse ++ ops.map (fun op => some op.value) := by
  intro ops
  induction ops with
  | nil => intro d S acc _ _ _; simp [runReqs]
  | cons op ops ih =>
    intro d S acc hv hd hs
    have hv' : ∀ o ∈ ops, o.Valid := fun o ho => hv o (by simp [ho])
    have hop := hv op (by simp)
    simp only [opsBits, List.flatMap_cons, List.append_assoc] at hs
    cases op with
    | bit b =>
      simp only [BitOp.bits, List.cons_append, List.nil_append] at hs
      obtain ⟨h1, h2, h3⟩ := DirectDec.nextBit_spec d hd b _ hs
      simp only [List.map_cons, BitOp.req, runReqs, DirectDec.req, h1]
      rw [ih _ S _ hv' h3 h2]
      simp [BitOp.value]
    | lsb32 n v =>
      simp only [BitOp.bits] at hs
      obtain ⟨h1, h2, h3⟩ := DirectDec.lsb32_spec d hd n v hop.1 hop.2.1 _ hs
      simp only [List.map_cons, BitOp.req, runReqs, DirectDec.req, h1]
      rw [ih _ S _ hv' h3 h2]
      simp [BitOp.value]

theorem readWords32_flatMap : ∀ (ws : List Nat) (rest : Bytes), (∀ w ∈ ws, w < 2^32) →
    readWords32 ws.length (ws.flatMap (writeLE 4) ++ rest) = ws := by
  intro ws
  induction ws with
  | nil => intro rest _; rfl
  | cons w ws ih =>
    intro rest h
    have hl := writeLE_length 4 w
    simp only [List.length_cons, readWords32, List.flatMap_cons, List.append_assoc]
    rw [List.take_left' hl, List.drop_left' hl, leValue_writeLE, ih rest (fun x hx => h x (by simp [hx]))]
    congr 1
    exact Nat.mod_eq_of_lt (by have := h w (by simp); simpa using this)

theorem flatMap_writeLE_length (ws : List Nat) : (ws.flatMap (writeLE 4)).length = 4 * ws.length := by
  induction ws with
  | nil => simp
  | cons x r ih =>
    simp only [List.flatMap_cons, List.length_append, writeLE_length, ih, List.length_cons]; omega

/-- `StartDecoding` on a size-prefixed block of words (bytes kept opaque) -/
theorem directStart_bytes (hdr body rest : Bytes) (ws : List Nat)
    (hhdr : readLE 4 (hdr ++ (body ++ rest)) = some (body.length, body ++ rest))
    (hlen : body.length = 4 * ws.length) (hpos : 0 < ws.length)
    (hwords : readWords32 ws.length (body ++ rest) = ws) :
    directStart (hdr ++ (body ++ rest)) = some (⟨ws, 0⟩, rest) := by
  unfold directStart
  rw [hhdr]
  have e1 : ¬ (body.length = 0 ∨ body.length % 4 ≠ 0) := by omega
  have e2 : ¬ body.length > (body ++ rest).length := by simp
  have e3 : body.length / 4 = ws.length := by omega
  simp only [e1, e2, if_false, e3, hwords, List.drop_left']

theorem DirectEnc.flat_length (e : DirectEnc) : e.flat.length = 32 * e.words.length + e.num := by
  unfold DirectEnc.flat
  simp only [List.length_append, flatMap_msbBits_length, msbBits_length, List.length_reverse]

theorem directDecode_of_start (reqs : List BitReq) (input rest : Bytes)
    (d : DirectDec) (h : directStart input = some (d, rest)) :
    directDecode reqs input = some ((runReqs DirectDec.req reqs d []).1, rest) := by
  unfold directDecode
  rw [h]

/-- `EndEncoding` then `StartDecoding`: the decoder holds the words and its stream starts with
    the coded bits -/
theorem direct_start_finish (e : DirectEnc) (he : e.Inv) (hlen : e.flat.length + 3 < 2^32)
    (rest : Bytes) :
    ∃ d pad, directStart (e.finish ++ rest) = some (d, rest) ∧ d.Inv ∧ d.stream = e.flat ++ pad := by
  obtain ⟨hnum, hloc, _, hwords⟩ := he
  have hfl := DirectEnc.flat_length e
  have hws : ∀ w ∈ (e.loc :: e.words).reverse, w < 2^32 := by
    intro w hw
    simp only [List.mem_reverse, List.mem_cons] at hw
    rcases hw with h | h
    · rw [h]; exact hloc
    · exact hwords w h
  have hwl : ((e.loc :: e.words).reverse).length = e.words.length + 1 := by simp
  have hstream : ((e.loc :: e.words).reverse).flatMap (msbBits 32) =
      e.flat ++ msbBits (32 - e.num) e.loc := by
    have hs := msbBits_split e.num (32 - e.num) e.loc
    rw [show e.num + (32 - e.num) = 32 by omega] at hs
    simp only [List.reverse_cons, List.flatMap_append, List.flatMap_cons, List.flatMap_nil,
      List.append_nil, DirectEnc.flat, hs, List.append_assoc]
  unfold DirectEnc.finish
  generalize (e.loc :: e.words).reverse = ws at *
  have hsz : (ws.length % 2^32 * 4) % 2^32 = 4 * ws.length := by omega
  refine ⟨⟨ws, 0⟩, msbBits (32 - e.num) e.loc, ?_, directDec_mkInv _ _ (by decide) hws, ?_⟩
  · simp only [hsz, List.append_assoc]
    have hbl := flatMap_writeLE_length ws
    have hrw := readWords32_flatMap ws rest hws
    generalize ws.flatMap (writeLE 4) = body at *
    apply directStart_bytes _ body rest ws _ hbl (by omega) hrw
    rw [readLE_writeLE, ← hbl]
    congr 2
    exact Nat.mod_eq_of_lt (by simp; omega)
  · rw [directStream_fresh, hstream]

/-- DirectBitEncoder / DirectBitDecoder round trip: every decoder call succeeds (`some`) and
    returns the value of the matching encoder call -/
theorem direct_decode_encode (ops : List BitOp) (hv : ∀ op ∈ ops, op.Valid)
    (hlen : (opsBits ops).length + 3 < 2^32) (rest : Bytes) :
    directDecode (ops.map BitOp.req) (directEncode ops ++ rest) =
      some (ops.map (fun op => some op.value), rest) := by
  obtain ⟨f1, f2⟩ := DirectEnc.foldl_op_spec ops DirectEnc.start DirectEnc.start_inv hv
  rw [DirectEnc.start_flat, List.nil_append] at f1
  unfold directEncode
  generalize ops.foldl DirectEnc.op DirectEnc.start = e at f1 f2 ⊢
  obtain ⟨d, pad, h1, h2, h3⟩ := direct_start_finish e f2 (by rw [f1]; exact hlen) rest
  rw [directDecode_of_start _ _ rest d h1, direct_run ops d pad [] hv h2 (by rw [h3, f1])]
  simp

end Draco
