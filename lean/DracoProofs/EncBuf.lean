import DracoModel.EncBuf
import DracoProofs.BitBuf
import DracoProofs.Scalar
/-
  The stateful EncoderBuffer refines the pure item-by-item specification, and the item
  sequence is read back exactly by a DecoderBuffer.
-/
namespace Draco
open EncBuf

theorem putAll_spec : ∀ (ops : List (Nat × Nat)) (b : EncBuf),
    b.active = true → b.bits.length + (putBitsAll ops).length ≤ 8 * b.reserved →
    putAll ops b = some { b with bits := b.bits ++ putBitsAll ops } := by
  intro ops
  induction ops with
  | nil => intro b _ _; simp [putAll, putBitsAll]
  | cons p ps ih =>
    intro b hact hlen
    have hsplit : putBitsAll (p :: ps) = bitsOf p.1 p.2 ++ putBitsAll ps := by
      simp [putBitsAll]
    rw [hsplit, List.length_append, bitsOf_length] at hlen
    have h1 : ¬ (b.bits.length + p.1 > 8 * b.reserved) := by omega
    simp only [putAll, EncBuf.putBits, hact, Bool.not_true, Bool.false_eq_true, if_false, h1]
    have hact' : ({ b with bits := b.bits ++ bitsOf p.1 p.2 } : EncBuf).active = true := by
      simpa [EncBuf.active] using hact
    rw [ih _ hact' (by simp [bitsOf_length]; omega)]
    simp [hsplit, List.append_assoc]

theorem take_append_replicate (pre : Bytes) (k : Nat) :
    (pre ++ List.replicate k 0).take ((pre ++ List.replicate k 0).length - k) = pre := by
  simp

/-- one item on an inactive buffer appends exactly its specified bytes and leaves the buffer inactive -/
theorem runItem_spec (b : EncBuf) (it : BufItem) (hb : b.active = false) (hw : it.wf) :
    ∃ b', b.runItem it = some b' ∧ b'.buffer = b.buffer ++ it.enc ∧ b'.active = false := by
  cases it with
  | raw bs =>
    refine ⟨{ b with buffer := b.buffer ++ bs }, ?_, rfl, ?_⟩
    · simp [EncBuf.runItem, EncBuf.encode, hb]
    · simpa [EncBuf.active] using hb
  | varint v =>
    refine ⟨{ b with buffer := b.buffer ++ encVarint v }, ?_, rfl, ?_⟩
    · simp [EncBuf.runItem, EncBuf.encode, hb]
    · simpa [EncBuf.active] using hb
  | region ws req ops =>
    obtain ⟨hreq, hlen⟩ := hw
    have hreq' : (req == 0) = false := by
      cases req with
      | zero => omega
      | succ n => rfl
    have hpos : 0 < (req + 7) / 8 := by omega
    let b1 : EncBuf :=
      { buffer := b.buffer ++ List.replicate ((if ws then 8 else 0) + (req + 7) / 8) 0,
        reserved := (req + 7) / 8, encodeSize := ws, bits := [] }
    have hstart : b.startBits req ws = some b1 := by
      simp [EncBuf.startBits, hb, hreq', b1]
    have hact1 : b1.active = true := by simp [EncBuf.active, b1, hpos]
    have hput := putAll_spec ops b1 hact1 (by simpa [b1] using hlen)
    have hl := packBits_length _ (putBitsAll ops) (Nat.le_refl _)
    let b2 : EncBuf := { b1 with bits := b1.bits ++ putBitsAll ops }
    have hrun : b.runItem (.region ws req ops) = some b2.endBits := by
      simp only [EncBuf.runItem, hstart, hput, b2]
    refine ⟨b2.endBits, hrun, ?_, ?_⟩
    · cases ws with
      | false =>
        simp [EncBuf.endBits, EncBuf.active, b2, b1, hpos, BufItem.enc, encBitRegion]
      | true =>
        have hk : 8 + (req + 7) / 8 = (req + 7) / 8 + 8 := by omega
        simp [EncBuf.endBits, EncBuf.active, b2, b1, hpos, BufItem.enc, encBitRegion, hl, hk, List.append_assoc]
    · cases ws <;> simp [EncBuf.endBits, EncBuf.active, b2, b1, hpos]

/-- Refinement: any sequence of well-formed items run on the stateful buffer (with its members
    surviving from item to item) produces the concatenation of the items' specified bytes. -/
theorem runItems_spec : ∀ (items : List BufItem) (b : EncBuf), b.active = false →
    (∀ it ∈ items, it.wf) →
    ∃ b', b.runItems items = some b' ∧ b'.buffer = b.buffer ++ items.flatMap BufItem.enc ∧ b'.active = false := by
  intro items
  induction items with
  | nil => intro b hb _; exact ⟨b, rfl, by simp, hb⟩
  | cons it its ih =>
    intro b hb hw
    obtain ⟨b1, h1, hbuf1, hact1⟩ := runItem_spec b it hb (hw it (by simp))
    obtain ⟨b2, h2, hbuf2, hact2⟩ := ih b1 hact1 (fun i hi => hw i (by simp [hi]))
    refine ⟨b2, ?_, ?_, hact2⟩
    · simp only [EncBuf.runItems, h1, h2]
    · rw [hbuf2, hbuf1]; simp [List.append_assoc]

theorem readBytes_append (bs rest : Bytes) : readBytes bs.length (bs ++ rest) = some (bs, rest) := by
  simp [readBytes]

/-- side conditions under which a reader recovers an item: varints fit 64 bits, bit groups are at
    most 32 bits wide, a stored region size fits 64 bits -/
def BufItem.readable : BufItem → Prop
  | .raw _ => True
  | .varint v => v < 2^64
  | .region ws _ ops => (∀ p ∈ ops, p.1 ≤ 32) ∧ (ws = true → ((putBitsAll ops).length + 7) / 8 < 2^64)

theorem decItems_enc : ∀ (items : List BufItem) (rest : Bytes), (∀ it ∈ items, it.readable) →
    decItems (items.map BufItem.shape) (items.flatMap BufItem.enc ++ rest) = some (items.map BufItem.val, rest) := by
  intro items
  induction items with
  | nil => intro rest _; simp [decItems]
  | cons it its ih =>
    intro rest hr
    have hit := hr it (by simp)
    have htl := ih rest (fun i hi => hr i (by simp [hi]))
    cases it with
    | raw bs =>
      simp only [List.map_cons, List.flatMap_cons, BufItem.shape, BufItem.enc, BufItem.val, decItems,
        List.append_assoc, readBytes_append, htl]
    | varint v =>
      have hv := decVarint_enc (w := 64) (by simp) v hit (its.flatMap BufItem.enc ++ rest)
      simp only [List.map_cons, List.flatMap_cons, BufItem.shape, BufItem.enc, BufItem.val, decItems,
        List.append_assoc, hv, htl]
    | region ws req ops =>
      have hd := decBitRegion_enc ws ops (its.flatMap BufItem.enc ++ rest) hit.1 hit.2
      simp only [List.map_cons, List.flatMap_cons, BufItem.shape, BufItem.enc, BufItem.val, decItems,
        List.append_assoc, hd, htl]

end Draco
