import DracoModel.EbEncoder
import DracoProofs.EbCTIso
import DracoProofs.EbBasic
/-
  Isomorphism of corner table VIEWS (`TView`) and of the mesh data of an attribute sequence (`MeshData`):
  the relation between what the DECODER's traversers / prediction schemes work on (all `3 · numFaces` corners of
  its table are in use) and what the ENCODER's work on (the original table, which may have additional —
  degenerate, never processed — faces).  The corner map `φ` is extended to the invalid corner by `ext`.

  Stated in terms of the checked accessors of the model (`TView.opposite`, `TView.vertex`, `TView.isOnBoundary`),
  so that every function that reaches the table only through them can be transported.
-/
namespace Draco.EbEnc
open Draco
open Draco.Eb hiding iabs nextC prevC

/-- a corner map extended by `inv ↦ inv` -/
def ext (φ : Nat → Nat) (c : Nat) : Nat := if c = inv then inv else φ c

@[simp] theorem ext_inv (φ : Nat → Nat) : ext φ inv = inv := by simp [ext]
theorem ext_of_ne (φ : Nat → Nat) {c : Nat} (h : c ≠ inv) : ext φ c = φ c := by simp [ext, h]

/-- `TVIso d e φ ψ`: the view `d` — every one of its `3 * d.numFaces` corners in use — is embedded into the
    view `e` by the corner map `φ` and the vertex map `ψ`. -/
structure TVIso (d e : TView) (φ ψ : Nat → Nat) : Prop where
  isAtt : d.isAtt = e.isAtt
  /-- both tables fit the `uint32_t` index type -/
  fits : 3 * d.numFaces ≤ inv ∧ 3 * e.numFaces ≤ inv ∧ d.c2v.size ≤ inv ∧ e.c2v.size ≤ inv
  phi_lt : ∀ c, c < 3 * d.numFaces → φ c < 3 * e.numFaces
  phi_inj : ∀ c c', c < 3 * d.numFaces → c' < 3 * d.numFaces → φ c = φ c' → c = c'
  phi_next : ∀ c, c < 3 * d.numFaces → φ (Eb.nextC c) = Eb.nextC (φ c)
  /-- `Opposite` (of the view: seam edges of an attribute table are boundaries) corresponds -/
  opposite : ∀ c, c < 3 * d.numFaces →
    ∃ o, d.opposite c = .ok o ∧ (o = inv ∨ o < 3 * d.numFaces) ∧ e.opposite (φ c) = .ok (ext φ o)
  /-- `Vertex` corresponds -/
  vertex : ∀ c, c < 3 * d.numFaces →
    ∃ v, d.vertex c = .ok v ∧ v < d.numVertices ∧ e.vertex (φ c) = .ok (ψ v) ∧ ψ v < e.numVertices
  /-- the vertex map is injective on the vertices of corners -/
  psi_inj : ∀ c c' v v', c < 3 * d.numFaces → c' < 3 * d.numFaces → d.vertex c = .ok v → d.vertex c' = .ok v' →
    ψ v = ψ v' → v = v'
  /-- `IsOnBoundary` (through the left-most corner of the vertex) corresponds -/
  boundary : ∀ c v, c < 3 * d.numFaces → d.vertex c = .ok v →
    ∃ b, d.isOnBoundary v = .ok b ∧ e.isOnBoundary (ψ v) = .ok b

/-- `MDIso d e φ ψ`: the mesh data of an attribute sequence on the decoder's side (`d`) and on the encoder's
    side (`e`): isomorphic views, the same entries in the same order (`d2c`), corresponding vertex → entry maps
    on the vertices of corners. -/
structure MDIso (d e : MeshData) (φ ψ : Nat → Nat) : Prop where
  view : TVIso d.t e.t φ ψ
  d2c_size : e.d2c.size = d.d2c.size
  d2c : ∀ p (h : p < d.d2c.size), d.d2c[p] < 3 * d.t.numFaces ∧ e.d2c[p]! = φ d.d2c[p]
  v2d : ∀ c v, c < 3 * d.t.numFaces → d.t.vertex c = .ok v →
    ∃ x, (∀ site, rd site d.v2d v = .ok x) ∧ (∀ site, rd site e.v2d (ψ v) = .ok x)

namespace TVIso
variable {d e : TView} {φ ψ : Nat → Nat}

theorem nextC_lt {n c : Nat} (h : c < 3 * n) : Eb.nextC c < 3 * n := by
  have : c ≠ inv → True := fun _ => trivial
  unfold Eb.nextC
  split
  · rename_i hc; simp at hc; omega
  · split <;> (rename_i h2; simp at h2; omega)

theorem prevC_eq (c : Nat) (hlt : c < inv) : Eb.prevC c = Eb.nextC (Eb.nextC c) := by
  have h1 := Eb.nextC_lt c hlt
  have h2 := Eb.nextC_lt _ h1
  have := Eb.prevC_nextC _ h2
  rw [Eb.nextC_three c hlt] at this
  exact this

theorem prevC_lt {n c : Nat} (h : c < 3 * n) (hn : 3 * n ≤ inv) : Eb.prevC c < 3 * n := by
  rw [prevC_eq c (by omega)]; exact nextC_lt (nextC_lt h)

theorem phi_prev (h : TVIso d e φ ψ) (c : Nat) (hc : c < 3 * d.numFaces) : φ (Eb.prevC c) = Eb.prevC (φ c) := by
  have h1 := h.fits.1
  have h2 := h.fits.2.1
  have h3 := h.phi_lt c hc
  rw [prevC_eq c (by omega), prevC_eq (φ c) (by omega), h.phi_next _ (nextC_lt hc), h.phi_next _ hc]

theorem phi_ne_inv (h : TVIso d e φ ψ) (c : Nat) (hc : c < 3 * d.numFaces) : φ c ≠ inv := by
  have := h.phi_lt c hc
  have := h.fits.2.1
  omega

theorem ne_inv (h : TVIso d e φ ψ) (c : Nat) (hc : c < 3 * d.numFaces) : c ≠ inv := by
  have := h.fits.1
  omega

end TVIso

end Draco.EbEnc
