import DracoProofs.EbCTIso
import DracoProofs.EbSplitFreeLink
/-
  CHECKER COMPLETENESS: the Boolean checker `ctIso` (DracoModel/EbEncoder.lean) accepts whenever the Prop `CTIso`
  (DracoProofs/EbCTIso.lean) holds — the converse of `ctIso_sound`.  No side condition is needed: the checker's only
  tests are the two size checks (fields `faces`, `sizes`), the corner loop (`corner_lt`, `inj`) and the
  opposite / vertex loop (`opp_inv`, `opp_map`, `vertex_lt`, `vertex`).

  * `loop1_none`: the corner loop never returns early (the inverse corner map built so far marks exactly the images of
    the corners seen so far; injectivity of `phi`);
  * `loop2_none`: the opposite / vertex loop never returns early (the partial maps `v2e`, `e2v` built so far send a decoder
    vertex to the encoder vertex of the image of one of its corners and back; the two directions of `CTIso.vertex`);
  * `ctIso_complete`, `ctIso_iff_CTIso`, `ctIso_of_CTIso_link`.
-/
namespace Draco.EbEnc
open Draco Draco.Eb

namespace CTIsoComplete

/-! ### helper lemmas (copies of `ConnNoOpp.loop_none`, `range_none`, `foldl_max_ge`, `ctIso_of_loops`; that file is not
    importable while the connectivity-link files are being repaired) -/

/-- a loop none of whose iterations returns early -/
theorem loop_none {β : Type} (f : Nat → Option Bool × β → Id (ForInStep (Option Bool × β)))
    (I : Nat → β → Prop) (n : Nat)
    (hstep : ∀ d b, d < n → I d b → ∃ b', f d (none, b) = pure (ForInStep.yield (none, b')) ∧ I (d + 1) b') :
    ∀ k a b, a + k = n → I a b →
      (Id.run (forIn (List.range' a k 1) (none, b) f)).1 = none ∧
        I n (Id.run (forIn (List.range' a k 1) (none, b) f)).2 := by
  intro k
  induction k with
  | zero =>
    intro a b hk hI
    have : a = n := by omega
    subst this
    simp [hI]
  | succ k ih =>
    intro a b hk hI
    rw [List.range'_succ, List.forIn_cons]
    obtain ⟨b', hf, hI'⟩ := hstep a b (by omega) hI
    rw [hf]
    simp only [pure_bind]
    exact ih (a + 1) b' (by omega) hI'

theorem range_none {β : Type} (f : Nat → Option Bool × β → Id (ForInStep (Option Bool × β)))
    (I : Nat → β → Prop) (n : Nat) (b : β) (h0 : I 0 b)
    (hstep : ∀ d b, d < n → I d b → ∃ b', f d (none, b) = pure (ForInStep.yield (none, b')) ∧ I (d + 1) b') :
    (Id.run (forIn [:n] (none, b) f)).1 = none := by
  rw [Std.Legacy.Range.forIn_eq_forIn_range']
  have := (loop_none f I n hstep n 0 b (by omega) h0).1
  simpa [Std.Legacy.Range.size] using this

theorem foldl_max_ge : ∀ (l : List Nat) (init : Nat),
    init ≤ l.foldl (fun m v => max m (v + 1)) init ∧ ∀ x ∈ l, x + 1 ≤ l.foldl (fun m v => max m (v + 1)) init := by
  intro l
  induction l with
  | nil => intro init; exact ⟨Nat.le_refl _, fun x hx => by cases hx⟩
  | cons a l ih =>
    intro init
    obtain ⟨h1, h2⟩ := ih (max init (a + 1))
    rw [List.foldl_cons]
    refine ⟨by omega, fun x hx => ?_⟩
    rcases List.mem_cons.mp hx with e | e
    · rw [e]; omega
    · exact h2 x e

/-- `ctIso` from its two loops -/
theorem ctIso_of_loops (t : CT) (processed : Array Nat) (numFaces : Nat) (dc2v dopp : Array Nat)
    (hf : numFaces = processed.size) (hs1 : dc2v.size = 3 * numFaces) (hs2 : dopp.size = 3 * numFaces)
    (h1 : (Id.run (forIn [:3 * numFaces] (none, Array.replicate t.numCorners inv) (step1 t processed))).1 = none)
    (h2 : (Id.run (forIn [:3 * numFaces]
              (none, Array.replicate (dc2v.foldl (fun m v => max m (v + 1)) 0) inv, Array.replicate t.numVertices inv)
              (step2 t processed numFaces dc2v dopp))).1 = none) :
    ctIso t processed numFaces dc2v dopp = true := by
  unfold ctIso
  split
  · rename_i hne
    simp at hne; exact absurd hf hne
  split
  · rename_i hne
    simp at hne
    rcases hne with e | e
    · exact absurd hs1 e
    · exact absurd hs2 e
  simp only [bind, Id.run]
  split
  · rename_i r hr
    have hr' : (Id.run (forIn [:3 * numFaces] (none, Array.replicate t.numCorners inv) (step1 t processed))).1
        = some r := hr
    rw [h1] at hr'; cases hr'
  · split
    · rename_i r hr2
      have hr2' : (Id.run (forIn [:3 * numFaces]
              (none, Array.replicate (dc2v.foldl (fun m v => max m (v + 1)) 0) inv, Array.replicate t.numVertices inv)
              (step2 t processed numFaces dc2v dopp))).1 = some r := hr2
      rw [h2] at hr2'; cases hr2'
    · rfl

theorem set!_get (a : Array Nat) (i v x : Nat) (h : i < a.size) :
    (a.set! i v)[x]! = if x = i then v else a[x]! := by
  simp only [Array.set!_eq_setIfInBounds, Array.getElem!_eq_getD, Array.getD_eq_getD_getElem?,
    Array.getElem?_setIfInBounds]
  by_cases e : i = x
  · subst e; simp [h]
  · simp [e, Ne.symm e]

section
variable {t : CT} {processed : Array Nat} {n : Nat} {dc2v dopp : Array Nat}

/-- the invariant of the corner loop: a marked corner is the image of a corner seen so far -/
def I1 (t : CT) (processed : Array Nat) (d : Nat) (back : Array Nat) : Prop :=
  back.size = t.numCorners ∧ ∀ c, c < t.numCorners → back[c]! ≠ inv → ∃ d', d' < d ∧ phi processed d' = c

/-- **the corner loop accepts** -/
theorem loop1_none (h : CTIso t processed n dc2v dopp) :
    (Id.run (forIn [:3 * n] (none, Array.replicate t.numCorners inv) (step1 t processed))).1 = none := by
  refine range_none (step1 t processed) (I1 t processed) (3 * n) _ ?_ ?_
  · refine ⟨by simp, ?_⟩
    intro c hc hne
    exfalso; apply hne
    simp [hc]
  · intro d back hd hI
    have hlt := h.corner_lt d hd
    have hfree : back[phi processed d]! = inv := by
      by_contra hne
      obtain ⟨d', hd', he⟩ := hI.2 _ hlt hne
      have := h.inj d' d (by omega) hd he
      omega
    refine ⟨back.set! (phi processed d) d, ?_, ?_⟩
    · unfold step1
      have h1 : ¬ phi processed d ≥ t.numCorners := by omega
      simp only [h1, if_false, hfree, bne_self_eq_false, Bool.false_eq_true]
    · refine ⟨by simpa using hI.1, ?_⟩
      intro c hc hne
      rw [set!_get _ _ _ _ (by rw [hI.1]; exact hlt)] at hne
      by_cases hcd : c = phi processed d
      · exact ⟨d, by omega, hcd.symm⟩
      · rw [if_neg hcd] at hne
        obtain ⟨d', hd', he⟩ := hI.2 c hc hne
        exact ⟨d', by omega, he⟩

/-- the invariant of the vertex loop: the partial maps send a decoder vertex to the encoder vertex of the image of one
    of its corners seen so far, and back -/
def I2 (t : CT) (processed : Array Nat) (dc2v : Array Nat) (M : Nat) (d : Nat) (s : Array Nat × Array Nat) : Prop :=
  s.1.size = M ∧ s.2.size = t.numVertices ∧
  (∀ vd, vd < M → s.1[vd]! ≠ inv → ∃ d', d' < d ∧ dc2v[d']! = vd ∧ s.1[vd]! = t.c2v[phi processed d']!) ∧
  (∀ ve, ve < t.numVertices → s.2[ve]! ≠ inv →
    ∃ d', d' < d ∧ t.c2v[phi processed d']! = ve ∧ s.2[ve]! = dc2v[d']!)

/-- the vertex part of one step -/
theorem step2v_ok (h : CTIso t processed n dc2v dopp) {M : Nat}
    (hM : ∀ d, d < 3 * n → dc2v[d]! < M) (d : Nat) (hd : d < 3 * n) (v2e e2v : Array Nat)
    (hI : I2 t processed dc2v M d (v2e, e2v)) :
    ∃ b', step2v dc2v[d]! t.c2v[phi processed d]! v2e e2v = pure (ForInStep.yield (none, b')) ∧
      I2 t processed dc2v M (d + 1) b' := by
  obtain ⟨hs1, hs2, hv, he⟩ := hI
  simp only [] at hs1 hs2 hv he
  have hvd := hM d hd
  have hve := h.vertex_lt d hd
  -- the two lookups agree with what is stored
  have hv' : v2e[dc2v[d]!]! ≠ inv → v2e[dc2v[d]!]! = t.c2v[phi processed d]! := by
    intro hne
    obtain ⟨d', hd', e1, e2⟩ := hv _ hvd hne
    rw [e2]
    exact (h.vertex d' d (by omega) hd).mp e1
  have he' : e2v[t.c2v[phi processed d]!]! ≠ inv → e2v[t.c2v[phi processed d]!]! = dc2v[d]! := by
    intro hne
    obtain ⟨d', hd', e1, e2⟩ := he _ hve hne
    rw [e2]
    exact (h.vertex d' d (by omega) hd).mpr e1
  have hsz : (decide (dc2v[d]! ≥ v2e.size) || decide (t.c2v[phi processed d]! ≥ e2v.size)) = false := by
    simp; omega
  -- the new `v2e`
  let v2e' := if v2e[dc2v[d]!]! = inv then v2e.set! dc2v[d]! t.c2v[phi processed d]! else v2e
  let e2v' := if e2v[t.c2v[phi processed d]!]! = inv then e2v.set! t.c2v[phi processed d]! dc2v[d]! else e2v
  refine ⟨(v2e', e2v'), ?_, ?_⟩
  · unfold step2v
    simp only [hsz, Bool.false_eq_true, if_false]
    by_cases c1 : v2e[dc2v[d]!]! = inv
    · have b1 : (v2e[dc2v[d]!]! == inv) = true := by simpa using c1
      have ev : v2e' = v2e.set! dc2v[d]! t.c2v[phi processed d]! := if_pos c1
      by_cases c2 : e2v[t.c2v[phi processed d]!]! = inv
      · have b2 : (e2v[t.c2v[phi processed d]!]! == inv) = true := by simpa using c2
        have ee : e2v' = e2v.set! t.c2v[phi processed d]! dc2v[d]! := if_pos c2
        rw [ev, ee]
        simp only [b1, b2, if_true]
      · have b2 : (e2v[t.c2v[phi processed d]!]! == inv) = false := by simpa using c2
        have b3 : (e2v[t.c2v[phi processed d]!]! != dc2v[d]!) = false := by simpa using he' c2
        have ee : e2v' = e2v := if_neg c2
        rw [ev, ee]
        simp only [b1, b2, b3, if_true, Bool.false_eq_true, if_false]
    · have b1 : (v2e[dc2v[d]!]! == inv) = false := by simpa using c1
      have b4 : (v2e[dc2v[d]!]! != t.c2v[phi processed d]!) = false := by simpa using hv' c1
      have ev : v2e' = v2e := if_neg c1
      by_cases c2 : e2v[t.c2v[phi processed d]!]! = inv
      · have b2 : (e2v[t.c2v[phi processed d]!]! == inv) = true := by simpa using c2
        have ee : e2v' = e2v.set! t.c2v[phi processed d]! dc2v[d]! := if_pos c2
        rw [ev, ee]
        simp only [b1, b2, b4, if_true, Bool.false_eq_true, if_false]
      · have b2 : (e2v[t.c2v[phi processed d]!]! == inv) = false := by simpa using c2
        have b3 : (e2v[t.c2v[phi processed d]!]! != dc2v[d]!) = false := by simpa using he' c2
        have ee : e2v' = e2v := if_neg c2
        rw [ev, ee]
        simp only [b1, b2, b3, b4, Bool.false_eq_true, if_false]
  · refine ⟨?_, ?_, ?_, ?_⟩
    · show v2e'.size = M
      simp only [v2e']; split <;> simp [hs1]
    · show e2v'.size = t.numVertices
      simp only [e2v']; split <;> simp [hs2]
    · intro vd hvdM hne
      show ∃ d', d' < d + 1 ∧ dc2v[d']! = vd ∧ v2e'[vd]! = t.c2v[phi processed d']!
      have hne' : v2e'[vd]! ≠ inv := hne
      by_cases c1 : v2e[dc2v[d]!]! = inv
      · have e : v2e' = v2e.set! dc2v[d]! t.c2v[phi processed d]! := by simp [v2e', c1]
        rw [e, set!_get _ _ _ _ (by rw [hs1]; exact hvd)] at hne' ⊢
        by_cases hx : vd = dc2v[d]!
        · rw [if_pos hx]
          exact ⟨d, by omega, hx.symm, rfl⟩
        · rw [if_neg hx] at hne' ⊢
          obtain ⟨d', hd', e1, e2⟩ := hv vd hvdM hne'
          exact ⟨d', by omega, e1, e2⟩
      · have e : v2e' = v2e := by simp [v2e', c1]
        rw [e] at hne' ⊢
        obtain ⟨d', hd', e1, e2⟩ := hv vd hvdM hne'
        exact ⟨d', by omega, e1, e2⟩
    · intro ve hveN hne
      show ∃ d', d' < d + 1 ∧ t.c2v[phi processed d']! = ve ∧ e2v'[ve]! = dc2v[d']!
      have hne' : e2v'[ve]! ≠ inv := hne
      by_cases c2 : e2v[t.c2v[phi processed d]!]! = inv
      · have e : e2v' = e2v.set! t.c2v[phi processed d]! dc2v[d]! := by simp [e2v', c2]
        rw [e, set!_get _ _ _ _ (by rw [hs2]; exact hve)] at hne' ⊢
        by_cases hx : ve = t.c2v[phi processed d]!
        · rw [if_pos hx]
          exact ⟨d, by omega, hx.symm, rfl⟩
        · rw [if_neg hx] at hne' ⊢
          obtain ⟨d', hd', e1, e2⟩ := he ve hveN hne'
          exact ⟨d', by omega, e1, e2⟩
      · have e : e2v' = e2v := by simp [e2v', c2]
        rw [e] at hne' ⊢
        obtain ⟨d', hd', e1, e2⟩ := he ve hveN hne'
        exact ⟨d', by omega, e1, e2⟩

/-- **the opposite / vertex loop accepts** -/
theorem loop2_none (h : CTIso t processed n dc2v dopp) :
    (Id.run (forIn [:3 * n]
      (none, Array.replicate (dc2v.foldl (fun m v => max m (v + 1)) 0) inv, Array.replicate t.numVertices inv)
      (step2 t processed n dc2v dopp))).1 = none := by
  have hM : ∀ d, d < 3 * n → dc2v[d]! < dc2v.foldl (fun m v => max m (v + 1)) 0 := by
    intro d hd
    have hlt : d < dc2v.size := by rw [h.sizes.1]; exact hd
    have := (foldl_max_ge dc2v.toList 0).2 dc2v[d]! (by
      rw [getElem!_pos dc2v d hlt]
      simp)
    rw [← Array.foldl_toList]
    omega
  refine range_none (step2 t processed n dc2v dopp)
    (I2 t processed dc2v (dc2v.foldl (fun m v => max m (v + 1)) 0)) (3 * n) _ ?_ ?_
  · refine ⟨by simp, by simp, ?_, ?_⟩
    · intro vd hvd hne
      exfalso; apply hne
      simp [hvd]
    · intro ve hve hne
      exfalso; apply hne
      simp [hve]
  · intro d b hd hI
    obtain ⟨v2e, e2v⟩ := b
    obtain ⟨b', hb', hI'⟩ := step2v_ok h hM d hd v2e e2v hI
    refine ⟨b', ?_, hI'⟩
    unfold step2
    by_cases ho : dopp[d]! = inv
    · have ht := (h.opp_inv d hd).mp ho
      simp only [ho, beq_self_eq_true, if_true, ht, bne_self_eq_false, Bool.false_eq_true, if_false]
      exact hb'
    · obtain ⟨m1, m2⟩ := h.opp_map d hd ho
      have hc : (decide (dopp[d]! ≥ 3 * n) || phi processed dopp[d]! != t.opp[phi processed d]!) = false := by
        simp [m2]; omega
      have ho' : (dopp[d]! == inv) = false := by simpa using ho
      simp only [ho', Bool.false_eq_true, if_false, hc]
      exact hb'

/-- **CHECKER COMPLETENESS**: `ctIso` accepts every isomorphism `CTIso` -/
theorem ctIso_complete (h : CTIso t processed n dc2v dopp) : ctIso t processed n dc2v dopp = true :=
  ctIso_of_loops t processed n dc2v dopp h.faces h.sizes.1 h.sizes.2 (loop1_none h) (loop2_none h)

/-- the checker decides `CTIso` (under the side conditions of `ctIso_sound`) -/
theorem ctIso_iff_CTIso (hC : t.numCorners ≤ inv) (hV : t.numVertices ≤ inv)
    (hdv : ∀ d, d < 3 * n → dc2v[d]! ≠ inv) :
    ctIso t processed n dc2v dopp = true ↔ CTIso t processed n dc2v dopp :=
  ⟨ctIso_sound t processed n dc2v dopp hC hV hdv, ctIso_complete⟩

end

/-- **the connectivity link in checker form from the Prop form**: for ANY statement `P` about the decoded mesh (e.g.
    `P mesh := Runs decodeConnectivity 514 ([coder] ++ conn.bytes) mesh 514`) and any `Q` (e.g.
    `mesh.atts.size = conn.atts.size`), a link with the Prop `CTIso` is a link with `ctIso … = true`.  With this,
    `EbConnectivityRoundtrip' ch valence pf acv → EbConnectivityRoundtrip ch valence pf acv` is
    `fun h conn hc => ctIso_of_CTIso_link (h conn hc)`. -/
theorem ctIso_of_CTIso_link {t : CT} {processed : Array Nat} {P Q : Mesh → Prop}
    (h : ∃ mesh, P mesh ∧ CTIso t processed mesh.numFaces mesh.c2v mesh.opp ∧ Q mesh) :
    ∃ mesh, P mesh ∧ ctIso t processed mesh.numFaces mesh.c2v mesh.opp = true ∧ Q mesh := by
  obtain ⟨mesh, h1, h2, h3⟩ := h
  exact ⟨mesh, h1, ctIso_complete h2, h3⟩

/-! ### the split-free class in checker form (the only part that needs `DracoProofs.EbSplitFreeLink`) -/

open Draco.SeqEnc DecM in
/-- **the connectivity link for split-free traversals, checker form**: `eb_connectivity_roundtrip_splitfree_closed` with
    the Boolean `ctIso … = true` (what the op `iso-ok` evaluates) instead of the Prop `CTIso` -/
theorem eb_connectivity_roundtrip_splitfree_checker (ch : ConnChoices) (pf : Faces) (conn : ConnEnc)
    (h : encodeConnectivity ch false pf #[] = .ok conn)
    (hnoS : ∀ x, x ∈ conn.symbols.toList → x ≠ topoS)
    (hstart : ∀ b, b ∈ conn.startFaces.toList → b = false)
    (hE : conn.startFaces.size = conn.symbols.toList.count 7)
    (hnf : conn.processed.size ≤ 2 ^ 21)
    (hnv : conn.ct.numVertices - conn.ct.numIsolated ≤ 3 * 2 ^ 21)
    (hedge : 3 * conn.processed.size / 2 ≤
      (conn.ct.numVertices - conn.ct.numIsolated) * (conn.ct.numVertices - conn.ct.numIsolated - 1) / 2) :
    ∃ mesh, Runs decodeConnectivity 514 ([0] ++ conn.bytes) mesh 514 ∧
      ctIso conn.ct conn.processed mesh.numFaces mesh.c2v mesh.opp = true ∧ mesh.atts.size = conn.atts.size :=
  ctIso_of_CTIso_link
    (SplitFreeLink.eb_connectivity_roundtrip_splitfree_closed ch pf conn h hnoS hstart hE hnf hnv hedge)

/-- `EbConnectivityRoundtrip'` (Prop `CTIso`) gives `EbConnectivityRoundtrip` (checker `ctIso … = true`) -/
theorem connectivityRoundtrip_checker (ch : ConnChoices) (valence : Bool) (posFaces : Faces)
    (acv : Array (Nat × Array Nat)) (h : ConnNoOpp.EbConnectivityRoundtrip' ch valence posFaces acv) :
    ConnTri.EbConnectivityRoundtrip ch valence posFaces acv :=
  fun conn hc => ctIso_of_CTIso_link (h conn hc)

end CTIsoComplete

end Draco.EbEnc
