import DracoModel.Animation
import DracoModel.SeqDecoder
import DracoProofs.Scalar
import DracoProofs.SeqStream
/-
  Helper lemmas for C20 (keyframe animations):
    * the attribute-list state machine `Anim` (DracoModel/Animation.lean): closed forms of the two
      API calls, the invariants "unique id = index" and "all tracks have `numFrames` entries",
      monotonicity of the attribute list along a run;
    * inversion lemmas for the decoder monad and the shape of `decodeSequentialAttributes`;
    * the writer of attribute descriptors (`AttributesEncoder::EncodeAttributesEncoderData`) and
      its round trip through `decodeAttDescs`.
-/
namespace Draco

theorem Anim.setAttribute_length_atts (A : Anim) (a : AnimAttr) :
    (A.setAttribute A.atts.length a).atts = A.atts ++ [{ a with uniqueId := A.atts.length }] := by
  simp [Anim.setAttribute]

theorem Anim.setAttribute_zero_atts (A : Anim) (a : AnimAttr) :
    (A.setAttribute 0 a).atts = { a with uniqueId := 0 } :: A.atts.tail := by
  cases h : A.atts with
  | nil => simp [Anim.setAttribute, h]
  | cons x xs => simp [Anim.setAttribute, h]

@[simp] theorem Anim.setAttribute_numFrames (A : Anim) (i : Nat) (a : AnimAttr) :
    (A.setAttribute i a).numFrames = A.numFrames := rfl

/-- the timestamp attribute as stored by `SetTimestamps` -/
def tsAttr (ts : List Nat) : AnimAttr := AnimAttr.init animGeneric 1 animFloat32 false ts.length ts

/-- the temporary attribute `AddKeyframes` puts at id 0 -/
def placeholderAttr (dt nc : Nat) : AnimAttr := AnimAttr.init animGeneric nc dt false 0 []

/-- the track attribute as stored by `AddKeyframes` at index `id` -/
def trackAttr (id dt nc nf : Nat) (data : List Nat) : AnimAttr :=
  { AnimAttr.init animGeneric nc dt false nf (copyEntries nc (nc % 256) nf data) with uniqueId := id }

/-- attribute list after the "reserve id 0" step of `AddKeyframes` -/
def Anim.preAtts (A : Anim) (dt nc : Nat) : List AnimAttr :=
  if A.atts = [] then [placeholderAttr dt nc] else A.atts

/-- frame count after the "reserve id 0" step of `AddKeyframes` -/
def Anim.preFrames (A : Anim) (nc : Nat) (data : List Nat) : Nat :=
  if A.atts = [] then data.length / nc else A.numFrames


/-! ## invariants on attribute lists -/

/-- unique id = index -/
def UidIdxL (l : List AnimAttr) : Prop := ∀ (i : Nat) (a : AnimAttr), l[i]? = some a → a.uniqueId = i

/-- every attribute at an index ≥ 1 has `nf` entries; attribute 0 has `nf` or none -/
def FramesOkL (l : List AnimAttr) (nf : Nat) : Prop :=
  (∀ (i : Nat) (a : AnimAttr), l[i]? = some a → 1 ≤ i → a.size = nf) ∧
  (∀ a : AnimAttr, l[0]? = some a → a.size = 0 ∨ a.size = nf)

def Anim.UidIdx (A : Anim) : Prop := UidIdxL A.atts
def Anim.FramesOk (A : Anim) : Prop := FramesOkL A.atts A.numFrames

theorem getElem?_cons_tail {α} (x : α) (l : List α) (i : Nat) (hi : 1 ≤ i) :
    (x :: l.tail)[i]? = l[i]? := by
  obtain ⟨j, rfl⟩ : ∃ j, i = j + 1 := ⟨i - 1, by omega⟩
  cases l <;> simp

theorem UidIdxL_nil : UidIdxL [] := by intro i a h; simp at h

theorem UidIdxL_append {l : List AnimAttr} {x : AnimAttr} (h : UidIdxL l)
    (hx : x.uniqueId = l.length) : UidIdxL (l ++ [x]) := by
  intro i a hi
  rw [List.getElem?_append] at hi
  split at hi
  · exact h i a hi
  · rename_i hlt
    have : i - l.length = 0 := by
      rcases Nat.eq_zero_or_pos (i - l.length) with h0 | h0
      · exact h0
      · rw [List.getElem?_eq_none (by simp; omega)] at hi; cases hi
    rw [this] at hi
    simp at hi; subst hi; omega

theorem UidIdxL_head {l : List AnimAttr} {x : AnimAttr} (h : UidIdxL l)
    (hx : x.uniqueId = 0) : UidIdxL (x :: l.tail) := by
  intro i a hi
  rcases Nat.eq_zero_or_pos i with h0 | h0
  · subst h0; simp at hi; subst hi; exact hx
  · rw [getElem?_cons_tail x l i h0] at hi; exact h i a hi

theorem FramesOkL_nil (nf : Nat) : FramesOkL [] nf := by
  constructor
  · intro i a h; simp at h
  · intro a h; simp at h

theorem FramesOkL_append {l : List AnimAttr} {x : AnimAttr} {nf : Nat} (h : FramesOkL l nf)
    (hx : x.size = nf) (hl : l ≠ []) : FramesOkL (l ++ [x]) nf := by
  have hpos : 0 < l.length := List.length_pos_iff.mpr hl
  constructor
  · intro i a hi h1
    rw [List.getElem?_append] at hi
    split at hi
    · exact h.1 i a hi h1
    · rcases Nat.eq_zero_or_pos (i - l.length) with h0 | h0
      · rw [h0] at hi; simp at hi; subst hi; exact hx
      · rw [List.getElem?_eq_none (by simp; omega)] at hi; cases hi
  · intro a hi
    rw [List.getElem?_append_left hpos] at hi
    exact h.2 a hi

theorem FramesOkL_head {l : List AnimAttr} {x : AnimAttr} {nf : Nat} (h : FramesOkL l nf)
    (hx : x.size = 0 ∨ x.size = nf) : FramesOkL (x :: l.tail) nf := by
  constructor
  · intro i a hi h1
    rw [getElem?_cons_tail x l i h1] at hi; exact h.1 i a hi h1
  · intro a hi; simp at hi; subst hi; exact hx

theorem UidIdxL_preAtts {A : Anim} (h : A.UidIdx) (dt nc : Nat) : UidIdxL (A.preAtts dt nc) := by
  unfold Anim.preAtts
  split
  · exact UidIdxL_append UidIdxL_nil rfl
  · exact h

theorem FramesOkL_preAtts {A : Anim} (h : A.FramesOk) (dt nc : Nat) (data : List Nat) :
    FramesOkL (A.preAtts dt nc) (A.preFrames nc data) := by
  unfold Anim.preAtts Anim.preFrames
  split
  · constructor
    · intro i a hi h1
      rw [List.getElem?_eq_none (by simp; omega)] at hi; cases hi
    · intro a hi; simp at hi; subst hi; left; rfl
  · exact h

theorem Anim.preAtts_ne_nil (A : Anim) (dt nc : Nat) : A.preAtts dt nc ≠ [] := by
  unfold Anim.preAtts; split <;> simp [*]

theorem Anim.preAtts_length_pos (A : Anim) (dt nc : Nat) : 1 ≤ (A.preAtts dt nc).length :=
  List.length_pos_iff.mpr (A.preAtts_ne_nil dt nc)

theorem Anim.length_le_preAtts (A : Anim) (dt nc : Nat) :
    A.atts.length ≤ (A.preAtts dt nc).length := by
  unfold Anim.preAtts; split <;> simp [*]

/-! ## lookups under the invariant -/

theorem Anim.getAttributeIdByUniqueId_of_uidIdx {A : Anim} (h : A.UidIdx) (k : Nat) :
    A.getAttributeIdByUniqueId k = if k < A.atts.length then (k : Int) else -1 := by
  unfold Anim.getAttributeIdByUniqueId
  by_cases hk : k < A.atts.length
  · have : A.atts.findIdx? (fun a => a.uniqueId == k) = some k := by
      rw [List.findIdx?_eq_some_iff_getElem]
      refine ⟨hk, ?_, ?_⟩
      · have := h k A.atts[k] (by simp)
        simp [this]
      · intro j hj
        have := h j (A.atts[j]'(by omega)) (by simp)
        simp [this]; omega
    simp [this, hk]
  · have : A.atts.findIdx? (fun a => a.uniqueId == k) = none := by
      rw [List.findIdx?_eq_none_iff]
      intro a ha
      obtain ⟨i, hi, rfl⟩ := List.getElem_of_mem ha
      have := h i A.atts[i] (by simp)
      simp [this]; omega
    simp [this, hk]

theorem Anim.getByUniqueId_of_uidIdx {A : Anim} (h : A.UidIdx) (k : Nat) :
    A.getByUniqueId k = A.atts[k]? := by
  unfold Anim.getByUniqueId
  rw [Anim.getAttributeIdByUniqueId_of_uidIdx h]
  by_cases hk : k < A.atts.length
  · simp [hk]
  · simp [hk]


theorem Anim.setTimestamps_cases (A : Anim) (ts : List Nat) :
    (A.setTimestamps ts = (A, false) ∧ A.atts ≠ [] ∧
        (A.timestampsSize ≠ 0 ∨ ts.length ≠ A.numFrames)) ∨
    ((A.setTimestamps ts).2 = true ∧ (A.setTimestamps ts).1.atts = tsAttr ts :: A.atts.tail ∧
        (A.setTimestamps ts).1.numFrames = ts.length ∧
        (A.atts = [] ∨ (A.timestampsSize = 0 ∧ ts.length = A.numFrames))) := by
  unfold Anim.setTimestamps Anim.numAttributes
  by_cases h0 : A.atts = []
  · right; simp [h0, Anim.setAttribute_zero_atts, tsAttr, AnimAttr.init]
  · have hpos : A.atts.length > 0 := List.length_pos_iff.mpr h0
    by_cases h1 : A.timestampsSize ≠ 0
    · left; simp [hpos, h1, h0]
    · by_cases h2 : ts.length ≠ A.numFrames
      · left; simp [hpos, h1, h2, h0]
      · right
        simp only [ne_eq, Decidable.not_not] at h1 h2
        simp [hpos, h1, h2, Anim.setAttribute_zero_atts, tsAttr, AnimAttr.init]

theorem Anim.addAttribute_atts (A : Anim) (a : AnimAttr) :
    (A.addAttribute a).1.atts = A.atts ++ [{ a with uniqueId := A.atts.length }] :=
  Anim.setAttribute_length_atts A a

@[simp] theorem Anim.addAttribute_numFrames (A : Anim) (a : AnimAttr) :
    (A.addAttribute a).1.numFrames = A.numFrames := rfl

theorem Anim.addAttribute_ret (A : Anim) (a : AnimAttr) :
    (A.addAttribute a).2 = (A.atts.length : Int) := by
  show (((A.setAttribute A.atts.length a).atts.length - 1 : Nat) : Int) = _
  rw [Anim.setAttribute_length_atts]; simp

theorem Anim.addKeyframes_cases (A : Anim) (dt nc : Nat) (data : List Nat) :
    (nc = 0 ∧ A.addKeyframes dt nc data = (A, -1)) ∨
    (nc ≠ 0 ∧ data.length ≠ (nc * A.preFrames nc data) % 2^32 ∧
      (A.addKeyframes dt nc data).2 = -1 ∧
      (A.addKeyframes dt nc data).1.atts = A.preAtts dt nc ∧
      (A.addKeyframes dt nc data).1.numFrames = A.preFrames nc data ∧
      (A.atts ≠ [] → (A.addKeyframes dt nc data).1 = A)) ∨
    (nc ≠ 0 ∧ data.length = (nc * A.preFrames nc data) % 2^32 ∧
      (A.addKeyframes dt nc data).2 = ((A.preAtts dt nc).length : Int) ∧
      (A.addKeyframes dt nc data).1.atts = A.preAtts dt nc ++
        [trackAttr (A.preAtts dt nc).length dt nc (A.preFrames nc data) data] ∧
      (A.addKeyframes dt nc data).1.numFrames = A.preFrames nc data) := by
  by_cases hnc : nc = 0
  · left; simp [Anim.addKeyframes, hnc]
  · right
    unfold Anim.addKeyframes Anim.numAttributes Anim.preFrames Anim.preAtts
    simp only [hnc, if_false]
    by_cases h0 : A.atts = []
    · simp only [h0, List.length_nil, if_true]
      have hpre : (A.addAttribute (AnimAttr.init animGeneric nc dt false 0 [])).1.atts
          = [placeholderAttr dt nc] := by
        rw [Anim.addAttribute_atts, h0]; rfl
      by_cases hc : data.length ≠ (nc * (data.length / nc)) % 2^32
      · left
        rw [if_pos hc]
        exact ⟨hnc, hc, rfl, hpre, rfl, fun h => absurd rfl h⟩
      · right
        rw [if_neg hc]
        simp only [ne_eq, Decidable.not_not] at hc
        refine ⟨hnc, hc, ?_, ?_, rfl⟩
        · rw [Anim.addAttribute_ret]; simp only [hpre]
        · rw [Anim.addAttribute_atts]; simp only [hpre]; rfl
    · have hne : A.atts.length ≠ 0 := by simpa using h0
      simp only [h0, hne, if_false]
      by_cases hc : data.length ≠ (nc * A.numFrames) % 2^32
      · left; rw [if_pos hc]; exact ⟨hnc, hc, rfl, rfl, rfl, fun _ => rfl⟩
      · right
        rw [if_neg hc]
        simp only [ne_eq, Decidable.not_not] at hc
        exact ⟨hnc, hc, Anim.addAttribute_ret _ _, Anim.addAttribute_atts _ _, rfl⟩


/-! ## one API call -/

theorem Anim.step_uidIdx {A : Anim} (h : A.UidIdx) (c : AnimCall) : (A.step c).1.UidIdx := by
  cases c with
  | setTimestamps ts =>
    show (A.setTimestamps ts).1.UidIdx
    rcases A.setTimestamps_cases ts with ⟨e, -⟩ | ⟨-, e, -⟩
    · rw [e]; exact h
    · unfold Anim.UidIdx; rw [e]; exact UidIdxL_head h rfl
  | addKeyframes dt nc data =>
    show (A.addKeyframes dt nc data).1.UidIdx
    rcases A.addKeyframes_cases dt nc data with ⟨-, e⟩ | ⟨-, -, -, e, -⟩ | ⟨-, -, -, e, -⟩
    · rw [e]; exact h
    · unfold Anim.UidIdx; rw [e]; exact UidIdxL_preAtts h dt nc
    · unfold Anim.UidIdx; rw [e]; exact UidIdxL_append (UidIdxL_preAtts h dt nc) rfl

theorem Anim.step_framesOk {A : Anim} (h : A.FramesOk) (c : AnimCall) :
    (A.step c).1.FramesOk := by
  cases c with
  | setTimestamps ts =>
    show (A.setTimestamps ts).1.FramesOk
    rcases A.setTimestamps_cases ts with ⟨e, -⟩ | ⟨-, e, e2, hc⟩
    · rw [e]; exact h
    · unfold Anim.FramesOk; rw [e, e2]
      rcases hc with h0 | ⟨-, h2⟩
      · rw [h0]; exact FramesOkL_head (FramesOkL_nil _) (Or.inr rfl)
      · rw [h2]; exact FramesOkL_head h (Or.inr h2)
  | addKeyframes dt nc data =>
    show (A.addKeyframes dt nc data).1.FramesOk
    rcases A.addKeyframes_cases dt nc data with ⟨-, e⟩ | ⟨-, -, -, e, e2, -⟩ | ⟨-, -, -, e, e2⟩
    · rw [e]; exact h
    · unfold Anim.FramesOk; rw [e, e2]; exact FramesOkL_preAtts h dt nc data
    · unfold Anim.FramesOk; rw [e, e2]
      exact FramesOkL_append (FramesOkL_preAtts h dt nc data) rfl (A.preAtts_ne_nil dt nc)

/-- `B` extends `A`: what later API calls can do to a state -/
structure Anim.Ext (A B : Anim) : Prop where
  len : A.atts.length ≤ B.atts.length
  frames : A.atts ≠ [] → B.numFrames = A.numFrames
  tail : ∀ (i : Nat) (a : AnimAttr), 1 ≤ i → A.atts[i]? = some a → B.atts[i]? = some a
  head : ∀ a : AnimAttr, A.atts[0]? = some a → a.size ≠ 0 → B.atts[0]? = some a

theorem Anim.Ext.refl (A : Anim) : A.Ext A :=
  ⟨Nat.le_refl _, fun _ => rfl, fun _ _ _ h => h, fun _ h _ => h⟩

theorem Anim.Ext.trans {A B C : Anim} (h1 : A.Ext B) (h2 : B.Ext C) : A.Ext C := by
  refine ⟨Nat.le_trans h1.len h2.len, ?_, ?_, ?_⟩
  · intro hA
    have hB : B.atts ≠ [] := by
      have := List.length_pos_iff.mpr hA
      have := h1.len
      exact List.length_pos_iff.mp (by omega)
    rw [h2.frames hB, h1.frames hA]
  · intro i a hi ha; exact h2.tail i a hi (h1.tail i a hi ha)
  · intro a ha hs; exact h2.head a (h1.head a ha hs) hs

theorem Anim.timestampsSize_of_uidIdx {A : Anim} (h : A.UidIdx) {a : AnimAttr}
    (ha : A.atts[0]? = some a) : A.timestampsSize = a.size := by
  unfold Anim.timestampsSize Anim.timestamps
  rw [Anim.getByUniqueId_of_uidIdx h, ha]

theorem Anim.step_ext {A : Anim} (h : A.UidIdx) (c : AnimCall) : A.Ext (A.step c).1 := by
  cases c with
  | setTimestamps ts =>
    show A.Ext (A.setTimestamps ts).1
    rcases A.setTimestamps_cases ts with ⟨e, -⟩ | ⟨-, e, e2, hc⟩
    · rw [e]; exact Anim.Ext.refl A
    · refine ⟨?_, ?_, ?_, ?_⟩
      · rw [e]; cases A.atts <;> simp
      · intro hA; rcases hc with h0 | ⟨-, h2⟩
        · exact absurd h0 hA
        · rw [e2, h2]
      · intro i a hi ha; rw [e, getElem?_cons_tail _ _ i hi]; exact ha
      · intro a ha hs
        rcases hc with h0 | ⟨h1, -⟩
        · rw [h0] at ha; simp at ha
        · rw [Anim.timestampsSize_of_uidIdx h ha] at h1; exact absurd h1 hs
  | addKeyframes dt nc data =>
    show A.Ext (A.addKeyframes dt nc data).1
    have hpre : ∀ (i : Nat) (a : AnimAttr), A.atts[i]? = some a → (A.preAtts dt nc)[i]? = some a := by
      intro i a ha
      unfold Anim.preAtts
      split
      · rename_i h0; rw [h0] at ha; simp at ha
      · exact ha
    have hfr : A.atts ≠ [] → A.preFrames nc data = A.numFrames := by
      intro hA; unfold Anim.preFrames; simp [hA]
    rcases A.addKeyframes_cases dt nc data with ⟨-, e⟩ | ⟨-, -, -, e, e2, -⟩ | ⟨-, -, -, e, e2⟩
    · rw [e]; exact Anim.Ext.refl A
    · refine ⟨?_, ?_, ?_, ?_⟩
      · rw [e]; exact A.length_le_preAtts dt nc
      · intro hA; rw [e2, hfr hA]
      · intro i a _ ha; rw [e]; exact hpre i a ha
      · intro a ha _; rw [e]; exact hpre 0 a ha
    · have happ : ∀ (i : Nat) (a : AnimAttr), A.atts[i]? = some a →
          (A.preAtts dt nc ++ [trackAttr (A.preAtts dt nc).length dt nc (A.preFrames nc data) data])[i]?
            = some a := by
        intro i a ha
        have := hpre i a ha
        have hlt : i < (A.preAtts dt nc).length := by
          rcases List.getElem?_eq_some_iff.mp this with ⟨hh, -⟩; exact hh
        rw [List.getElem?_append_left hlt]; exact this
      refine ⟨?_, ?_, ?_, ?_⟩
      · rw [e]; have := A.length_le_preAtts dt nc; simp; omega
      · intro hA; rw [e2, hfr hA]
      · intro i a _ ha; rw [e]; exact happ i a ha
      · intro a ha _; rw [e]; exact happ 0 a ha

/-! ## runs -/

@[simp] theorem Anim.run_nil (A : Anim) : A.run [] = (A, []) := rfl

theorem Anim.run_cons (A : Anim) (c : AnimCall) (cs : List AnimCall) :
    A.run (c :: cs) = (((A.step c).1.run cs).1, (A.step c).2 :: ((A.step c).1.run cs).2) := rfl

theorem Anim.run_inv (P : Anim → Prop) (hstep : ∀ A c, P A → P (A.step c).1) :
    ∀ (cs : List AnimCall) (A : Anim), P A → P (A.run cs).1
  | [], _, h => h
  | c :: cs, A, h => by rw [Anim.run_cons]; exact Anim.run_inv P hstep cs _ (hstep A c h)

theorem Anim.run_uidIdx {A : Anim} (h : A.UidIdx) (cs : List AnimCall) : (A.run cs).1.UidIdx :=
  Anim.run_inv Anim.UidIdx (fun _ c h => Anim.step_uidIdx h c) cs A h

theorem Anim.run_framesOk {A : Anim} (h : A.FramesOk) (cs : List AnimCall) :
    (A.run cs).1.FramesOk :=
  Anim.run_inv Anim.FramesOk (fun _ c h => Anim.step_framesOk h c) cs A h

theorem Anim.empty_uidIdx : Anim.empty.UidIdx := UidIdxL_nil
theorem Anim.empty_framesOk : Anim.empty.FramesOk := FramesOkL_nil _

theorem Anim.run_ext : ∀ (cs : List AnimCall) {A : Anim}, A.UidIdx → A.Ext (A.run cs).1
  | [], A, _ => Anim.Ext.refl A
  | c :: cs, A, h => by
    rw [Anim.run_cons]
    exact (Anim.step_ext h c).trans (Anim.run_ext cs (Anim.step_uidIdx h c))

theorem Anim.run_append (A : Anim) (l1 l2 : List AnimCall) :
    (A.run (l1 ++ l2)).1 = ((A.run l1).1.run l2).1 := by
  induction l1 generalizing A with
  | nil => rfl
  | cons c cs ih => simp only [List.cons_append, Anim.run_cons]; exact ih _

/-- the state before call `k`, the call's result, and the state after it -/
theorem Anim.run_split (A : Anim) (calls : List AnimCall) (k : Nat) (c : AnimCall)
    (hk : calls[k]? = some c) :
    (A.run calls).2[k]? = some ((A.run (calls.take k)).1.step c).2 ∧
    (A.run (calls.take (k + 1))).1 = ((A.run (calls.take k)).1.step c).1 := by
  induction calls generalizing A k with
  | nil => simp at hk
  | cons d ds ih =>
    cases k with
    | zero =>
      simp at hk; subst hk
      simp [Anim.run_cons]
    | succ k =>
      simp at hk
      have := ih (A.step d).1 k hk
      simp only [Anim.run_cons, List.take_succ_cons, List.getElem?_cons_succ]
      exact this

theorem Anim.run_take_ext {A : Anim} (h : A.UidIdx) (calls : List AnimCall) (j k : Nat)
    (hjk : j ≤ k) : (A.run (calls.take j)).1.Ext (A.run (calls.take k)).1 := by
  have : calls.take k = calls.take j ++ (calls.take k).drop j := by
    have h1 := (List.take_append_drop j (calls.take k)).symm
    rw [List.take_take, Nat.min_eq_left hjk] at h1
    exact h1
  rw [this, Anim.run_append]
  exact Anim.run_ext _ (Anim.run_uidIdx h _)

theorem Anim.run_take_ext_final {A : Anim} (h : A.UidIdx) (calls : List AnimCall) (j : Nat) :
    (A.run (calls.take j)).1.Ext (A.run calls).1 := by
  rcases Nat.le_total j calls.length with hj | hj
  · have := Anim.run_take_ext h calls j calls.length hj
    rwa [List.take_length] at this
  · rw [List.take_of_length_le hj]; exact Anim.Ext.refl _

theorem Anim.run_results_length (A : Anim) (calls : List AnimCall) :
    (A.run calls).2.length = calls.length := by
  induction calls generalizing A with
  | nil => rfl
  | cons c cs ih => simp [Anim.run_cons, ih]

open DecM

/-! ## decoder monad: inversion -/

theorem DecM.bind_some {α β} {m : DecM α} {f : α → DecM β} {s : DSt} {b : β} {s' : DSt}
    (h : (m >>= f) s = (some b, s')) : ∃ a s1, m s = (some a, s1) ∧ f a s1 = (some b, s') := by
  change DecM.andThen m f s = _ at h
  unfold DecM.andThen at h
  split at h
  · cases h
  · rename_i a s1 e; exact ⟨a, s1, e, h⟩

theorem DecM.pure_some {α} {a b : α} {s s' : DSt} (h : (pure a : DecM α) s = (some b, s')) :
    a = b ∧ s = s' := by
  change (some a, s) = _ at h
  cases h; exact ⟨rfl, rfl⟩

theorem DecM.mapM'_map_eq {α β γ} {f : α → DecM β} (g : β → γ) (k : α → γ)
    (hf : ∀ a s b s', f a s = (some b, s') → g b = k a) :
    ∀ (l : List α) (s : DSt) (r : List β) (s' : DSt), mapM' f l s = (some r, s') →
      r.map g = l.map k := by
  intro l
  induction l with
  | nil =>
    intro s r s' h
    obtain ⟨rfl, -⟩ := DecM.pure_some h
    rfl
  | cons a as ih =>
    intro s r s' h
    unfold mapM' at h
    obtain ⟨b, s1, h1, h⟩ := DecM.bind_some h
    obtain ⟨bs, s2, h2, h⟩ := DecM.bind_some h
    obtain ⟨rfl, -⟩ := DecM.pure_some h
    simp only [List.map_cons, hf a s b s1 h1, ih s1 bs s2 h2]

theorem DecM.mapM'_forall {α β} {f : α → DecM β} (Q : β → Prop)
    (hf : ∀ a s b s', f a s = (some b, s') → Q b) :
    ∀ (l : List α) (s : DSt) (r : List β) (s' : DSt), mapM' f l s = (some r, s') →
      ∀ b ∈ r, Q b := by
  intro l
  induction l with
  | nil =>
    intro s r s' h
    obtain ⟨rfl, -⟩ := DecM.pure_some h
    intro b hb; cases hb
  | cons a as ih =>
    intro s r s' h
    unfold mapM' at h
    obtain ⟨b, s1, h1, h⟩ := DecM.bind_some h
    obtain ⟨bs, s2, h2, h⟩ := DecM.bind_some h
    obtain ⟨rfl, -⟩ := DecM.pure_some h
    intro x hx
    rcases List.mem_cons.mp hx with rfl | hx
    · exact hf a s x s1 h1
    · exact ih s1 bs s2 h2 x hx


/-! ## shape of the sequential attribute decoder -/

theorem DecM.fail_ne_some {α} (s : DSt) (b : α) (s' : DSt) : (DecM.fail : DecM α) s ≠ (some b, s') := by
  unfold DecM.fail; intro h; cases h

theorem decodeSequentialAttributes_shape (opts : DecOpts) (numPoints : Nat) (s s' : DSt)
    (atts : List Attribute) (h : decodeSequentialAttributes opts numPoints s = (some atts, s')) :
    ∃ descs s1, decodeAttDescs s = (some descs, s1) ∧
      atts.map (·.uniqueId) = descs.map (·.uniqueId) ∧
      ∀ a ∈ atts, a.map = none ∧ a.numValues = numPoints := by
  unfold decodeSequentialAttributes at h
  obtain ⟨descs, s1, hd, h⟩ := DecM.bind_some h
  obtain ⟨_, s2, -, h⟩ := DecM.bind_some h
  obtain ⟨st1, s3, h1, h⟩ := DecM.bind_some h
  obtain ⟨_, s4, -, h⟩ := DecM.bind_some h
  obtain ⟨_, s5, -, h⟩ := DecM.bind_some h
  obtain ⟨st2, s6, h2, h⟩ := DecM.bind_some h
  obtain ⟨st3, s7, h3, h⟩ := DecM.bind_some h
  have e1 := DecM.mapM'_map_eq (fun b : SeqAttState => b.desc.uniqueId) (fun d : AttDesc => d.uniqueId)
    (by
      intro d t b t' hb
      obtain ⟨_, _, -, hb⟩ := DecM.bind_some hb
      obtain ⟨_, _, -, hb⟩ := DecM.bind_some hb
      dsimp only at hb
      split at hb
      · obtain ⟨_, _, -, hb⟩ := DecM.bind_some hb
        split at hb
        · obtain ⟨_, _, -, hb⟩ := DecM.bind_some hb
          obtain ⟨rfl, -⟩ := DecM.pure_some hb
          rfl
        · obtain ⟨rfl, -⟩ := DecM.pure_some hb
          rfl
      · split at hb
        · obtain ⟨_, _, -, hb⟩ := DecM.bind_some hb
          obtain ⟨rfl, -⟩ := DecM.pure_some hb
          rfl
        · obtain ⟨rfl, -⟩ := DecM.pure_some hb
          rfl) _ _ _ _ h1
  have e2 := DecM.mapM'_map_eq (fun b : SeqAttState => b.desc.uniqueId) (fun d : SeqAttState => d.desc.uniqueId)
    (by
      intro d t b t' hb
      obtain ⟨_, _, -, hb⟩ := DecM.bind_some hb
      split at hb
      · obtain ⟨_, _, -, hb⟩ := DecM.bind_some hb
        obtain ⟨rfl, -⟩ := DecM.pure_some hb
        rfl
      · obtain ⟨_, _, -, hb⟩ := DecM.bind_some hb
        obtain ⟨rfl, -⟩ := DecM.pure_some hb
        rfl) _ _ _ _ h2
  have e3 := DecM.mapM'_map_eq (fun b : SeqAttState => b.desc.uniqueId) (fun d : SeqAttState => d.desc.uniqueId)
    (by
      intro d t b t' hb
      split at hb
      · obtain ⟨_, _, -, hb⟩ := DecM.bind_some hb
        obtain ⟨_, _, -, hb⟩ := DecM.bind_some hb
        obtain ⟨_, _, -, hb⟩ := DecM.bind_some hb
        obtain ⟨_, _, -, hb⟩ := DecM.bind_some hb
        obtain ⟨rfl, -⟩ := DecM.pure_some hb
        rfl
      · split at hb
        · obtain ⟨_, _, -, hb⟩ := DecM.bind_some hb
          obtain ⟨rfl, -⟩ := DecM.pure_some hb
          rfl
        · obtain ⟨rfl, -⟩ := DecM.pure_some hb
          rfl) _ _ _ _ h3
  have e4 := DecM.mapM'_map_eq
    (fun a : Attribute => (a.uniqueId, a.map, a.numValues))
    (fun d : SeqAttState => (d.desc.uniqueId, (none : Option (List Nat)), numPoints))
    (by
      intro d t a t' ha
      dsimp only at ha
      split at ha
      · obtain ⟨rfl, -⟩ := DecM.pure_some ha
        rfl
      · split at ha
        · obtain ⟨rfl, -⟩ := DecM.pure_some ha
          rfl
        · generalize d.decoderType = dt at ha
          generalize d.transform = tr at ha
          match dt, tr with
          | 1, _ =>
            obtain ⟨_, _, -, ha⟩ := DecM.bind_some ha
            obtain ⟨rfl, -⟩ := DecM.pure_some ha
            rfl
          | 2, .quantization _ _ _ =>
            obtain ⟨rfl, -⟩ := DecM.pure_some ha
            rfl
          | 2, .none => exact absurd ha (DecM.fail_ne_some _ _ _)
          | 2, .octahedron _ => exact absurd ha (DecM.fail_ne_some _ _ _)
          | 0, .octahedron _ =>
            obtain ⟨_, _, -, ha⟩ := DecM.bind_some ha
            obtain ⟨rfl, -⟩ := DecM.pure_some ha
            rfl
          | 0, .none => exact absurd ha (DecM.fail_ne_some _ _ _)
          | 0, .quantization _ _ _ => exact absurd ha (DecM.fail_ne_some _ _ _)
          | n+3, .octahedron _ =>
            obtain ⟨_, _, -, ha⟩ := DecM.bind_some ha
            obtain ⟨rfl, -⟩ := DecM.pure_some ha
            rfl
          | n+3, .none => exact absurd ha (DecM.fail_ne_some _ _ _)
          | n+3, .quantization _ _ _ => exact absurd ha (DecM.fail_ne_some _ _ _)) _ _ _ _ h
  refine ⟨descs, s1, hd, ?_, ?_⟩
  · have := congrArg (List.map Prod.fst) e4
    simp only [List.map_map] at this
    rw [show (fun a : Attribute => a.uniqueId) = Prod.fst ∘ (fun a : Attribute => (a.uniqueId, a.map, a.numValues)) from rfl, this]
    rw [← e1, ← e2, ← e3]
    rfl
  · intro a ha
    have hm : (a.uniqueId, a.map, a.numValues) ∈ st3.map (fun d : SeqAttState => (d.desc.uniqueId, (none : Option (List Nat)), numPoints)) := by
      rw [← e4]; exact List.mem_map_of_mem ha
    obtain ⟨d, -, hd⟩ := List.mem_map.mp hm
    simp only [Prod.mk.injEq] at hd
    exact ⟨hd.2.1.symm, hd.2.2.symm⟩

theorem DecM.failWith_ne_some {α} (st : Status) (s : DSt) (b : α) (s' : DSt) :
    (DecM.failWith st : DecM α) s ≠ (some b, s') := by
  unfold DecM.failWith; intro h; cases h

theorem decodePointAttributesSeq_shape (opts : DecOpts) (numPoints : Nat) (s s' : DSt)
    (atts : List Attribute) (h : decodePointAttributesSeq opts numPoints s = (some atts, s')) :
    ∀ a ∈ atts, a.map = none ∧ a.numValues = numPoints := by
  unfold decodePointAttributesSeq at h
  obtain ⟨n, s1, -, h⟩ := DecM.bind_some h
  split at h
  · obtain ⟨rfl, -⟩ := DecM.pure_some h
    intro a ha; cases ha
  · split at h
    · obtain ⟨_, _, -, -, q⟩ := decodeSequentialAttributes_shape _ _ _ _ _ h
      exact q
    · exact absurd h (DecM.failWith_ne_some _ _ _ _)

theorem DecM.failWith_bind_ne_some {α β} (st : Status) (f : α → DecM β) (s : DSt) (b : β)
    (s' : DSt) : ((DecM.failWith st : DecM α) >>= f) s ≠ (some b, s') := by
  intro h
  obtain ⟨_, _, h1, -⟩ := DecM.bind_some h
  exact DecM.failWith_ne_some _ _ _ _ h1

/-- Every attribute of a geometry decoded by the sequential decoders has the identity map and
    `numPoints` values. `decodeGeometrySeq` is `Decoder::DecodeBufferToGeometry` with the
    Edgebreaker / kd-tree bodies rejected; on a point-cloud stream it is exactly
    `PointCloudSequentialDecoder::Decode` (`PointCloudDecoder::Decode`: header, version gate,
    metadata, `DecodeGeometryData`, `DecodePointAttributes`), which is what
    `KeyframeAnimationDecoder::Decode` calls — that class derives from
    `PointCloudSequentialDecoder` and has no dispatcher of its own. -/
theorem decodeGeometrySeq_shape (opts : DecOpts) (s s' : DSt) (r : DecodeResult)
    (h : decodeGeometrySeq opts s = (some r, s')) :
    ∀ a ∈ r.geometry.atts, a.map = none ∧ a.numValues = r.geometry.numPoints := by
  unfold decodeGeometrySeq decodeStreamWith at h
  obtain ⟨hd, s1, -, h⟩ := DecM.bind_some h
  obtain ⟨_, s2, -, h⟩ := DecM.bind_some h
  dsimp only at h
  generalize (hd.encoderType == 1) = im at h
  cases im <;> simp only [if_true, if_false, Bool.false_eq_true] at h
  all_goals
    repeat' (first
      | exact absurd h (DecM.failWith_ne_some _ _ _ _)
      | exact absurd h (DecM.failWith_bind_ne_some _ _ _ _ _)
      | (obtain ⟨_, _, _, h⟩ := DecM.bind_some h)
      | (split at h))
  all_goals
    obtain ⟨rfl, -⟩ := DecM.pure_some h
    exact decodePointAttributesSeq_shape _ _ _ _ _ (by assumption)

/-- the same for the complete decoder on every stream whose header announces a sequential
    method -/
theorem decodeGeometry_shape (opts : DecOpts) (s s' : DSt) (r : DecodeResult)
    (hs : IsSeqStream s) (h : decodeGeometry opts s = (some r, s')) :
    ∀ a ∈ r.geometry.atts, a.map = none ∧ a.numValues = r.geometry.numPoints := by
  rw [decodeGeometry_eq_seq opts s hs] at h
  exact decodeGeometrySeq_shape opts s s' r h

/-! ## attribute descriptors: writer and round trip -/

/-- one descriptor record of `AttributesEncoder::EncodeAttributesEncoderData` (bitstream ≥ 1.3):
    four `uint8_t` (`static_cast<uint8_t>`, written as `% 256`) and the varint unique id -/
def encodeAttDesc (d : AttDesc) : Bytes :=
  [d.attType % 256, d.dataType % 256, d.numComponents % 256, if d.normalized then 1 else 0]
    ++ encVarint d.uniqueId

/-- `AttributesEncoder::EncodeAttributesEncoderData` (bitstream ≥ 2.0): varint attribute count,
    then one record per attribute in the encoder's attribute order -/
def encodeAttDescs (descs : List AttDesc) : Bytes :=
  encVarint descs.length ++ (descs.map encodeAttDesc).flatten

/-- what `DecodeAttributesDecoderData` accepts (and a `uint8_t` / `uint32_t` can hold) -/
def AttDesc.Ok (d : AttDesc) : Prop :=
  d.attType < 5 ∧ 1 ≤ d.dataType ∧ d.dataType < 12 ∧ 1 ≤ d.numComponents ∧ d.numComponents < 256 ∧
  d.uniqueId < 2^32

instance (d : AttDesc) : Decidable d.Ok := by unfold AttDesc.Ok; infer_instance

theorem encodeAttDesc_length_ge (d : AttDesc) : 5 ≤ (encodeAttDesc d).length := by
  have : 1 ≤ (encVarint d.uniqueId).length := by
    unfold encVarint encVarintFuel; split <;> simp
  unfold encodeAttDesc
  simp only [List.length_append, List.length_cons, List.length_nil]
  omega

theorem encodeAttDescs_body_length (descs : List AttDesc) :
    5 * descs.length ≤ ((descs.map encodeAttDesc).flatten).length := by
  induction descs with
  | nil => simp
  | cons d ds ih =>
    have := encodeAttDesc_length_ge d
    simp only [List.map_cons, List.flatten_cons, List.length_append, List.length_cons]
    omega

/-- the per-attribute body of `decodeAttDescs` reads back one record -/
theorem decodeAttDesc_body (ver : Nat) (hver : ¬ ver < bsVersion 1 3) (d : AttDesc) (hd : d.Ok)
    (s : DSt) (tail : Bytes) (hs : s.rest = encodeAttDesc d ++ tail) :
    (do
      let t ← rdU8
      let dt ← rdU8
      let nc ← rdU8
      let nz ← rdU8
      require (t < Generated.geometryAttribute_NAMED_ATTRIBUTES_COUNT.toNat)
      require (dt != 0 && dt < Generated.DT_TYPES_COUNT.toNat)
      require (nc != 0)
      let uid ← if ver < bsVersion 1 3 then rdU16 else varint 32
      pure (⟨t, dt, nc, nz > 0, uid⟩ : AttDesc) : DecM AttDesc) s
      = (some d, { s with rest := tail }) := by
  obtain ⟨h1, h2, h3, h4, h5, h6⟩ := hd
  obtain ⟨rest, allocs, declared, version, status⟩ := s
  simp only at hs
  subst hs
  have hv := decVarint_enc (w := 32) (by simp) d.uniqueId h6 tail
  have m1 : d.attType % 256 = d.attType := Nat.mod_eq_of_lt (by omega)
  have m2 : d.dataType % 256 = d.dataType := Nat.mod_eq_of_lt (by omega)
  have m3 : d.numComponents % 256 = d.numComponents := Nat.mod_eq_of_lt (by omega)
  have e5 : Generated.geometryAttribute_NAMED_ATTRIBUTES_COUNT.toNat = 5 := rfl
  have e12 : Generated.DT_TYPES_COUNT.toNat = 12 := rfl
  have c1 : decide (d.attType < 5) = true := by simpa using h1
  have c2 : (d.dataType != 0 && decide (d.dataType < 12)) = true := by
    simp; omega
  have c3 : (d.numComponents != 0) = true := by simp; omega
  simp only [e5, e12]
  simp [Bind.bind, DecM.andThen, rdU8, DecM.lift, readU8, encodeAttDesc, m1, m2, m3, DecM.require,
    DecM.ret, pure, varint, hv, hver, c1, c2, c3]
  cases d with
  | mk a b c n u => cases n <;> simp

theorem DecM.mapM'_replicate_enc {α} (f : DecM α) (enc : α → Bytes) (ok : α → Prop)
    (hf : ∀ (a : α), ok a → ∀ (s : DSt) (tail : Bytes), s.rest = enc a ++ tail →
      f s = (some a, { s with rest := tail })) :
    ∀ (l : List α), (∀ a ∈ l, ok a) → ∀ (s : DSt) (tail : Bytes),
      s.rest = (l.map enc).flatten ++ tail →
      mapM' (fun _ => f) (List.replicate l.length ()) s = (some l, { s with rest := tail }) := by
  intro l
  induction l with
  | nil =>
    intro _ s tail hs
    simp only [List.map_nil, List.flatten_nil, List.nil_append] at hs
    show (some [], s) = _
    rw [← hs]
  | cons a as ih =>
    intro hok s tail hs
    simp only [List.map_cons, List.flatten_cons, List.append_assoc] at hs
    have h1 := hf a (hok a (by simp)) s _ hs
    have h2 := ih (fun x hx => hok x (by simp [hx])) { s with rest := (as.map enc).flatten ++ tail } tail rfl
    simp only [List.length_cons, List.replicate_succ]
    unfold mapM'
    show DecM.andThen _ _ s = _
    unfold DecM.andThen
    rw [h1]
    show DecM.andThen _ _ _ = _
    unfold DecM.andThen
    rw [h2]
    rfl

theorem DecM.require_true (c : Bool) (h : c = true) (s : DSt) :
    DecM.require c s = (some (), s) := by
  subst h; rfl

theorem DecM.bind_eq {α β} {m : DecM α} {f : α → DecM β} {s : DSt} {a : α} {s1 : DSt}
    (h : m s = (some a, s1)) : (m >>= f) s = f a s1 := by
  show DecM.andThen m f s = _
  unfold DecM.andThen
  rw [h]

/-- `DecodeAttributesDecoderData` reads back what `EncodeAttributesEncoderData` wrote, consumes
    exactly those bytes and logs the one allocation -/
theorem decodeAttDescs_encodeAttDescs (descs : List AttDesc) (tail : Bytes) (s : DSt)
    (hver : bsVersion 2 0 ≤ s.version) (hrest : s.rest = encodeAttDescs descs ++ tail)
    (hne : descs ≠ []) (hlen : descs.length < 2^32) (hok : ∀ d ∈ descs, d.Ok) :
    decodeAttDescs s = (some descs,
      { s with rest := tail
               allocs := ("attributes_decoder.point_attribute_ids", 4 * descs.length) :: s.allocs }) := by
  have hv2 : ¬ s.version < bsVersion 2 0 := by omega
  have hv13 : ¬ s.version < bsVersion 1 3 := by
    have : bsVersion 1 3 ≤ bsVersion 2 0 := by decide
    omega
  have hpos : 0 < descs.length := List.length_pos_iff.mpr hne
  unfold decodeAttDescs
  refine (DecM.bind_eq (m := version) (a := s.version) (s1 := s) rfl).trans ?_
  dsimp only
  rw [if_neg hv2]
  have hvar : varint 32 s = (some descs.length,
      { s with rest := (descs.map encodeAttDesc).flatten ++ tail }) := by
    unfold varint DecM.lift
    rw [hrest]
    unfold encodeAttDescs
    rw [List.append_assoc, decVarint_enc (w := 32) (by simp) _ hlen]
  refine (DecM.bind_eq hvar).trans ?_
  have r1 : (descs.length != 0) = true := by simp; omega
  have r2 : decide (descs.length ≤ 5 * ((descs.map encodeAttDesc).flatten ++ tail).length) = true := by
    have := encodeAttDescs_body_length descs
    simp only [List.length_append, decide_eq_true_eq]
    omega
  refine (DecM.bind_eq (DecM.require_true _ r1 _)).trans ?_
  refine (DecM.bind_eq (m := remaining) rfl).trans ?_
  refine (DecM.bind_eq (DecM.require_true _ r2 _)).trans ?_
  refine (DecM.bind_eq (m := alloc _ _) rfl).trans ?_
  have := DecM.mapM'_replicate_enc _ encodeAttDesc AttDesc.Ok
    (fun d hd t tl ht => decodeAttDesc_body s.version hv13 d hd t tl ht) descs hok
    { s with rest := (descs.map encodeAttDesc).flatten ++ tail
             allocs := ("attributes_decoder.point_attribute_ids", 4 * descs.length) :: s.allocs }
    tail rfl
  exact this

/-! ## the animation's descriptors -/

/-- the descriptor `EncodeAttributesEncoderData` writes for one attribute -/
def AnimAttr.desc (a : AnimAttr) : AttDesc :=
  ⟨a.attType, a.dataType, a.numComponents, a.normalized, a.uniqueId⟩

/-- descriptors in the order the sequential point-cloud encoder writes them:
    `PointCloudSequentialEncoder::GenerateAttributesEncoder` puts attribute ids 0, 1, 2, … into its
    single `SequentialAttributeEncodersController`, and `RearrangeAttributesEncoders` keeps that
    order (no attribute has a parent) -/
def Anim.descs (A : Anim) : List AttDesc := A.atts.map AnimAttr.desc

/-- a call whose attribute the codec can carry: valid data type, stored component count ≠ 0 -/
def AnimCall.Codable : AnimCall → Prop
  | .setTimestamps _ => True
  | .addKeyframes dt nc _ => 1 ≤ dt ∧ dt < 12 ∧ nc % 256 ≠ 0

instance (c : AnimCall) : Decidable c.Codable := by
  cases c <;> unfold AnimCall.Codable <;> infer_instance

def AnimAttr.Codable (a : AnimAttr) : Prop :=
  a.attType = 4 ∧ a.normalized = false ∧ 1 ≤ a.dataType ∧ a.dataType < 12 ∧
  1 ≤ a.numComponents ∧ a.numComponents < 256

def Anim.Codable (A : Anim) : Prop := ∀ a ∈ A.atts, a.Codable

theorem tsAttr_codable (ts : List Nat) : (tsAttr ts).Codable := by
  exact ⟨rfl, rfl, (by decide : 1 ≤ 9), (by decide : 9 < 12), (by decide : 1 ≤ 1), (by decide : 1 < 256)⟩

theorem init_codable {dt nc : Nat} (h : 1 ≤ dt ∧ dt < 12 ∧ nc % 256 ≠ 0) (id nf : Nat)
    (data : List Nat) :
    ({ AnimAttr.init animGeneric nc dt false nf data with uniqueId := id } : AnimAttr).Codable := by
  refine ⟨rfl, rfl, h.1, h.2.1, ?_, ?_⟩
  · show 1 ≤ nc % 256; omega
  · show nc % 256 < 256; omega

theorem Anim.step_codable {A : Anim} (h : A.Codable) {c : AnimCall} (hc : c.Codable) :
    (A.step c).1.Codable := by
  cases c with
  | setTimestamps ts =>
    show (A.setTimestamps ts).1.Codable
    rcases A.setTimestamps_cases ts with ⟨e, -⟩ | ⟨-, e, -⟩
    · rw [e]; exact h
    · unfold Anim.Codable; rw [e]
      intro a ha
      rcases List.mem_cons.mp ha with rfl | ha
      · exact tsAttr_codable ts
      · exact h a (List.mem_of_mem_tail ha)
  | addKeyframes dt nc data =>
    show (A.addKeyframes dt nc data).1.Codable
    have hpre : ∀ a ∈ A.preAtts dt nc, a.Codable := by
      unfold Anim.preAtts
      split
      · intro a ha
        rcases List.mem_singleton.mp ha with rfl
        exact init_codable hc 0 0 []
      · exact h
    rcases A.addKeyframes_cases dt nc data with ⟨-, e⟩ | ⟨-, -, -, e, -⟩ | ⟨-, -, -, e, -⟩
    · rw [e]; exact h
    · unfold Anim.Codable; rw [e]; exact hpre
    · unfold Anim.Codable; rw [e]
      intro a ha
      rcases List.mem_append.mp ha with ha | ha
      · exact hpre a ha
      · rcases List.mem_singleton.mp ha with rfl
        exact init_codable hc _ _ _

theorem Anim.run_codable : ∀ (cs : List AnimCall) {A : Anim}, A.Codable →
    (∀ c ∈ cs, c.Codable) → (A.run cs).1.Codable
  | [], _, h, _ => h
  | c :: cs, A, h, hc => by
    rw [Anim.run_cons]
    exact Anim.run_codable cs (Anim.step_codable h (hc c (by simp))) (fun x hx => hc x (by simp [hx]))

theorem Anim.empty_codable : Anim.empty.Codable := by intro a ha; cases ha

theorem Anim.descs_getElem? (A : Anim) (i : Nat) : A.descs[i]? = (A.atts[i]?).map AnimAttr.desc := by
  unfold Anim.descs; simp

theorem Anim.descs_ok {A : Anim} (hu : A.UidIdx) (hc : A.Codable) (hlen : A.atts.length < 2^32) :
    ∀ d ∈ A.descs, d.Ok := by
  intro d hd
  obtain ⟨a, ha, rfl⟩ := List.mem_map.mp hd
  obtain ⟨i, hi, rfl⟩ := List.getElem_of_mem ha
  have hid := hu i A.atts[i] (by simp)
  obtain ⟨c1, c2, c3, c4, c5, c6⟩ := hc _ ha
  refine ⟨?_, c3, c4, c5, c6, ?_⟩
  · show A.atts[i].attType < 5; omega
  · show A.atts[i].uniqueId < 2^32; omega


theorem copyEntries_take (nc : Nat) : ∀ (n : Nat) (data : List Nat),
    copyEntries nc nc n data = data.take (nc * n)
  | 0, data => by simp [copyEntries]
  | n+1, data => by
    rw [copyEntries, copyEntries_take nc n, Nat.mul_succ, Nat.add_comm (nc * n) nc, List.take_add]

/-- with the stored stride equal to the caller's stride the copy loop stores the whole vector -/
theorem copyEntries_self (nc n : Nat) (data : List Nat) (h : data.length = nc * n) :
    copyEntries nc nc n data = data := by
  rw [copyEntries_take, ← h, List.take_length]

/-- the stored track in the no-narrowing range -/
theorem trackAttr_of_lt (id dt nc nf : Nat) (data : List Nat) (hnc : nc < 256)
    (hlen : data.length = nc * nf) :
    trackAttr id dt nc nf data =
      { uniqueId := id, attType := 4, dataType := dt, numComponents := nc, normalized := false,
        size := nf, data := data } := by
  unfold trackAttr AnimAttr.init
  rw [Nat.mod_eq_of_lt hnc, copyEntries_self nc nf data hlen]
  rfl

/-! ## a successful call inside a run -/

/-- what a successful `AddKeyframes` at position `k` of a run leaves behind -/
theorem Anim.addKeyframes_in_run {A0 : Anim} (h0 : A0.UidIdx) (calls : List AnimCall) (k : Nat)
    (dt nc : Nat) (data : List Nat) (id : Int)
    (hcall : calls[k]? = some (.addKeyframes dt nc data))
    (hret : (A0.run calls).2[k]? = some (.id id)) (hid : 0 ≤ id) :
    nc ≠ 0 ∧ 1 ≤ id ∧
    (A0.run (calls.take k)).1.atts.length ≤ id.toNat ∧
    (A0.run (calls.take (k + 1))).1.atts.length = id.toNat + 1 ∧
    data.length = (nc * (A0.run (calls.take (k + 1))).1.numFrames) % 2^32 ∧
    (A0.run calls).1.numFrames = (A0.run (calls.take (k + 1))).1.numFrames ∧
    (A0.run calls).1.atts[id.toNat]? =
      some (trackAttr id.toNat dt nc (A0.run (calls.take (k + 1))).1.numFrames data) := by
  obtain ⟨hr, hC⟩ := Anim.run_split A0 calls k _ hcall
  rw [hr] at hret
  have hB := Anim.run_uidIdx h0 (calls.take k)
  have hC' := Anim.run_uidIdx h0 (calls.take (k + 1))
  have hext := Anim.run_take_ext_final h0 calls (k + 1)
  generalize (A0.run (calls.take k)).1 = B at *
  generalize (A0.run (calls.take (k + 1))).1 = C at *
  generalize (A0.run calls).1 = F at *
  have hret' : (B.addKeyframes dt nc data).2 = id := by
    have : (B.step (.addKeyframes dt nc data)).2 = .id (B.addKeyframes dt nc data).2 := rfl
    rw [this] at hret
    injection hret with hret; injection hret
  have hC2 : C = (B.addKeyframes dt nc data).1 := hC
  rcases B.addKeyframes_cases dt nc data with ⟨-, e⟩ | ⟨-, -, e, -⟩ | ⟨hnc, hlen, e, eatts, enf⟩
  · rw [e] at hret'; simp at hret'; omega
  · rw [e] at hret'; omega
  · rw [hret'] at e
    have hpos := B.preAtts_length_pos dt nc
    have hle := B.length_le_preAtts dt nc
    have hidn : id.toNat = (B.preAtts dt nc).length := by omega
    rw [← hC2] at eatts enf
    have hCatt : C.atts[id.toNat]? = some (trackAttr id.toNat dt nc C.numFrames data) := by
      rw [eatts, hidn, enf]; simp
    have hCne : C.atts ≠ [] := by rw [eatts]; simp
    refine ⟨hnc, by omega, by omega, ?_, ?_, hext.frames hCne, ?_⟩
    · rw [eatts]; simp; omega
    · rw [enf]; exact hlen
    · exact hext.tail _ _ (by omega) hCatt

/-- what a successful `SetTimestamps` with at least one frame leaves behind -/
theorem Anim.setTimestamps_in_run {A0 : Anim} (h0 : A0.UidIdx) (calls : List AnimCall) (k : Nat)
    (ts : List Nat) (hcall : calls[k]? = some (.setTimestamps ts))
    (hret : (A0.run calls).2[k]? = some (.bool true)) (hts : ts ≠ []) (j : Nat) (hj : k < j) :
    (A0.run (calls.take j)).1.atts[0]? = some (tsAttr ts) ∧
    (A0.run (calls.take j)).1.numFrames = ts.length := by
  obtain ⟨hr, hC⟩ := Anim.run_split A0 calls k _ hcall
  rw [hr] at hret
  have hext := Anim.run_take_ext h0 calls (k + 1) j hj
  generalize (A0.run (calls.take k)).1 = B at *
  generalize (A0.run (calls.take (k + 1))).1 = C at *
  generalize (A0.run (calls.take j)).1 = F at *
  have hret' : (B.setTimestamps ts).2 = true := by
    have : (B.step (.setTimestamps ts)).2 = .bool (B.setTimestamps ts).2 := rfl
    rw [this] at hret
    injection hret with hret; injection hret
  have hC2 : C = (B.setTimestamps ts).1 := hC
  rcases B.setTimestamps_cases ts with ⟨e, -⟩ | ⟨-, eatts, enf, -⟩
  · rw [e] at hret'; cases hret'
  · rw [← hC2] at eatts enf
    have hCne : C.atts ≠ [] := by rw [eatts]; simp
    have hsz : (tsAttr ts).size ≠ 0 := by
      show ts.length ≠ 0
      intro h; exact hts (List.length_eq_zero_iff.mp h)
    refine ⟨hext.head _ (by rw [eatts]; rfl) hsz, ?_⟩
    rw [hext.frames hCne, enf]

end Draco
