import DracoModel.Metadata
/-
  Specification vocabulary for metadata coding (C11): the representation invariant of the
  C++ containers (`Canonical`), what the stream format and the decoder can represent
  (`Encodable`), and the induction principle for the nested inductive type `Metadata`.
-/
namespace Draco

/-- Induction over `Metadata` together with its list of sub-metadata. -/
theorem Metadata.induct {P : Metadata → Prop} {Q : List (Bytes × Metadata) → Prop}
    (mk : ∀ es ss, Q ss → P (.mk es ss)) (nil : Q [])
    (cons : ∀ n m t, P m → Q t → Q ((n, m) :: t)) : ∀ m, P m :=
  fun m => Metadata.rec (motive_1 := P) (motive_2 := Q) (motive_3 := fun p => P p.2)
    mk nil (fun h t hp ht => cons h.1 h.2 t hp ht) (fun _ _ h => h) m

theorem Metadata.induct_subs {P : Metadata → Prop} {Q : List (Bytes × Metadata) → Prop}
    (mk : ∀ es ss, Q ss → P (.mk es ss)) (nil : Q [])
    (cons : ∀ n m t, P m → Q t → Q ((n, m) :: t)) : ∀ ss, Q ss
  | [] => nil
  | (n, m) :: t => cons n m t (Metadata.induct mk nil cons m) (Metadata.induct_subs mk nil cons t)

/-- names strictly ascending in `std::string` order (iteration order of a `std::map`, no
    duplicate keys) -/
def SortedKeys {α : Type} : List (Bytes × α) → Prop
  | [] => True
  | [_] => True
  | a :: b :: t => bytesLt a.1 b.1 = true ∧ SortedKeys (b :: t)

mutual
/-- every node (entries, subs) of the tree satisfies `P` -/
def Metadata.All (P : List (Bytes × Bytes) → List (Bytes × Metadata) → Prop) : Metadata → Prop
  | .mk es ss => P es ss ∧ SubsAll P ss
def SubsAll (P : List (Bytes × Bytes) → List (Bytes × Metadata) → Prop) :
    List (Bytes × Metadata) → Prop
  | [] => True
  | (_, m) :: t => m.All P ∧ SubsAll P t
end

mutual
/-- nesting depth: 0 for a metadata without sub-metadata -/
def Metadata.depth : Metadata → Nat
  | .mk _ ss => subsDepth ss
def subsDepth : List (Bytes × Metadata) → Nat
  | [] => 0
  | (_, m) :: t => max (m.depth + 1) (subsDepth t)
end

/-- Representation invariant of a C++ `Metadata` object: in every node the entries and the
    sub-metadata are listed in `std::map` order. (Every object built through the public API
    satisfies it; it is not something an encoder could check or violate.) -/
def Metadata.Canonical (m : Metadata) : Prop :=
  m.All (fun es ss => SortedKeys es ∧ SortedKeys ss)

/-- What one node may contain so that the stream can represent it. `allowEmpty = false` is
    the code as written (the decoder rejects `data_size == 0`), `true` the repaired code. -/
def NodeEncodable (allowEmpty : Bool) (es : List (Bytes × Bytes))
    (ss : List (Bytes × Metadata)) : Prop :=
  es.length < 2^32 ∧ ss.length < 2^32 ∧
  (∀ e ∈ es, e.1.length ≤ 255 ∧ e.2.length < 2^32 ∧ (allowEmpty = false → e.2 ≠ [])) ∧
  (∀ s ∈ ss, s.1.length ≤ 255)

/-- Names of at most 255 bytes, values of fewer than 2^32 bytes (and non-empty unless
    `allowEmpty`), fewer than 2^32 entries / sub-metadata per node, and nesting depth at most
    `kMaxSubmetadataLevel + 1` (= 1001 levels of sub-metadata below the root). -/
def Metadata.Encodable (allowEmpty : Bool) (m : Metadata) : Prop :=
  m.All (NodeEncodable allowEmpty) ∧ m.depth ≤ kMaxSubmetadataLevel + 1

/-- exactly the metadata that the code as written transports faithfully -/
def Metadata.WF (m : Metadata) : Prop := m.Canonical ∧ m.Encodable false

/-- exactly the metadata that the repaired code transports faithfully -/
def Metadata.WF' (m : Metadata) : Prop := m.Canonical ∧ m.Encodable true

def AttsAll (P : Metadata → Prop) (l : List (Nat × Metadata)) : Prop :=
  ∀ a ∈ l, a.1 < 2^32 ∧ P a.2

def GeometryMetadata.WF (g : GeometryMetadata) : Prop :=
  g.atts.length < 2^32 ∧ AttsAll Metadata.WF g.atts ∧ g.root.WF

def GeometryMetadata.WF' (g : GeometryMetadata) : Prop :=
  g.atts.length < 2^32 ∧ AttsAll Metadata.WF' g.atts ∧ g.root.WF'

def GeometryMetadata.Canonical (g : GeometryMetadata) : Prop :=
  (∀ a ∈ g.atts, a.2.Canonical) ∧ g.root.Canonical

end Draco
