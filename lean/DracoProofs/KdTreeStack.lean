import DracoModel.KdTree
import DracoModel.KdTreeEnc
import DracoProofs.TreeStack
import Mathlib.Tactic.Ring
/-
  `DecodeInternal` / `EncodeInternal` with their explicit stacks compute the same functions as
  the recursive `Kd.tree` / `TreeStack.tree (Kd.encNode …)`: instances of
  `TreeStack.run_eq_tree` with the measure `n · (remaining levels + 1) + 1`.
-/
namespace Draco.Kd
open TreeStack

/-- total number of splits still possible below a node -/
def remLevels (bitLength : Nat) (levels : List Nat) : Nat := (levels.map (bitLength - ·)).sum

theorem remLevels_set (bl : Nat) : ∀ (levels : List Nat) (i : Nat), i < levels.length →
    levels.getD i 0 < bl →
    remLevels bl (levels.set i (levels.getD i 0 + 1)) + 1 = remLevels bl levels := by
  intro levels
  induction levels with
  | nil => intro i h; simp at h
  | cons x xs ih =>
    intro i hi hlt
    cases i with
    | zero =>
      simp only [List.getD_cons_zero] at hlt
      simp only [remLevels, List.set_cons_zero, List.getD_cons_zero, List.map_cons, List.sum_cons]
      omega
    | succ i =>
      simp only [List.getD_cons_succ] at hlt
      simp only [List.length_cons] at hi
      have := ih i (by omega) hlt
      simp only [remLevels, List.set_cons_succ, List.getD_cons_succ, List.map_cons, List.sum_cons] at this ⊢
      omega

theorem remLevels_replicate (bl dim : Nat) : remLevels bl (List.replicate dim 0) = bl * dim := by
  induction dim with
  | zero => simp [remLevels]
  | succ d ih =>
    simp only [remLevels, List.replicate_succ, List.map_cons, List.sum_cons] at ih ⊢
    rw [ih, Nat.mul_succ]; omega

/-- measure of a decoder tuple -/
def frameMu (P : Params) (fr : Frame) : Nat := fr.n * (remLevels P.bitLength fr.levels + 1) + 1

/-- what `node` does when it splits -/
theorem node_split {σ} (S : Src σ) (P : Params) (fr : Frame) (st : St σ)
    (out : List (List Nat)) (f sn : Option Frame) (st1 : St σ)
    (h : node S P fr st = some (.split out f sn st1)) :
    ∃ axis n1 n2 base2, axis < P.dim ∧ fr.levels.getD axis 0 < P.bitLength ∧ 2 < fr.n ∧
      n1 + n2 = fr.n ∧ out = [] ∧
      f = (if n1 ≠ 0 then some ⟨n1, axis, fr.base, fr.levels.set axis (fr.levels.getD axis 0 + 1)⟩ else none) ∧
      sn = (if n2 ≠ 0 then some ⟨n2, axis, base2, fr.levels.set axis (fr.levels.getD axis 0 + 1)⟩ else none) ∧
      base2.length = fr.base.length ∧ st1.decoded = st.decoded := by
  unfold node at h
  split at h
  · cases h
  simp only at h
  generalize (getAxis S P st.src fr.n fr.levels fr.lastAxis).1 = axis at h
  generalize (getAxis S P st.src fr.n fr.levels fr.lastAxis).2 = s0 at h
  unfold nodeAt at h
  split at h
  · cases h
  split at h
  · cases h
  split at h
  · split at h <;> cases h
  split at h
  · cases h
  unfold splitNode at h
  simp only at h
  generalize (S.number s0 (Nat.log2 fr.n)).1 = number at h
  generalize (S.number s0 (Nat.log2 fr.n)).2 = s1 at h
  split at h
  · cases h
  rename_i h1 h2 h3 h4 h5
  have key : ∀ (a b : Nat) (x : σ), a + b = fr.n →
      some (pushChildren P fr axis a b ⟨x, st.decoded⟩) = some (Step.split out f sn st1) →
      ∃ axis n1 n2 base2, axis < P.dim ∧ fr.levels.getD axis 0 < P.bitLength ∧ 2 < fr.n ∧
        n1 + n2 = fr.n ∧ out = [] ∧
        f = (if n1 ≠ 0 then some ⟨n1, axis, fr.base, fr.levels.set axis (fr.levels.getD axis 0 + 1)⟩ else none) ∧
        sn = (if n2 ≠ 0 then some ⟨n2, axis, base2, fr.levels.set axis (fr.levels.getD axis 0 + 1)⟩ else none) ∧
        base2.length = fr.base.length ∧ st1.decoded = st.decoded := by
    intro a b x hab hx
    simp only [pushChildren, Option.some.injEq, Step.split.injEq] at hx
    obtain ⟨ho, hf, hs, hst⟩ := hx
    exact ⟨axis, a, b, _, by omega, by omega, by omega, hab, ho.symm, hf.symm, hs.symm,
      by simp only [List.length_set], by rw [← hst]⟩
  split at h
  · split at h
    · exact key _ _ _ (by omega) h
    · exact key _ _ _ (by omega) h
  · exact key _ _ _ (by omega) h

theorem node_measured {σ} (S : Src σ) (P : Params) :
    Measured (node S P) (fun fr => fr.levels.length = P.dim) (frameMu P) := by
  constructor
  · intro fr s out s1 _ _
    simp only [frameMu]; omega
  · intro fr s out f sn s1 hi h
    obtain ⟨axis, n1, n2, base2, hax, hlv, hn, hsum, _, hf, hs, _, _⟩ := node_split S P fr s out f sn s1 h
    have hrl := remLevels_set P.bitLength fr.levels axis (by omega) hlv
    generalize hR' : remLevels P.bitLength (fr.levels.set axis (fr.levels.getD axis 0 + 1)) = R' at hrl
    have hlen : (fr.levels.set axis (fr.levels.getD axis 0 + 1)).length = P.dim := by
      rw [List.length_set]; exact hi
    refine ⟨?_, ?_, ?_⟩
    · have hmul : fr.n * (R' + 1 + 1) = n1 * (R' + 1) + n2 * (R' + 1) + fr.n := by
        rw [← hsum]; ring
      have e1 : μo (frameMu P) f ≤ n1 * (R' + 1) + (if n1 ≠ 0 then 1 else 0) := by
        rw [hf]; split
        · simp only [μo, frameMu, hR']; omega
        · simp only [μo]; omega
      have e2 : μo (frameMu P) sn ≤ n2 * (R' + 1) + (if n2 ≠ 0 then 1 else 0) := by
        rw [hs]; split
        · simp only [μo, frameMu, hR']; omega
        · simp only [μo]; omega
      simp only [frameMu, ← hrl]
      rw [hmul]
      split at e1 <;> split at e2 <;> omega
    · intro c hc
      rw [hf] at hc
      split at hc
      · cases hc; exact hlen
      · cases hc
    · intro c hc
      rw [hs] at hc
      split at hc
      · cases hc; exact hlen
      · cases hc

/-- `DecodeInternal` (explicit stack) = the recursive tree decoder -/
theorem decodeInternal_eq_tree {σ} (S : Src σ) (P : Params) (s : σ) (d : Nat)
    (hd : runFuel P ≤ d) :
    decodeInternal S P s =
      tree S P d ⟨P.numPoints, 0, List.replicate P.dim 0, List.replicate P.dim 0⟩ ⟨s, 0⟩ := by
  have hmu : frameMu P ⟨P.numPoints, 0, List.replicate P.dim 0, List.replicate P.dim 0⟩ = runFuel P := by
    simp only [frameMu, runFuel, remLevels_replicate]
  have := run_eq_tree (node_measured S P) (runFuel P) d
    ⟨P.numPoints, 0, List.replicate P.dim 0, List.replicate P.dim 0⟩ ⟨s, 0⟩ (by simp)
    (by rw [hmu]) (by rw [hmu]; exact hd)
  simp only [decodeInternal, run, tree, this]
  cases TreeStack.tree (node S P) d _ _ with
  | none => rfl
  | some r => obtain ⟨o, s1⟩ := r; simp

end Draco.Kd
