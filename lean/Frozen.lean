import Frozen.Constants
import Frozen.FastDivTab
import Frozen.VersionGates
