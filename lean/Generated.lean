import Generated.Constants
import Generated.FastDivTab
