import Generated.Constants
import Generated.FastDivTab
import Generated.Globals
import Generated.ExternRefs
import Generated.VersionGates
import Generated.Funcs
