import DracoProps.C17
import DracoProps.C16
import DracoProps.C07
import DracoProps.C04
import DracoProps.C12
import DracoProps.C13
import DracoProps.C01
import DracoProps.C19
