import DracoProps.C17
