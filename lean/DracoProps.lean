import DracoProps.C17
import DracoProps.C16
import DracoProps.C07
import DracoProps.C04
import DracoProps.C12
import DracoProps.C13
import DracoProps.C01
import DracoProps.C01Kd
import DracoProps.C19
import DracoProps.C11
import DracoProps.C08
import DracoProps.C14
import DracoProps.C15
import DracoProps.C01Eb
import DracoProps.C05
import DracoProps.C06
-- TEMP(merge) import DracoProps.C10
-- TEMP(merge) import DracoProps.C20
-- TEMP(merge) import DracoProps.C09
import DracoProps.C03
import DracoProps.C02
import DracoProps.C18
