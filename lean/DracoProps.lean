import DracoProps.C17
import DracoProps.C16
import DracoProps.C07
