import sys, random
sys.path.insert(0, "/tmp/slice_ebenc/verif/tools")
from props import ebcases as E, ebenc_cases as X, geomgen as G
import dev
rng = random.Random(5)
cases = []
for split in (0, 1):
    for sp in (0, 2, 5, 7):
        for extra in ([("tex", "vertex")], [("normal", "vertex")], [("generic", "seam_random")], [("tex", "seam_line"), ("normal", "vertex")]):
            g = X.reorder_position(rng, E.build(rng, E.grid(rng, 3, 3), extra))
            toks, _ = E.options(rng, g, speed=sp, split=split)
            cases.append((g, toks, f"split={split} speed={sp} atts={[a.att_type for a in g.atts]}"))
dev.check(cases)
